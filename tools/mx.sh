#!/bin/bash
# tools/mx.sh <worker> <seeded-id>...  : run ALL checks against each seeded change in a private copy of /repo and /verif
# (so that several workers can run side by side and /repo itself is never touched). Results: /tmp/mx/<worker>/results.tsv
w=$1; shift
D=/tmp/mx/$w
rm -rf $D; mkdir -p $D
git clone -q /repo $D/repo
rsync -a --exclude .git --exclude .build --exclude replays ${VSRC:-/verif}/ $D/verif/
sed -i "s|=> /repo|=> $D/repo|" $D/verif/harness/go.mod
cd $D/verif
export GOFLAGS=-mod=mod GOPROXY=off
for id in "$@"; do
  git -C $D/repo apply /verif/seeded/$id/patch.diff || { echo -e "$id\tALL\tPATCH-DOES-NOT-APPLY" >> $D/results.tsv; continue; }
  for c in ${CHECKS:-C01 C02 C03 C04 C05 C06 C07 C08 C09 C10 C11 C12 C13 C14 C15 C16 C17 C18 C19 C20}; do
    [ "$c" = OWN ] && c=${id%-*}
    out=$(./check $c --tier quick 2>&1); rc=$?
    key=$(echo "$out" | grep -m1 "key=" | sed 's/^ *key=//' | cut -c1-120)
    echo -e "$id\t$c\t$rc\t$key" >> $D/results.tsv
  done
  git -C $D/repo checkout -q -- . ; git -C $D/repo clean -fdq
done
echo DONE >> $D/results.tsv
