#!/opt/veriftools/pyvenv/bin/python
import json, jsonschema, glob, sys
ok = True
try:
    jsonschema.validate(json.load(open('/verif/MANIFEST.json')), json.load(open('/root/.vp/MANIFEST.schema.json')))
except Exception as e:
    ok = False; print("MANIFEST invalid:", e)
es = json.load(open('/root/.vp/EVIDENCE.schema.json'))
for f in sorted(glob.glob('/verif/evidence/*.json')):
    try:
        jsonschema.validate(json.load(open(f)), es)
    except Exception as e:
        ok = False; print(f, "invalid:", str(e)[:300])
m = json.load(open('/verif/MANIFEST.json'))
claimed = {c['property_id'] for c in m['checks']}
na = {c['property_id'] for c in m.get('not_applicable', [])}
allp = {json.loads(l)['id'] for l in open('/verif/properties.jsonl')}
print("claimed", len(claimed), "na", len(na), "unaccounted", sorted(allp - claimed - na))
print("valid" if ok else "INVALID")
