#!/usr/bin/env python3
"""Collect the results of tools/mx.sh workers (/tmp/mx/*/results.tsv) into /verif/seeded/results.json and RESULTS.md.

results.json accumulates: entries of seeded changes that are re-run replace their older entries."""
import glob, json, os, sys

V = "/verif/seeded"
path = os.path.join(V, "results.json")
res = json.load(open(path)) if os.path.exists(path) else {}
for f in sorted(glob.glob("/tmp/mx/*/results.tsv")):
    fresh = set()
    for line in open(f, errors="replace"):
        parts = line.rstrip("\n").split("\t")
        if len(parts) < 3 or parts[0] == "DONE":
            continue
        sid, check, rc = parts[0], parts[1], parts[2]
        key = parts[3] if len(parts) > 3 else ""
        if sid not in fresh:
            # a worker that ran every check replaces the entry; an own-check-only run (CHECKS=OWN) updates that column
            # and keeps the older outcome as rc_first
            if os.environ.get("MERGE") != "1":
                res[sid] = {}
            fresh.add(sid)
        old = res.setdefault(sid, {}).get(check)
        res[sid][check] = {"rc": rc, "key": key}
        if old is not None and old.get("rc") != rc:
            res[sid][check]["rc_first"] = old.get("rc_first", old.get("rc"))
json.dump(res, open(path, "w"), indent=1, sort_keys=True)

notes = {}
npath = os.path.join(V, "first_run_notes.json")
if os.path.exists(npath):
    notes = json.load(open(npath))

lines = ["# Independently seeded breaking changes and which checks catch them", "",
         "Each change was produced by a sub-agent that saw only the text of one property and a scratch worktree of /repo,",
         "and was kept only after `tools/seed_verify.sh` confirmed: the patch applies, the library builds, the unedited suite",
         "passes with it, the demonstration fails with it and passes without it. `tools/mx.sh` then ran the quick tier of",
         "ALL twenty checks (VERIF_SEED=1) against each change in a private copy of /repo.", "",
         "`own check` = the check of the property the change was seeded for. `first run` = outcome of the own check at the moment",
         "the change arrived, before any strengthening prompted by it (`caught` / `missed -> what was added`).", "",
         "| seeded change | property | mechanism (short) | own check | violation key | other checks that also alarm | first run |",
         "|---|---|---|---|---|---|---|"]
caught = total = 0
for sid in sorted(res):
    mp = os.path.join(V, sid, "meta.json")
    if not os.path.exists(mp):
        continue
    m = json.load(open(mp))
    prop = m["breaks_property"]
    if m.get("status") == "superseded":
        lines.append("| %s | %s | %s | superseded | | | %s |" % (sid, prop, m["mechanism"][:110].replace("|", "/"), notes.get(sid, "")))
        continue
    r = res.get(sid, {})
    own = r.get(prop, {})
    total += 1
    ok = own.get("rc") == "1"
    caught += ok
    others = sorted(c for c, v in r.items() if c != prop and v.get("rc") == "1")
    broken = sorted(c for c, v in r.items() if v.get("rc") not in ("0", "1"))
    extra = ", ".join(others) + ((" ; inconclusive: " + ", ".join(broken)) if broken else "")
    lines.append("| %s | %s | %s | %s | %s | %s | %s |" % (sid, prop, m["mechanism"][:110].replace("|", "/"), "caught" if ok else "MISSED (rc=%s)" % own.get("rc"),
                                                      (own.get("key", "")[:80]).replace("|", "/"), extra, notes.get(sid, "")))
lines += ["", "Own-check detection in this table: %d of %d." % (caught, total), ""]
open(os.path.join(V, "RESULTS.md"), "w").write("\n".join(lines))
print("seeded changes:", total, "caught by own check:", caught)
