#!/usr/bin/env python3
"""tools/seed_import.py <PROP> <N> <round> <wtprefix> <mechanism> <needs>: copy a confirmed sub-agent change into /verif/seeded/<PROP>-<k>/."""
import json, os, shutil, subprocess, sys
P, N, rnd, pre, mech, needs = sys.argv[1:7]
k = 1
while os.path.exists(f"/verif/seeded/{P}-{k}"):
    k += 1
d = f"/verif/seeded/{P}-{k}"
os.makedirs(d)
S = f"{pre}{P}/SEEDED"
head = subprocess.run(["git", "-C", f"{pre}{P}", "rev-parse", "--short", "HEAD"], capture_output=True, text=True).stdout.strip() or "?"
shutil.copy(f"{S}/patch{N}.diff", f"{d}/patch.diff")
shutil.copy(f"{S}/demo{N}_test.go", f"{d}/demo_test.go.txt")
if os.path.exists(f"{S}/README.md"):
    shutil.copy(f"{S}/README.md", f"{d}/agent_README.md")
meta = {"id": f"{P}-{k}", "round": int(rnd), "breaks_property": P, "mechanism": mech, "needs_to_manifest": needs,
        "origin": f"round-{rnd} sub-agent given only the property text, the list of earlier mechanisms to avoid, and a scratch worktree of /repo at {head} (patch {N} of its SEEDED directory)",
        "confirmed": {"how": f"WTPREFIX={pre} tools/seed_verify.sh {P} {N} in the scratch worktree", "patch_applies": True, "go_build": "ok",
                      "existing_suite_with_patch": "all packages ok", "demonstration_with_patch": "FAIL", "demonstration_without_patch": "PASS"},
        "demonstration": "demo_test.go.txt (copy into the package directory named in its header as *_test.go)"}
json.dump(meta, open(f"{d}/meta.json", "w"), indent=1)
print(f"{P}-{k}")
