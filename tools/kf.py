#!/usr/bin/env python3
"""Maintain known_findings.json.
  tools/kf.py fixed <prop> <key> <commit> <what>
  tools/kf.py open  <prop> <key> <what>
"""
import json, sys
p = "/verif/known_findings.json"
d = json.load(open(p))
kind, prop, key = sys.argv[1:4]
d["findings"] = [f for f in d["findings"] if f["key"] != key]
if kind == "fixed":
    commit, what = sys.argv[4], sys.argv[5]
    d["findings"].append({"property": prop, "key": key, "status": "fixed", "commit": commit,
                          "what": "fixed: property=%s %s %s" % (prop, commit, what)})
else:
    d["findings"].append({"property": prop, "key": key, "status": "open", "what": sys.argv[4]})
json.dump(d, open(p, "w"), indent=1)
open(p, "a").write("\n")
