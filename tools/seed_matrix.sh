#!/bin/bash
# tools/seed_matrix.sh <seeded-id> <check> [<check>...]: apply /verif/seeded/<id>/patch.diff to /repo, run the checks (quick tier), revert.
id=$1; shift
cd /verif
if [ -n "$(git -C /repo status --porcelain)" ]; then echo "refusing: /repo dirty"; exit 2; fi
cp -r evidence /tmp/evbak.$$
git -C /repo apply /verif/seeded/$id/patch.diff || { echo "$id PATCH-DOES-NOT-APPLY"; rm -rf /tmp/evbak.$$; exit 1; }
for c in "$@"; do
  out=$(./check $c --tier quick 2>&1); rc=$?
  key=$(echo "$out" | grep -m1 "key=" | cut -c1-160)
  echo -e "$id\t$c\trc=$rc\t$key"
done
git -C /repo checkout -- . ; git -C /repo clean -fdq
rm -rf evidence; mv /tmp/evbak.$$ evidence
