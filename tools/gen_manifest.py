#!/usr/bin/env python3
"""Writes /verif/MANIFEST.json from tools/manifest_data.json (kept separately so the text stays reviewable)."""
import json, os
V = os.path.dirname(os.path.dirname(os.path.abspath(__file__)))
d = json.load(open(os.path.join(V, "tools", "manifest_data.json")))
checks = []
for c in d["checks"]:
    pid = c["property_id"]
    checks.append({
        "property_id": pid,
        "quick_cmd": "./check %s --tier quick" % pid,
        "thorough_cmd": "./check %s --tier thorough" % pid,
        "evidence_file": "/verif/evidence/%s.json" % pid,
        "replay_cmd_template": "./check %s --replay {path}" % pid,
        "engine": "props",
        "level_claimed": {"category": c["category"], "text": c["text"], "design_ref": c.get("design_ref", "DESIGN.md §2 " + pid)},
        "level_note": c["note"],
        "technique": c["technique"],
    })
na = list(d.get("not_applicable", []))
claimed = {c["property_id"] for c in d["checks"]}
for l in open(os.path.join(V, "properties.jsonl")):
    pid = json.loads(l)["id"]
    if pid not in claimed and pid not in {n["property_id"] for n in na}:
        na.append({"property_id": pid, "reason": "check not built yet at this commit (planned: DESIGN.md section 2 " + pid + "); the technique applies"})
m = {
    "version": 1,
    "setup_cmd": "cd /verif/harness && GOFLAGS=-mod=mod GOPROXY=off go vet ./ev >/dev/null 2>&1; cd /verif && mkdir -p .build && (cd harness && GOFLAGS=-mod=mod GOPROXY=off go test -tags verif -c -o /verif/.build/props.test ./props && GOFLAGS=-mod=mod GOPROXY=off go test -tags verif -race -c -o /verif/.build/props.race.test ./props)",
    "hooks": {
        "guard": "verif",
        "enable": "the harness test binary is built with `go test -tags verif` (see ./check build()); /verif/harness/go.mod replaces github.com/zitadel/saml with /repo, so every build compiles /repo's current tree including pkg/provider/verif_hooks.go (//go:build verif), which only adds Provider.VerifTemplates() used by C17",
        "baseline_off_cmd": "cd /repo && go test -vet=off -count=1 ./...",
        "source_commits": ["d63bad6"],
        "add_only": True,
    },
    "engines": [{
        "name": "props", "path": "/verif/harness/props",
        "serves_properties": [c["property_id"] for c in d["checks"]],
        "kind_free_text": "Go test binary: pgregory.net/rapid v1.3.0 properties (stateful where the property is over histories), exhaustive enumerators for finite domains, native go fuzz targets in thorough tiers; oracles in /verif/harness/{xt,obs,world,spsim}",
    }],
    "checks": checks,
    "not_applicable": na,
    "notes": d.get("notes", ""),
}
json.dump(m, open(os.path.join(V, "MANIFEST.json"), "w"), indent=1)
print("wrote MANIFEST.json with", len(checks), "checks")
