#!/bin/bash
# tools/seed_verify.sh <PROP> <N>   - confirm seeded change N of the sub-agent for property PROP in its scratch worktree:
#   patch applies, library builds, existing suite passes, demonstration fails with the patch and passes without it.
set -u
P=$1; N=$2; WT=${WTPREFIX:-/tmp/wt-}$P; S=$WT/SEEDED
export GOFLAGS=-mod=mod GOPROXY=off
cd $WT || exit 2
git checkout -q -- . ; git status --short | grep -v SEEDED
demo=$S/demo${N}_test.go
place=$(grep -m1 -i 'place in' $demo | grep -o 'pkg/[a-z_/]*' | head -1 | sed 's/\/$//')
[ -z "$place" ] && place=pkg/provider
name=zz_seeded_demo${N}_test.go
echo "== $P patch$N (demo goes to $place)"
git apply --check $S/patch$N.diff || { echo "PATCH DOES NOT APPLY"; exit 1; }
git apply $S/patch$N.diff
go build ./... 2>&1 | tail -3; echo "build rc=$?"
nfail=$(go test -vet=off -count=1 $(go list ./... 2>/dev/null | grep -v /SEEDED) 2>&1 | grep -v "no test files" | grep -vc "^ok"); echo "suite-with-patch non-ok-packages=$nfail"
cp $demo $place/$name
go test -vet=off -count=1 ./$place/ -tags seeded_c08_demo -run 'Demo|Seed|demo' 2>&1 | tail -4 | cut -c1-200; echo "demo-with-patch rc=${PIPESTATUS[0]}"
git checkout -q -- .
go test -vet=off -count=1 ./$place/ -tags seeded_c08_demo -run 'Demo|Seed|demo' 2>&1 | tail -2 | cut -c1-200; echo "demo-without-patch rc=${PIPESTATUS[0]}"
rm -f $place/$name
git status --short | grep -v SEEDED
