#!/usr/bin/env python3
"""Sensitivity helper: apply a textual mutation to /repo, run checks, always revert.

  tools/mut.py <file-in-repo> <old> <new> -- <ID> [<ID>...]     (first occurrence of <old> replaced)
  tools/mut.py --patch <patch.diff> -- <ID> [<ID>...]
Prints the exit code of each check (1 = caught). Refuses to run if /repo is dirty.
"""
import subprocess, sys, os
args = sys.argv[1:]
sep = args.index("--")
spec, ids = args[:sep], args[sep+1:]
tier = os.environ.get("MUT_TIER", "quick")
if subprocess.run(["git", "-C", "/repo", "status", "--porcelain"], capture_output=True, text=True).stdout.strip():
    print("refusing: /repo is dirty"); sys.exit(2)
import shutil, tempfile
_ev_backup = tempfile.mkdtemp(prefix="evbak")
shutil.copytree("/verif/evidence", _ev_backup + "/evidence")
try:
    if spec[0] == "--patch":
        r = subprocess.run(["git", "-C", "/repo", "apply", spec[1]])
        if r.returncode: sys.exit(2)
    else:
        path = os.path.join("/repo", spec[0])
        s = open(path).read()
        if spec[1] not in s:
            print("pattern not found"); sys.exit(2)
        open(path, "w").write(s.replace(spec[1], spec[2], 1))
    b = subprocess.run("cd /repo && go build ./... 2>&1 | tail -5", shell=True, capture_output=True, text=True)
    if b.stdout.strip():
        print("mutant does not build:\n" + b.stdout)
    else:
        for i in ids:
            r = subprocess.run(["/verif/check", i, "--tier", tier], capture_output=True, text=True)
            lines = [l for l in r.stdout.splitlines() if l.startswith(("VIOLATION", "  key=", "OK", "HARNESS"))]
            print("%s rc=%d %s" % (i, r.returncode, " | ".join(lines[:3])))
finally:
    subprocess.run(["git", "-C", "/repo", "checkout", "--", "."])
    subprocess.run(["git", "-C", "/repo", "clean", "-fdq"])
    # evidence written while a mutant was applied must not survive
    shutil.rmtree("/verif/evidence", ignore_errors=True)
    shutil.copytree(_ev_backup + "/evidence", "/verif/evidence")
    shutil.rmtree(_ev_backup, ignore_errors=True)
