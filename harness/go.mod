module verif/harness

go 1.23.7

require (
	github.com/beevik/etree v1.3.0
	github.com/muhlemmer/httpforwarded v0.1.0
	github.com/russellhaering/goxmldsig v1.4.0
	github.com/sirupsen/logrus v1.8.1
	github.com/zitadel/logging v0.5.0
	github.com/zitadel/saml v0.0.0
	golang.org/x/net v0.34.0
	pgregory.net/rapid v1.3.0
)

require (
	github.com/amdonov/xmlsig v0.1.0 // indirect
	github.com/felixge/httpsnoop v1.0.3 // indirect
	github.com/google/uuid v1.6.0 // indirect
	github.com/gorilla/handlers v1.5.2 // indirect
	github.com/gorilla/mux v1.8.1 // indirect
	github.com/jonboulle/clockwork v0.2.2 // indirect
	golang.org/x/exp v0.0.0-20230817173708-d852ddb80c63 // indirect
	golang.org/x/sys v0.29.0 // indirect
)

replace github.com/zitadel/saml => /repo
