// Package dsigref is the harness's reference implementation of the two SAML signature
// procedures: enveloped XML-DSig over an element (own canonicalisation from package xt,
// crypto/rsa for the primitive) and the HTTP-Redirect query-string signature. It is used both to
// sign what the simulated service provider sends and to verify what the IdP emits.
package dsigref

import (
	"crypto"
	"crypto/rand"
	"crypto/rsa"
	"crypto/sha1"
	"crypto/sha256"
	"crypto/sha512"
	"crypto/x509"
	"encoding/base64"
	"fmt"
	"hash"
	"net/url"
	"strings"

	"verif/harness/xt"
)

const (
	NSDS = "http://www.w3.org/2000/09/xmldsig#"

	AlgRSASHA1   = "http://www.w3.org/2000/09/xmldsig#rsa-sha1"
	AlgRSASHA256 = "http://www.w3.org/2001/04/xmldsig-more#rsa-sha256"
	AlgRSASHA512 = "http://www.w3.org/2001/04/xmldsig-more#rsa-sha512"

	DigSHA1   = "http://www.w3.org/2000/09/xmldsig#sha1"
	DigSHA256 = "http://www.w3.org/2001/04/xmlenc#sha256"
	DigSHA512 = "http://www.w3.org/2001/04/xmlenc#sha512"

	C14NExcl         = "http://www.w3.org/2001/10/xml-exc-c14n#"
	C14NExclComments = "http://www.w3.org/2001/10/xml-exc-c14n#WithComments"
	C14N10           = "http://www.w3.org/TR/2001/REC-xml-c14n-20010315"
	C14N11           = "http://www.w3.org/2006/12/xml-c14n11"
	TransformEnv     = "http://www.w3.org/2000/09/xmldsig#enveloped-signature"
)

func sigHash(alg string) (crypto.Hash, bool) {
	switch alg {
	case AlgRSASHA1:
		return crypto.SHA1, true
	case AlgRSASHA256:
		return crypto.SHA256, true
	case AlgRSASHA512:
		return crypto.SHA512, true
	}
	return 0, false
}

func digestHash(alg string) (func() hash.Hash, bool) {
	switch alg {
	case DigSHA1:
		return sha1.New, true
	case DigSHA256:
		return sha256.New, true
	case DigSHA512:
		return sha512.New, true
	}
	return nil, false
}

func c14nOpts(alg string, el *xt.Node) (xt.C14NOpts, bool) {
	o := xt.C14NOpts{}
	switch alg {
	case C14NExcl:
		o.Exclusive = true
	case C14NExclComments:
		o.Exclusive, o.WithComments = true, true
	case C14N10, C14N11:
	default:
		return o, false
	}
	if el != nil && o.Exclusive {
		for _, c := range el.Elems() {
			if c.Local == "InclusiveNamespaces" {
				o.InclusiveNS = strings.Fields(c.AttrV("PrefixList"))
			}
		}
	}
	return o, true
}

// Result of a verification.
type Result struct {
	OK     bool
	Reason string
	// Diagnosis
	DigestOK             bool
	SignatureOK          bool
	UnescapedDigestMatch bool // DigestValue equals the digest of the element canonicalised WITHOUT escaping
	SigAlg, DigestAlg    string
	ReferenceURI         string
	KeyInfoCertB64       string
	SignedInfoCanonical  string
	ReferencedCanonical  string
}

func clean(b64 string) string {
	return strings.Map(func(r rune) rune {
		if r == ' ' || r == '\n' || r == '\t' || r == '\r' {
			return -1
		}
		return r
	}, b64)
}

// VerifyEnveloped verifies sig (a ds:Signature child of signed) as an enveloped signature over signed.
func VerifyEnveloped(signed, sig *xt.Node, pub *rsa.PublicKey) *Result {
	res := &Result{}
	fail := func(f string, a ...any) *Result { res.Reason = fmt.Sprintf(f, a...); return res }
	if sig == nil || sig.Space != NSDS || sig.Local != "Signature" {
		return fail("no ds:Signature")
	}
	if sig.Parent != signed {
		return fail("signature is not a child of the signed element")
	}
	si := sig.Child(NSDS, "SignedInfo")
	if si == nil {
		return fail("no SignedInfo")
	}
	cm := si.Child(NSDS, "CanonicalizationMethod")
	sm := si.Child(NSDS, "SignatureMethod")
	if cm == nil || sm == nil {
		return fail("SignedInfo incomplete")
	}
	refs := si.ChildrenNamed(NSDS, "Reference")
	if len(refs) != 1 {
		return fail("%d references", len(refs))
	}
	ref := refs[0]
	res.ReferenceURI = ref.AttrV("URI")
	id := signed.AttrV("ID")
	if res.ReferenceURI != "" && res.ReferenceURI != "#"+id {
		return fail("Reference URI %q does not designate the enclosing element (ID %q)", res.ReferenceURI, id)
	}
	if res.ReferenceURI == "" && signed.Parent != nil {
		return fail("empty Reference URI on a non-root element")
	}
	// transforms
	refOpts := xt.C14NOpts{} // default: inclusive c14n 1.0
	env := false
	if tr := ref.Child(NSDS, "Transforms"); tr != nil {
		for _, t := range tr.ChildrenNamed(NSDS, "Transform") {
			alg := t.AttrV("Algorithm")
			if alg == TransformEnv {
				env = true
				continue
			}
			o, ok := c14nOpts(alg, t)
			if !ok {
				return fail("unsupported transform %q", alg)
			}
			refOpts = o
		}
	}
	if !env {
		return fail("no enveloped-signature transform")
	}
	refOpts.Skip = sig
	dm := ref.Child(NSDS, "DigestMethod")
	dv := ref.Child(NSDS, "DigestValue")
	if dm == nil || dv == nil {
		return fail("Reference incomplete")
	}
	res.DigestAlg = dm.AttrV("Algorithm")
	newHash, ok := digestHash(res.DigestAlg)
	if !ok {
		return fail("unsupported digest algorithm %q", res.DigestAlg)
	}
	want, err := base64.StdEncoding.DecodeString(clean(dv.Text()))
	if err != nil {
		return fail("DigestValue not base64")
	}
	canon := xt.Canonicalize(signed, refOpts)
	res.ReferencedCanonical = string(canon)
	h := newHash()
	h.Write(canon)
	got := h.Sum(nil)
	res.DigestOK = string(got) == string(want)
	if !res.DigestOK {
		bug := refOpts
		bug.UnescapedBug = true
		h2 := newHash()
		h2.Write(xt.Canonicalize(signed, bug))
		res.UnescapedDigestMatch = string(h2.Sum(nil)) == string(want)
	}
	// signature over SignedInfo
	res.SigAlg = sm.AttrV("Algorithm")
	hh, ok := sigHash(res.SigAlg)
	if !ok {
		return fail("unsupported signature algorithm %q", res.SigAlg)
	}
	siOpts, ok := c14nOpts(cm.AttrV("Algorithm"), cm)
	if !ok {
		return fail("unsupported canonicalisation %q", cm.AttrV("Algorithm"))
	}
	sv := sig.Child(NSDS, "SignatureValue")
	if sv == nil {
		return fail("no SignatureValue")
	}
	sigBytes, err := base64.StdEncoding.DecodeString(clean(sv.Text()))
	if err != nil {
		return fail("SignatureValue not base64")
	}
	siCanon := xt.Canonicalize(si, siOpts)
	res.SignedInfoCanonical = string(siCanon)
	hs := hh.New()
	hs.Write(siCanon)
	if ki := sig.Child(NSDS, "KeyInfo"); ki != nil {
		if c := ki.Path("X509Data", "X509Certificate"); c != nil {
			res.KeyInfoCertB64 = clean(c.Text())
		}
	}
	if pub == nil {
		return fail("no verification key")
	}
	res.SignatureOK = rsa.VerifyPKCS1v15(pub, hh, hs.Sum(nil), sigBytes) == nil
	switch {
	case !res.DigestOK:
		return fail("digest mismatch")
	case !res.SignatureOK:
		return fail("signature value does not verify")
	}
	res.OK = true
	return res
}

// SignOpts control how the simulated SP signs.
type SignOpts struct {
	SigAlg      string
	DigestAlg   string
	Prefix      string // prefix for ds elements: "ds", "dsig", "" (default namespace)
	KeyInfo     bool
	CertText    string // certificate text placed in KeyInfo (layout chosen by the caller)
	C14N        string // canonicalisation algorithm for SignedInfo and the reference
	InsertAfter string // local name of the child after which ds:Signature goes ("" = first child)
}

// SignEnveloped inserts an enveloped signature into root (which must carry an ID attribute).
func SignEnveloped(root *xt.Node, key *rsa.PrivateKey, o SignOpts) (*xt.Node, error) {
	if o.C14N == "" {
		o.C14N = C14NExcl
	}
	if o.DigestAlg == "" {
		o.DigestAlg = DigSHA256
	}
	hh, ok := sigHash(o.SigAlg)
	if !ok {
		return nil, fmt.Errorf("unsupported signature algorithm %q", o.SigAlg)
	}
	newHash, ok := digestHash(o.DigestAlg)
	if !ok {
		return nil, fmt.Errorf("unsupported digest %q", o.DigestAlg)
	}
	el := func(local string) *xt.Node { return xt.NewElem(o.Prefix, NSDS, local) }
	sig := el("Signature").Declare(o.Prefix, NSDS)
	si := el("SignedInfo")
	si.Add(el("CanonicalizationMethod").SetAttr("Algorithm", o.C14N))
	si.Add(el("SignatureMethod").SetAttr("Algorithm", o.SigAlg))
	ref := el("Reference").SetAttr("URI", "#"+root.AttrV("ID"))
	tr := el("Transforms")
	tr.Add(el("Transform").SetAttr("Algorithm", TransformEnv))
	tr.Add(el("Transform").SetAttr("Algorithm", o.C14N))
	ref.Add(tr)
	ref.Add(el("DigestMethod").SetAttr("Algorithm", o.DigestAlg))
	dv := el("DigestValue")
	ref.Add(dv)
	si.Add(ref)
	sig.Add(si)
	sv := el("SignatureValue")
	sig.Add(sv)
	if o.KeyInfo {
		ki := el("KeyInfo")
		ki.Add(el("X509Data").Add(el("X509Certificate").AddText(o.CertText)))
		sig.Add(ki)
	}
	// position: after the named child (SAML: after Issuer)
	pos := 0
	if o.InsertAfter != "" {
		for i, c := range root.Children {
			if c.Kind == xt.KindElem && c.Elem.Local == o.InsertAfter {
				pos = i + 1
			}
		}
	}
	root.InsertAt(pos, sig)
	opts, _ := c14nOpts(o.C14N, nil)
	opts.Skip = sig
	h := newHash()
	h.Write(xt.Canonicalize(root, opts))
	dv.AddText(base64.StdEncoding.EncodeToString(h.Sum(nil)))
	siOpts, _ := c14nOpts(o.C14N, nil)
	hs := hh.New()
	hs.Write(xt.Canonicalize(si, siOpts))
	sigBytes, err := rsa.SignPKCS1v15(rand.Reader, key, hh, hs.Sum(nil))
	if err != nil {
		return nil, err
	}
	sv.AddText(base64.StdEncoding.EncodeToString(sigBytes))
	return sig, nil
}

// PercentEncode encodes s for a query string in a chosen legal style.
//
//	upper: uppercase hex, space as %20? no: see flags
func PercentEncode(s string, lowerHex, plusForSpace, encodeAll bool) string {
	const up = "0123456789ABCDEF"
	const lo = "0123456789abcdef"
	hex := up
	if lowerHex {
		hex = lo
	}
	var b strings.Builder
	for i := 0; i < len(s); i++ {
		c := s[i]
		unreserved := (c >= 'A' && c <= 'Z') || (c >= 'a' && c <= 'z') || (c >= '0' && c <= '9') || c == '-' || c == '_' || c == '.' || c == '~'
		switch {
		case unreserved && !encodeAll:
			b.WriteByte(c)
		case c == ' ' && plusForSpace:
			b.WriteByte('+')
		default:
			b.WriteByte('%')
			b.WriteByte(hex[c>>4])
			b.WriteByte(hex[c&15])
		}
	}
	return b.String()
}

// SignRedirect produces the Signature parameter (base64, not yet percent-encoded) over the
// octet string built from the *already percent-encoded* parameter values, as the binding prescribes.
func SignRedirect(msgParam, encMsg, encRelay string, hasRelay bool, encSigAlg, sigAlg string, key *rsa.PrivateKey) (signedOctets string, sigB64 string, err error) {
	signedOctets = msgParam + "=" + encMsg
	if hasRelay {
		signedOctets += "&RelayState=" + encRelay
	}
	signedOctets += "&SigAlg=" + encSigAlg
	hh, ok := sigHash(sigAlg)
	if !ok {
		return "", "", fmt.Errorf("unsupported signature algorithm %q", sigAlg)
	}
	h := hh.New()
	h.Write([]byte(signedOctets))
	sig, err := rsa.SignPKCS1v15(rand.Reader, key, hh, h.Sum(nil))
	if err != nil {
		return "", "", err
	}
	return signedOctets, base64.StdEncoding.EncodeToString(sig), nil
}

// RedirectResult is the verdict on a redirect URL.
type RedirectResult struct {
	OK     bool
	Reason string
	SigAlg string
	Octets string
	HasSig bool
}

// VerifyRedirect verifies the query-string signature of a redirect URL the way a conformant SP
// does: from the raw query, keeping the sender's percent-encoding.
func VerifyRedirect(rawQuery, msgParam string, pub *rsa.PublicKey) *RedirectResult {
	return VerifyRedirectOpt(rawQuery, msgParam, pub, false)
}

// VerifyRedirectOpt with firstWins verifies over the first occurrence of each parameter instead
// of refusing repeated parameters (a receiver that consistently reads the first value is sound).
func VerifyRedirectOpt(rawQuery, msgParam string, pub *rsa.PublicKey, firstWins bool) *RedirectResult {
	res := &RedirectResult{}
	get := func(name string) (string, int) {
		n, v := 0, ""
		for _, part := range strings.Split(rawQuery, "&") {
			k, val, _ := strings.Cut(part, "=")
			if k == name {
				if n == 0 {
					v = val
				}
				n++
			}
		}
		return v, n
	}
	msg, nm := get(msgParam)
	rs, nrs := get("RelayState")
	alg, nalg := get("SigAlg")
	sig, nsig := get("Signature")
	res.HasSig = nsig > 0
	if firstWins {
		if nm > 1 {
			nm = 1
		}
		if nrs > 1 {
			nrs = 1
		}
		if nalg > 1 {
			nalg = 1
		}
		if nsig > 1 {
			nsig = 1
		}
	}
	if nm != 1 || nrs > 1 || nalg != 1 || nsig != 1 {
		res.Reason = fmt.Sprintf("parameter multiplicity: %s=%d RelayState=%d SigAlg=%d Signature=%d", msgParam, nm, nrs, nalg, nsig)
		return res
	}
	algURI, err := url.QueryUnescape(alg)
	if err != nil {
		res.Reason = "SigAlg not percent-decodable"
		return res
	}
	res.SigAlg = algURI
	hh, ok := sigHash(algURI)
	if !ok {
		res.Reason = fmt.Sprintf("SigAlg %q is not a known algorithm URI", algURI)
		return res
	}
	sigB64, err := url.QueryUnescape(sig)
	if err != nil {
		res.Reason = "Signature not percent-decodable"
		return res
	}
	sigBytes, err := base64.StdEncoding.DecodeString(sigB64)
	if err != nil {
		res.Reason = "Signature is not base64 after one percent-decoding"
		return res
	}
	oct := msgParam + "=" + msg
	if nrs == 1 {
		oct += "&RelayState=" + rs
	}
	oct += "&SigAlg=" + alg
	res.Octets = oct
	h := hh.New()
	h.Write([]byte(oct))
	if pub == nil {
		res.Reason = "no key"
		return res
	}
	if err := rsa.VerifyPKCS1v15(pub, hh, h.Sum(nil), sigBytes); err != nil {
		res.Reason = "signature does not verify over the transmitted octets"
		return res
	}
	res.OK = true
	return res
}

// CertPublicKey extracts the RSA key of a DER certificate given as base64 text.
func CertPublicKey(b64 string) (*rsa.PublicKey, error) {
	der, err := base64.StdEncoding.DecodeString(clean(b64))
	if err != nil {
		return nil, err
	}
	c, err := x509.ParseCertificate(der)
	if err != nil {
		return nil, err
	}
	pk, ok := c.PublicKey.(*rsa.PublicKey)
	if !ok {
		return nil, fmt.Errorf("not an RSA certificate")
	}
	return pk, nil
}

// VerifyRedirectValues verifies a redirect signature over the octets rebuilt from DECODED
// parameter values in the canonical escaping of url.QueryEscape (what a receiver gets when an
// intermediary re-encoded the query without changing any value). withRelay selects whether the
// RelayState parameter is part of the octets.
func VerifyRedirectValues(msgParam, msg, relay string, withRelay bool, sigAlg, sigB64 string, pub *rsa.PublicKey) bool {
	hh, ok := sigHash(sigAlg)
	if !ok || pub == nil {
		return false
	}
	sig, err := base64.StdEncoding.DecodeString(sigB64)
	if err != nil {
		return false
	}
	enc := func(s string) string { return PercentEncode(s, false, true, false) }
	oct := msgParam + "=" + enc(msg)
	if withRelay {
		oct += "&RelayState=" + enc(relay)
	}
	oct += "&SigAlg=" + enc(sigAlg)
	h := hh.New()
	h.Write([]byte(oct))
	return rsa.VerifyPKCS1v15(pub, hh, h.Sum(nil), sig) == nil
}
