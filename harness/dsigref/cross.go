package dsigref

import (
	"crypto/x509"
	"fmt"

	"github.com/beevik/etree"
	dsig "github.com/russellhaering/goxmldsig"
)

// VerifyWithGoxmldsig validates the enveloped signature of the element with the given ID using
// russellhaering/goxmldsig (which zitadel/saml does not use for *creating* XML signatures).
func VerifyWithGoxmldsig(xmlBytes []byte, id string, cert *x509.Certificate) error {
	doc := etree.NewDocument()
	if err := doc.ReadFromBytes(xmlBytes); err != nil {
		return fmt.Errorf("etree: %w", err)
	}
	if doc.Root() == nil {
		return fmt.Errorf("etree: no root")
	}
	var target *etree.Element
	var walk func(e *etree.Element)
	walk = func(e *etree.Element) {
		if target == nil && e.SelectAttrValue("ID", "") == id {
			target = e
		}
		for _, c := range e.ChildElements() {
			walk(c)
		}
	}
	walk(doc.Root())
	if target == nil {
		return fmt.Errorf("no element with ID %q", id)
	}
	ctx := dsig.NewDefaultValidationContext(&dsig.MemoryX509CertificateStore{Roots: []*x509.Certificate{cert}})
	ctx.IdAttribute = "ID"
	_, err := ctx.Validate(target)
	return err
}
