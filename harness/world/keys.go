// Package world is the reference model of everything around the IdP: keys, the storage
// (which is also the model of histories), service-provider metadata, users, and the provider
// configuration. Everything is described by JSON-serialisable specs so that a failing case can
// be written out and replayed.
package world

import (
	"crypto"
	"crypto/dsa"
	crand "crypto/rand"
	"crypto/rsa"
	"crypto/x509"
	"embed"
	"encoding/asn1"
	"encoding/base64"
	"encoding/pem"
	"fmt"
	"math/big"
	"strings"
	"sync"
	"time"
)

//go:embed keys/*.pem
var keyFS embed.FS

type KeyPair struct {
	Name    string
	CertDER []byte
	Cert    *x509.Certificate
	Signer  crypto.Signer
	RSA     *rsa.PrivateKey // nil for non-RSA keys
	DSA     *dsa.PrivateKey // only for sp-dsa (a hand-assembled certificate: crypto/x509 parses DSA keys but cannot issue for them)
	minted  time.Time       // certificates with a validity window relative to now ("name@from:to") are re-minted after 20 s
}

// mintWindow issues a fresh self-signed certificate for a static RSA key, valid from now+from to now+to seconds
// ("<key>@<from>:<to>", e.g. idp-response@-3600:120 = in its last two minutes), or with fixed dates in the past / future
// ("<key>@expired", "<key>@future"). The key stays the static one.
func mintWindow(base *KeyPair, name, window string) *KeyPair {
	var from, to int
	now := time.Now()
	minted := now
	var nb, na time.Time
	switch window {
	case "expired": // fixed dates: the same certificate in every run
		nb, na, minted = time.Date(2001, 1, 1, 0, 0, 0, 0, time.UTC), time.Date(2002, 1, 1, 0, 0, 0, 0, time.UTC), time.Time{}
	case "future":
		nb, na, minted = time.Date(2090, 1, 1, 0, 0, 0, 0, time.UTC), time.Date(2099, 1, 1, 0, 0, 0, 0, time.UTC), time.Time{}
	default:
		if _, err := fmt.Sscanf(window, "%d:%d", &from, &to); err != nil {
			panic(fmt.Sprintf("world: bad key window %q", name))
		}
		nb, na = now.Add(time.Duration(from)*time.Second), now.Add(time.Duration(to)*time.Second)
	}
	if base.RSA == nil {
		panic(fmt.Sprintf("world: key window on a non-RSA key %q", name))
	}
	tmpl := &x509.Certificate{SerialNumber: big.NewInt(int64(1000 + len(window))), Subject: base.Cert.Subject,
		NotBefore: nb, NotAfter: na,
		KeyUsage: x509.KeyUsageDigitalSignature, BasicConstraintsValid: true}
	der, err := x509.CreateCertificate(crand.Reader, tmpl, tmpl, &base.RSA.PublicKey, base.RSA)
	if err != nil {
		panic(err)
	}
	c, err := x509.ParseCertificate(der)
	if err != nil {
		panic(err)
	}
	return &KeyPair{Name: name, CertDER: der, Cert: c, Signer: base.Signer, RSA: base.RSA, minted: minted}
}

var (
	keyMu    sync.Mutex
	keyCache = map[string]*KeyPair{}
)

// RSAKeyNames are the RSA keys a simulated SP may register.
var RSAKeyNames = []string{"sp-a", "sp-b", "sp-c", "sp-2048"}

// Key loads a static test key by name.
func Key(name string) *KeyPair {
	keyMu.Lock()
	defer keyMu.Unlock()
	if k, ok := keyCache[name]; ok && (k.minted.IsZero() || time.Since(k.minted) < 20*time.Second) {
		return k
	}
	if base, window, ok := strings.Cut(name, "@"); ok {
		keyMu.Unlock()
		bk := Key(base)
		keyMu.Lock()
		k := mintWindow(bk, name, window)
		keyCache[name] = k
		return k
	}
	b, err := keyFS.ReadFile("keys/" + name + ".pem")
	if err != nil {
		panic(fmt.Sprintf("world: unknown key %q", name))
	}
	k := &KeyPair{Name: name}
	for {
		var blk *pem.Block
		blk, b = pem.Decode(b)
		if blk == nil {
			break
		}
		switch blk.Type {
		case "CERTIFICATE":
			k.CertDER = blk.Bytes
			k.Cert, err = x509.ParseCertificate(blk.Bytes)
			if err != nil {
				panic(err)
			}
		case "DSA PRIVATE KEY":
			var d struct {
				Version       int
				P, Q, G, Y, X *big.Int
			}
			if _, err := asn1.Unmarshal(blk.Bytes, &d); err != nil {
				panic(err)
			}
			k.DSA = &dsa.PrivateKey{PublicKey: dsa.PublicKey{Parameters: dsa.Parameters{P: d.P, Q: d.Q, G: d.G}, Y: d.Y}, X: d.X}
		case "PRIVATE KEY":
			pk, err := x509.ParsePKCS8PrivateKey(blk.Bytes)
			if err != nil {
				panic(err)
			}
			k.Signer = pk.(crypto.Signer)
			if r, ok := pk.(*rsa.PrivateKey); ok {
				k.RSA = r
			}
		}
	}
	keyCache[name] = k
	return k
}

// CertB64 returns the certificate as one base64 line.
func (k *KeyPair) CertB64() string { return base64.StdEncoding.EncodeToString(k.CertDER) }

// CertLayout renders the certificate text in one of the layouts seen in real metadata / KeyInfo.
func (k *KeyPair) CertLayout(layout string) string {
	b := k.CertB64()
	wrap := func(n int) string {
		var sb strings.Builder
		for i := 0; i < len(b); i += n {
			j := i + n
			if j > len(b) {
				j = len(b)
			}
			sb.WriteString(b[i:j])
			sb.WriteByte('\n')
		}
		return sb.String()
	}
	switch layout {
	case "wrapped64":
		return "\n" + wrap(64)
	case "wrapped76":
		return wrap(76)
	case "padded":
		return "  " + b + "\n"
	case "indented":
		// wrapped, continuation lines indented with blanks and tabs (what pretty printers produce)
		return "\n        " + strings.ReplaceAll(strings.TrimRight(wrap(64), "\n"), "\n", "\n\t    ") + "\n      "
	default:
		return b
	}
}
