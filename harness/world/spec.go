package world

import (
	"fmt"
	"strings"
	"time"

	"verif/harness/xt"
)

const (
	NSMD    = "urn:oasis:names:tc:SAML:2.0:metadata"
	NSDS    = "http://www.w3.org/2000/09/xmldsig#"
	NSSAML  = "urn:oasis:names:tc:SAML:2.0:assertion"
	NSSAMLP = "urn:oasis:names:tc:SAML:2.0:protocol"
	NSSOAP  = "http://schemas.xmlsoap.org/soap/envelope/"

	BindPost     = "urn:oasis:names:tc:SAML:2.0:bindings:HTTP-POST"
	BindRedirect = "urn:oasis:names:tc:SAML:2.0:bindings:HTTP-Redirect"
	BindArtifact = "urn:oasis:names:tc:SAML:2.0:bindings:HTTP-Artifact"
	BindPAOS     = "urn:oasis:names:tc:SAML:2.0:bindings:PAOS"
	BindSOAP     = "urn:oasis:names:tc:SAML:2.0:bindings:SOAP"
	BindOther    = "urn:example:bindings:other"

	AlgRSASHA1   = "http://www.w3.org/2000/09/xmldsig#rsa-sha1"
	AlgRSASHA256 = "http://www.w3.org/2001/04/xmldsig-more#rsa-sha256"
	AlgRSASHA512 = "http://www.w3.org/2001/04/xmldsig-more#rsa-sha512"

	StatusSuccess = "urn:oasis:names:tc:SAML:2.0:status:Success"
)

// Absent marks an optional XML attribute that is not written at all.
const Absent = "\x00absent"

type EndpointSpec struct {
	Path string `json:"path"`
	URL  string `json:"url,omitempty"`
}

type OrgSpec struct{ Name, DisplayName, URL string }
type ContactSpec struct{ ContactType, Company, GivenName, SurName, Email, Phone string }

// IdPConfig describes a provider configuration.
type IdPConfig struct {
	IssuerMode    string   `json:"issuer_mode"` // static | host | forwarded | custom
	Issuer        string   `json:"issuer,omitempty"`
	IssuerPath    string   `json:"issuer_path,omitempty"`
	CustomHeaders []string `json:"custom_headers,omitempty"`
	Insecure      bool     `json:"insecure,omitempty"`

	// endpoint name -> spec; names: metadata certificate callback sso slo attribute; absent = default
	Endpoints map[string]EndpointSpec `json:"endpoints,omitempty"`

	WantAuthRequestsSigned string `json:"want_authn_requests_signed,omitempty"`
	SignatureAlgorithm     string `json:"signature_algorithm"`
	MetadataSigAlg         string `json:"metadata_signature_algorithm,omitempty"`
	EncryptionAlgorithm    string `json:"encryption_algorithm,omitempty"`
	// InterceptorIssuer, when set: the provider is built with WithHttpInterceptors and the interceptor overrides the issuer in
	// the request context with this value (an application that resolves tenants itself); InterceptorNeutral: an interceptor
	// that only adds an unrelated context value and a response header
	InterceptorIssuer  string       `json:"interceptor_issuer,omitempty"`
	InterceptorNeutral bool         `json:"interceptor_neutral,omitempty"`
	// IDPInsecure sets IdentityProviderConfig.Insecure (a field no code of the library reads)
	IDPInsecure bool `json:"idp_config_insecure,omitempty"`
	Organisation       *OrgSpec     `json:"organisation,omitempty"`
	Contact            *ContactSpec `json:"contact,omitempty"`
	ValidUntilSec      int          `json:"valid_until_sec,omitempty"`
	CacheDuration      string       `json:"cache_duration,omitempty"`
	ErrorURL           string       `json:"error_url,omitempty"`
	TimeFormat         string       `json:"time_format,omitempty"`
}

// DefaultIdP is the plain configuration most checks start from.
func DefaultIdP() IdPConfig {
	return IdPConfig{IssuerMode: "static", Issuer: "https://idp.example/saml", SignatureAlgorithm: AlgRSASHA256}
}

type ACSSpec struct {
	Binding   string `json:"binding"`
	Location  string `json:"location"`
	Index     string `json:"index"`
	IsDefault string `json:"is_default"` // Absent = attribute not written
	// ResponseLocation, when set, is written as the optional attribute of that name (it has no meaning for consumer services)
	ResponseLocation string `json:"response_location,omitempty"`
}

type SLOSpec struct {
	Binding  string `json:"binding"`
	Location string `json:"location"`
	// ResponseLocation, when set, is written as the optional attribute of that name
	ResponseLocation string `json:"response_location,omitempty"`
}

// SPSpec describes a service provider registered through its metadata.
type SPSpec struct {
	AppID               string    `json:"app_id"`
	EntityID            string    `json:"entity_id"`
	AuthnRequestsSigned string    `json:"authn_requests_signed"` // Absent | false | 0 | true | 1
	KeyNames            []string  `json:"key_names,omitempty"`
	KeyUse              string    `json:"key_use,omitempty"`     // "" (attribute absent) | signing | encryption
	CertLayout          string    `json:"cert_layout,omitempty"` // plain | wrapped64 | wrapped76 | padded
	ACS                 []ACSSpec `json:"acs"`
	SLO                 []SLOSpec `json:"slo,omitempty"`
	// EncKeyFirst names a key whose certificate is published in a KeyDescriptor use="encryption" placed BEFORE the signing descriptors.
	EncKeyFirst string `json:"enc_key_first,omitempty"`
	RawMetadata string `json:"raw_metadata,omitempty"` // used verbatim when set
	LoginBase   string `json:"login_base,omitempty"`
	// WantAssertionsSigned: the SPSSODescriptor attribute ("" = absent | true | false | 1 | 0). What the provider wishes for
	// the SSO profile changes nothing about what the statements promise.
	WantAssertionsSigned string `json:"want_assertions_signed,omitempty"`
	// ValidUntil / CacheDuration: the optional attributes of the EntityDescriptor ("" = absent; ValidUntil "@past" / "@future" are
	// rendered relative to now, "role:" in front puts the attribute on the SPSSODescriptor instead). They tell a consumer of
	// metadata how long to keep a copy; what the storage holds as registered is registered.
	ValidUntil    string `json:"valid_until,omitempty"`
	CacheDuration string `json:"cache_duration,omitempty"`
}

type CustomAttr struct {
	Name         string   `json:"name"`
	FriendlyName string   `json:"friendly_name,omitempty"`
	NameFormat   string   `json:"name_format,omitempty"`
	Values       []string `json:"values"`
}

type UserSpec struct {
	UserID    string `json:"user_id"`
	LoginName string `json:"login_name"`

	Email      string       `json:"email,omitempty"`
	FullName   string       `json:"full_name,omitempty"`
	GivenName  string       `json:"given_name,omitempty"`
	Surname    string       `json:"surname,omitempty"`
	Username   string       `json:"username,omitempty"`
	UserIDAttr string       `json:"user_id_attr,omitempty"`
	Custom     []CustomAttr `json:"custom,omitempty"`
	// Overridden: the user store fills in defaults first and then overrides each of them with the user's own value (every
	// setter is called twice; the record is what the last call says).
	Overridden bool `json:"overridden,omitempty"`
}

// RequestSpec is a stored authentication request.
type RequestSpec struct {
	ID            string `json:"id"`
	AppID         string `json:"app_id"`
	RelayState    string `json:"relay_state"`
	ACS           string `json:"acs"`
	Binding       string `json:"binding"`
	AuthRequestID string `json:"auth_request_id"`
	Issuer        string `json:"issuer,omitempty"`
	Destination   string `json:"destination,omitempty"`
	UserID        string `json:"user_id,omitempty"`
	Done          bool   `json:"done"`
}

// Fault injects a failure into the n-th call (1-based; 0 = every call) of a storage operation.
type Fault struct {
	Op         string `json:"op"`
	Occurrence int    `json:"occurrence"`
	Kind       string `json:"kind"` // error | nil | nokey | nocert | emptycert
}

type Spec struct {
	IdP      IdPConfig         `json:"idp"`
	SPs      []SPSpec          `json:"sps"`
	Apps     map[string]string `json:"apps,omitempty"` // extra application id -> entity id
	Users    []UserSpec        `json:"users,omitempty"`
	Requests []RequestSpec     `json:"requests,omitempty"`
	Faults   []Fault           `json:"faults,omitempty"`
	// LenientLookup makes GetEntityByID match entity ids case-insensitively and ignoring
	// surrounding blanks and a trailing slash, like a storage backed by a case-insensitive
	// collation would: the IdP must then itself insist on Issuer == entityID.
	LenientLookup bool `json:"lenient_lookup,omitempty"`
	// KeysPerIssuer: the storage keeps one response-signing key per issuer (tenant) and picks it by the issuer in the context
	KeysPerIssuer bool `json:"keys_per_issuer,omitempty"`
	// RequireRequestScope (with IdP.InterceptorNeutral): the storage refuses every call whose context does not carry the value the
	// application's interceptor put into the request context (it resolves its tenant from it)
	RequireRequestScope bool `json:"require_request_scope,omitempty"`
	// Tenants: records that exist for one issuer only, by the host of that issuer. A storage that serves several tenants looks
	// service providers and users up under the issuer it finds in the context of the call: for a request made to a host listed
	// here only that tenant's service providers and users exist (the same entity ID / login name may exist under several
	// tenants, with different endpoints / data).
	Tenants map[string]TenantSpec `json:"tenants,omitempty"`
	// RequestIDPrefix: what the identifiers the storage issues for persisted requests start with ("" = "stored-"); identifiers
	// are the storage's business and may contain any character
	RequestIDPrefix string `json:"request_id_prefix,omitempty"`
}

// TenantSpec holds the records of one tenant of a multi-tenant storage (see Spec.Tenants).
type TenantSpec struct {
	SPs   []SPSpec   `json:"sps,omitempty"`
	Users []UserSpec `json:"users,omitempty"`
}

// MetadataXML renders the SP metadata through the harness's own writer.
func (sp SPSpec) MetadataXML() []byte {
	if sp.RawMetadata != "" {
		return []byte(sp.RawMetadata)
	}
	ed := xt.NewElem("md", NSMD, "EntityDescriptor").Declare("md", NSMD)
	ed.SetAttr("entityID", sp.EntityID)
	sso := xt.NewElem("md", NSMD, "SPSSODescriptor")
	if sp.ValidUntil != "" {
		v, onRole := strings.CutPrefix(sp.ValidUntil, "role:")
		switch v {
		case "@past":
			v = time.Now().Add(-48 * time.Hour).UTC().Format("2006-01-02T15:04:05Z")
		case "@future":
			v = time.Now().Add(48 * time.Hour).UTC().Format("2006-01-02T15:04:05Z")
		}
		if onRole {
			sso.SetAttr("validUntil", v)
		} else {
			ed.SetAttr("validUntil", v)
		}
	}
	if sp.CacheDuration != "" {
		ed.SetAttr("cacheDuration", sp.CacheDuration)
	}
	if sp.AuthnRequestsSigned != Absent {
		sso.SetAttr("AuthnRequestsSigned", sp.AuthnRequestsSigned)
	}
	if sp.WantAssertionsSigned != "" {
		sso.SetAttr("WantAssertionsSigned", sp.WantAssertionsSigned)
	}
	sso.SetAttr("protocolSupportEnumeration", NSSAMLP)
	ed.AddText("\n  ").Add(sso)
	if sp.EncKeyFirst != "" {
		kd := xt.NewElem("md", NSMD, "KeyDescriptor").SetAttr("use", "encryption")
		ki := xt.NewElem("ds", NSDS, "KeyInfo").Declare("ds", NSDS)
		kd.Add(ki.Add(xt.NewElem("ds", NSDS, "X509Data").Add(xt.NewElem("ds", NSDS, "X509Certificate").AddText(Key(sp.EncKeyFirst).CertB64()))))
		sso.AddText("\n    ").Add(kd)
	}
	for _, kn := range sp.KeyNames {
		kd := xt.NewElem("md", NSMD, "KeyDescriptor")
		if sp.KeyUse != "" {
			kd.SetAttr("use", sp.KeyUse)
		}
		ki := xt.NewElem("ds", NSDS, "KeyInfo").Declare("ds", NSDS)
		xd := xt.NewElem("ds", NSDS, "X509Data")
		xc := xt.NewElem("ds", NSDS, "X509Certificate").AddText(Key(kn).CertLayout(sp.CertLayout))
		kd.Add(ki.Add(xd.Add(xc)))
		sso.AddText("\n    ").Add(kd)
	}
	for _, s := range sp.SLO {
		e := xt.NewElem("md", NSMD, "SingleLogoutService")
		e.SetAttr("Binding", s.Binding).SetAttr("Location", s.Location)
		if s.ResponseLocation != "" {
			e.SetAttr("ResponseLocation", s.ResponseLocation)
		}
		sso.AddText("\n    ").Add(e)
	}
	for _, a := range sp.ACS {
		e := xt.NewElem("md", NSMD, "AssertionConsumerService")
		e.SetAttr("Binding", a.Binding).SetAttr("Location", a.Location).SetAttr("index", a.Index)
		if a.IsDefault != Absent {
			e.SetAttr("isDefault", a.IsDefault)
		}
		if a.ResponseLocation != "" {
			e.SetAttr("ResponseLocation", a.ResponseLocation)
		}
		sso.AddText("\n    ").Add(e)
	}
	sso.AddText("\n  ")
	ed.AddText("\n")
	return xt.Write(ed, xt.Style{Decl: "std", SelfClose: true})
}

// LoginURL is the URL storage tells the IdP to send the browser to.
func (sp SPSpec) LoginURL(id string) string {
	base := sp.LoginBase
	if base == "" {
		base = "https://login.example/ui/login"
	}
	return base + "?authRequestID=" + id
}

// RequiresSigned reports whether the SP metadata declares AuthnRequestsSigned in an xs:boolean true form.
func (sp SPSpec) RequiresSigned() bool {
	return sp.AuthnRequestsSigned == "true" || sp.AuthnRequestsSigned == "1"
}

func (c IdPConfig) WantsSigned() bool {
	return c.WantAuthRequestsSigned == "true" || c.WantAuthRequestsSigned == "1"
}

// EndpointPath returns the configured or default spec of an endpoint.
func (c IdPConfig) Endpoint(name string) EndpointSpec {
	if e, ok := c.Endpoints[name]; ok {
		return e
	}
	switch name {
	case "metadata":
		return EndpointSpec{Path: "/metadata"}
	case "certificate":
		return EndpointSpec{Path: "certificate"}
	case "callback":
		return EndpointSpec{Path: "login"}
	case "sso":
		return EndpointSpec{Path: "SSO"}
	case "slo":
		return EndpointSpec{Path: "SLO"}
	case "attribute":
		return EndpointSpec{Path: "attribute"}
	}
	panic("unknown endpoint " + name)
}

// Route is the path the router must serve for an endpoint ("/" + path without its leading slash).
func (c IdPConfig) Route(name string) string {
	return "/" + strings.TrimPrefix(c.Endpoint(name).Path, "/")
}

// ExpectedIssuer is the issuer string in effect for a request host (model of C19's derivation
// for well-formed configurations: static issuer, or scheme + host + path).
func (c IdPConfig) ExpectedIssuer(host string) string {
	if c.InterceptorIssuer != "" {
		return c.InterceptorIssuer // an application interceptor puts this issuer into the context of every request
	}
	if c.IssuerMode == "static" {
		return c.Issuer
	}
	scheme := "https"
	if c.Insecure {
		scheme = "http"
	}
	p := c.IssuerPath
	if p != "" && !strings.HasPrefix(p, "/") {
		p = "/" + p
	}
	return scheme + "://" + host + p
}

// Advertised is the absolute URL the metadata must advertise for an endpoint.
func (c IdPConfig) Advertised(name, host string) string {
	e := c.Endpoint(name)
	if e.URL != "" {
		return e.URL
	}
	return strings.TrimSuffix(c.ExpectedIssuer(host), "/") + "/" + strings.TrimPrefix(e.Path, "/")
}

// EntityID of the IdP for a request host.
func (c IdPConfig) EntityID(host string) string { return c.Advertised("metadata", host) }

func (f Fault) String() string { return fmt.Sprintf("%s#%d:%s", f.Op, f.Occurrence, f.Kind) }
