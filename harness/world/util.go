package world

import (
	"time"

	"github.com/zitadel/saml/pkg/provider/xml/md"
)

func secondsToDuration(s int) time.Duration { return time.Duration(s) * time.Second }

func mdContactType(s string) md.ContactTypeType { return md.ContactTypeType(s) }
