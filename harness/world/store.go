package world

import (
	"context"
	"crypto/rsa"
	"errors"
	"fmt"
	"net/http"
	"strings"
	"sync"

	"github.com/zitadel/saml/pkg/provider"
	"github.com/zitadel/saml/pkg/provider/key"
	"github.com/zitadel/saml/pkg/provider/models"
	"github.com/zitadel/saml/pkg/provider/serviceprovider"
	"github.com/zitadel/saml/pkg/provider/xml/samlp"
)

// Call is one logged storage invocation.
type Call struct {
	Op   string   `json:"op"`
	Args []string `json:"args,omitempty"`
	Err  string   `json:"err,omitempty"`
	// Faulted is set when an injected fault fired on this call.
	Faulted bool `json:"faulted,omitempty"`
	// Kind is the kind of the fault that fired (the last matching one when several were configured for the call).
	Kind string `json:"kind,omitempty"`
	// Req keeps the AuthnRequest handed to CreateAuthRequest.
	Req *samlp.AuthnRequestType `json:"-"`
}

// AuthRequest is the stored request record; it implements models.AuthRequestInt.
type AuthRequest struct {
	S RequestSpec
	// Seeded requests come from the spec; the others were created by the IdP through the SSO endpoint.
	Seeded bool
}

func (a *AuthRequest) GetID() string                       { return a.S.ID }
func (a *AuthRequest) GetApplicationID() string            { return a.S.AppID }
func (a *AuthRequest) GetRelayState() string               { return a.S.RelayState }
func (a *AuthRequest) GetAccessConsumerServiceURL() string { return a.S.ACS }
func (a *AuthRequest) GetBindingType() string              { return a.S.Binding }
func (a *AuthRequest) GetAuthRequestID() string            { return a.S.AuthRequestID }
func (a *AuthRequest) GetIssuer() string                   { return a.S.Issuer }
func (a *AuthRequest) GetDestination() string              { return a.S.Destination }
func (a *AuthRequest) GetUserID() string                   { return a.S.UserID }
func (a *AuthRequest) Done() bool                          { return a.S.Done }

var _ models.AuthRequestInt = (*AuthRequest)(nil)

// LiveRequest is what a storage hands out when it returns its own mutable record instead of a snapshot: every accessor
// reads the record as it is at that moment. A login completion (user attached, done set - one atomic event of the storage)
// lands when the handler makes its n-th Done()/GetUserID() call.
type LiveRequest struct {
	st       *Store
	id       string
	at       int
	user     string
	accesses int
	Fired    bool
}

func (l *LiveRequest) rec() RequestSpec {
	l.st.mu.Lock()
	defer l.st.mu.Unlock()
	if r, ok := l.st.requests[l.id]; ok {
		return r.S
	}
	return RequestSpec{}
}

// tick counts an access to one of the two fields a completion changes; the completion lands before the at-th of them.
func (l *LiveRequest) tick() {
	if !l.Fired && l.accesses == l.at {
		l.Fired = true
		l.st.CompleteLogin(l.id, l.user)
	}
	l.accesses++
}
func (l *LiveRequest) GetID() string                       { return l.rec().ID }
func (l *LiveRequest) GetApplicationID() string            { return l.rec().AppID }
func (l *LiveRequest) GetRelayState() string               { return l.rec().RelayState }
func (l *LiveRequest) GetAccessConsumerServiceURL() string { return l.rec().ACS }
func (l *LiveRequest) GetBindingType() string              { return l.rec().Binding }
func (l *LiveRequest) GetAuthRequestID() string            { return l.rec().AuthRequestID }
func (l *LiveRequest) GetIssuer() string                   { return l.rec().Issuer }
func (l *LiveRequest) GetDestination() string              { return l.rec().Destination }
func (l *LiveRequest) GetUserID() string                   { l.tick(); return l.rec().UserID }
func (l *LiveRequest) Done() bool                          { l.tick(); return l.rec().Done }

var _ models.AuthRequestInt = (*LiveRequest)(nil)

// ArmLive makes the next AuthRequestByID(id) hand out a live record whose login completion (by user) lands before the
// at-th access to Done()/GetUserID(); LiveFired reports whether it did.
func (s *Store) ArmLive(id string, at int, user string) {
	s.mu.Lock()
	s.live1 = &LiveRequest{st: s, id: id, at: at, user: user}
	s.mu.Unlock()
}
func (s *Store) LiveFired() bool {
	s.mu.Lock()
	defer s.mu.Unlock()
	f := s.live1 != nil && s.live1.Fired
	return f
}
func (s *Store) DisarmLive() { s.mu.Lock(); s.live1 = nil; s.mu.Unlock() }

var ErrInjected = errors.New("injected storage fault")

// timeoutErr is what a storage layer reports when its backend did not answer in time: it says so through Timeout(), like a
// net.Error, and unwraps to context.DeadlineExceeded.
type timeoutErr struct{}

func (timeoutErr) Error() string   { return "injected storage fault: i/o timeout" }
func (timeoutErr) Timeout() bool   { return true }
func (timeoutErr) Temporary() bool { return true }
func (timeoutErr) Unwrap() error   { return context.DeadlineExceeded }

// injected returns the error value of a fault kind: the plain sentinel, or for the kinds "timeout" / "canceled" errors of the
// shapes retry and fallback logic looks for (a failure is a failure whatever its shape).
func injected(kind string) error {
	switch kind {
	case "timeout":
		return fmt.Errorf("storage: %w", timeoutErr{})
	case "canceled":
		return fmt.Errorf("storage: %w", context.Canceled)
	case "notfound":
		return fmt.Errorf("storage: not found: %w", errNotFound)
	case "uncomparable":
		// an error whose dynamic type cannot be compared with == (a list of errors, as a cluster client reports them)
		return nodeErrors{ErrInjected, errNotFound}
	}
	return ErrInjected
}

type nodeErrors []error

func (e nodeErrors) Error() string { return fmt.Sprintf("storage: %d nodes failed: %v", len(e), e[0]) }
func (e nodeErrors) Unwrap() []error { return e }

var errNotFound = errors.New("no such record")

// Store is the model storage. All methods are safe for concurrent use.
type Store struct {
	mu         sync.Mutex
	sps        map[string]*serviceprovider.ServiceProvider // by entity id
	spSpecs    map[string]SPSpec                           // by entity id
	apps       map[string]string                           // app id -> entity id
	users      map[string]UserSpec                         // by user id
	byLogin    map[string]UserSpec
	requests   map[string]*AuthRequest
	order      []string
	nextID     int
	live1      *LiveRequest // armed live record (see LiveRequest)
	pinnedKeys map[string]*KeyPair
	IDPrefix   string

	// live: the storage's own in-memory user records (users / byLogin stay pristine: they are the model the oracles read)
	live        map[string]UserSpec
	liveByLogin map[string]UserSpec

	faults []Fault
	counts map[string]int
	Log    []Call

	// Before, when set, runs at the start of every storage operation, outside the store's lock: the scheduler of the
	// concurrency checks parks the calling request there. A non-empty result is the fault kind to inject into this very call.
	Before func(ctx context.Context, op string) string
	forced string

	// Fallback, when set, is returned for entity ids that are not registered (used by the
	// crash check to exercise a service provider built from arbitrary metadata).
	Fallback *serviceprovider.ServiceProvider
	Lenient  bool
	// ResponseKeyName names the key pair GetResponseSigningKey hands out ("" = idp-response); changing it models a key roll-over.
	ResponseKeyName string
	// KeysPerIssuer: the response-signing key depends on the issuer in the context of the call (see ResponseKeyFor)
	KeysPerIssuer bool
	// RequireRequestScope: every call must carry the context value the neutral interceptor sets (see Spec.RequireRequestScope)
	RequireRequestScope bool
	// tenants: records that exist under one issuer host only (see Spec.Tenants)
	tenantSPs   map[string]map[string]*serviceprovider.ServiceProvider
	tenantUsers map[string]map[string]UserSpec
}

// ResponseKeyFor is the key a storage with one signing key per issuer (tenant) hands out for the issuer found in the context of
// the call; a call whose context names no issuer gets a key no tenant uses.
func ResponseKeyFor(issuer string) string {
	if issuer == "" {
		return "rogue"
	}
	h := 0
	for i := 0; i < len(issuer); i++ {
		h = h*31 + int(issuer[i])
	}
	if h < 0 {
		h = -h
	}
	return []string{"idp-response", "sp-b", "sp-c"}[h%3]
}

// RotateResponseKey makes the storage hand out another response-signing key pair from now on.
func (s *Store) RotateResponseKey(name string) {
	s.mu.Lock()
	s.ResponseKeyName = name
	s.mu.Unlock()
}

func lenientKey(id string) string {
	return strings.TrimSuffix(strings.ToLower(strings.TrimSpace(id)), "/")
}

func newStore() *Store {
	return &Store{
		sps: map[string]*serviceprovider.ServiceProvider{}, spSpecs: map[string]SPSpec{}, apps: map[string]string{},
		users: map[string]UserSpec{}, byLogin: map[string]UserSpec{}, live: map[string]UserSpec{}, liveByLogin: map[string]UserSpec{}, requests: map[string]*AuthRequest{},
		counts: map[string]int{}, IDPrefix: "stored-",
	}
}

func (s *Store) before(ctx context.Context, op string) string {
	forced := ""
	if s.Before != nil {
		forced = s.Before(ctx, op)
	}
	if forced == "" && s.RequireRequestScope && ctx.Value(interceptorKey{}) == nil {
		// a storage that resolves its tenant from what the application's interceptor put into the request context: a call
		// that does not carry the request's context finds no tenant
		forced = "error"
	}
	return forced
}

// fault returns the kind of fault to inject for this call of op ("" = none) and logs the call.
func (s *Store) enter(op string, args ...string) (string, *Call) {
	s.counts[op]++
	n := s.counts[op]
	c := Call{Op: op, Args: args}
	kind := ""
	if s.forced != "" {
		kind, c.Faulted = s.forced, true
		s.forced = ""
	}
	for _, f := range s.faults {
		if f.Op == op && (f.Occurrence == 0 || f.Occurrence == n) {
			kind = f.Kind
			c.Faulted = true
		}
	}
	c.Kind = kind
	s.Log = append(s.Log, c)
	return kind, &s.Log[len(s.Log)-1]
}

func (s *Store) SetFaults(f []Fault) {
	s.mu.Lock()
	s.faults = append([]Fault(nil), f...)
	s.counts = map[string]int{}
	s.mu.Unlock()
}

// ResetLog clears the call log and the per-operation counters.
func (s *Store) ResetLog() {
	s.mu.Lock()
	s.Log = nil
	s.counts = map[string]int{}
	s.mu.Unlock()
}

// Calls returns a copy of the log.
func (s *Store) Calls() []Call {
	s.mu.Lock()
	defer s.mu.Unlock()
	return append([]Call(nil), s.Log...)
}

// CallsOf returns the logged calls of one operation.
func (s *Store) CallsOf(op string) []Call {
	var out []Call
	for _, c := range s.Calls() {
		if c.Op == op {
			out = append(out, c)
		}
	}
	return out
}

// Request returns a stored request (nil if absent).
func (s *Store) Request(id string) *AuthRequest {
	s.mu.Lock()
	defer s.mu.Unlock()
	return s.requests[id]
}

func (s *Store) RequestIDs() []string {
	s.mu.Lock()
	defer s.mu.Unlock()
	return append([]string(nil), s.order...)
}

// PutRequest seeds a stored request.
func (s *Store) PutRequest(r RequestSpec) {
	s.mu.Lock()
	defer s.mu.Unlock()
	if _, ok := s.requests[r.ID]; !ok {
		s.order = append(s.order, r.ID)
	}
	s.requests[r.ID] = &AuthRequest{S: r, Seeded: true}
}

// CompleteLogin marks a stored request as done for a user.
func (s *Store) CompleteLogin(id, userID string) bool {
	s.mu.Lock()
	defer s.mu.Unlock()
	r, ok := s.requests[id]
	if !ok {
		return false
	}
	r.S.Done = true
	r.S.UserID = userID
	return true
}

func (s *Store) SPSpecByEntity(entityID string) (SPSpec, bool) {
	s.mu.Lock()
	defer s.mu.Unlock()
	sp, ok := s.spSpecs[entityID]
	return sp, ok
}

func (s *Store) User(userID string) (UserSpec, bool) {
	s.mu.Lock()
	defer s.mu.Unlock()
	u, ok := s.users[userID]
	return u, ok
}

func (s *Store) UserByLogin(login string) (UserSpec, bool) {
	s.mu.Lock()
	defer s.mu.Unlock()
	u, ok := s.byLogin[login]
	return u, ok
}

// ReplaceSP re-registers a service provider: its metadata is rebuilt from the spec and replaces the stored instance.
func (s *Store) ReplaceSP(sp SPSpec) error {
	inst, err := serviceprovider.NewServiceProvider(sp.AppID, &serviceprovider.Config{Metadata: sp.MetadataXML()}, sp.LoginURL)
	if err != nil {
		return err
	}
	s.mu.Lock()
	defer s.mu.Unlock()
	s.sps[sp.EntityID] = inst
	s.spSpecs[sp.EntityID] = sp
	s.apps[sp.AppID] = sp.EntityID
	return nil
}

// RemoveSP deregisters a service provider: from now on the storage does not know the entity (lookups fail like for any
// other unknown entity id).
func (s *Store) RemoveSP(entityID string) {
	s.mu.Lock()
	defer s.mu.Unlock()
	if sp, ok := s.spSpecs[entityID]; ok {
		delete(s.apps, sp.AppID)
	}
	delete(s.sps, entityID)
	delete(s.spSpecs, entityID)
}

// SetApp registers application appID under entity (the application moved to another entity ID).
func (s *Store) SetApp(appID, entity string) {
	s.mu.Lock()
	defer s.mu.Unlock()
	s.apps[appID] = entity
}

// --- provider.Storage ---

func (s *Store) Health(ctx context.Context) error {
	forced := s.before(ctx, "Health")
	s.mu.Lock()
	defer s.mu.Unlock()
	s.forced = forced
	kind, c := s.enter("Health")
	if kind != "" {
		c.Err = ErrInjected.Error()
		return injected(kind)
	}
	return nil
}

func (s *Store) keyResult(op, name string) (*key.CertificateAndKey, error) {
	kind, c := s.enter(op)
	k := s.pinnedKeys[name]
	if k == nil {
		k = Key(name)
		if strings.Contains(name, "@") {
			// a certificate minted relative to now: one storage hands out one and the same certificate for a name
			if s.pinnedKeys == nil {
				s.pinnedKeys = map[string]*KeyPair{}
			}
			s.pinnedKeys[name] = k
		}
	}
	switch kind {
	case "":
		return &key.CertificateAndKey{Certificate: k.CertDER, Key: k.RSA}, nil
	case "error", "timeout", "canceled", "notfound", "uncomparable":
		c.Err = ErrInjected.Error()
		return nil, injected(kind)
	case "errval":
		// an error together with a usable value: callers must go by the error
		c.Err = ErrInjected.Error()
		return &key.CertificateAndKey{Certificate: k.CertDER, Key: k.RSA}, injected(kind)
	case "nil":
		return nil, nil
	case "nokey":
		return &key.CertificateAndKey{Certificate: k.CertDER}, nil
	case "nocert":
		return &key.CertificateAndKey{Key: k.RSA}, nil
	case "zerokey":
		// a key record that was allocated and never filled in: as missing as a nil one
		return &key.CertificateAndKey{Certificate: k.CertDER, Key: &rsa.PrivateKey{}}, nil
	case "emptycert":
		return &key.CertificateAndKey{Certificate: []byte{}, Key: k.RSA}, nil
	case "mismatch":
		// a well-formed certificate that belongs to another key: signing must fail, not be skipped
		return &key.CertificateAndKey{Certificate: Key("rogue").CertDER, Key: k.RSA}, nil
	case "garbagecert":
		return &key.CertificateAndKey{Certificate: []byte("not a certificate"), Key: k.RSA}, nil
	}
	panic("unknown fault kind " + kind)
}

func (s *Store) GetCA(ctx context.Context) (*key.CertificateAndKey, error) {
	forced := s.before(ctx, "GetCA")
	s.mu.Lock()
	defer s.mu.Unlock()
	s.forced = forced
	return s.keyResult("GetCA", "idp-metadata")
}

func (s *Store) GetMetadataSigningKey(ctx context.Context) (*key.CertificateAndKey, error) {
	forced := s.before(ctx, "GetMetadataSigningKey")
	s.mu.Lock()
	defer s.mu.Unlock()
	s.forced = forced
	return s.keyResult("GetMetadataSigningKey", "idp-metadata")
}

func (s *Store) GetResponseSigningKey(ctx context.Context) (*key.CertificateAndKey, error) {
	forced := s.before(ctx, "GetResponseSigningKey")
	s.mu.Lock()
	defer s.mu.Unlock()
	s.forced = forced
	name := s.ResponseKeyName
	if name == "" {
		name = "idp-response"
	}
	if s.KeysPerIssuer {
		name = ResponseKeyFor(provider.IssuerFromContext(ctx))
	}
	return s.keyResult("GetResponseSigningKey", name)
}

func (s *Store) GetEntityByID(ctx context.Context, entityID string) (*serviceprovider.ServiceProvider, error) {
	forced := s.before(ctx, "GetEntityByID")
	s.mu.Lock()
	defer s.mu.Unlock()
	s.forced = forced
	kind, c := s.enter("GetEntityByID", entityID)
	if kind == "errval" {
		c.Err = ErrInjected.Error()
		return s.sps[entityID], injected(kind)
	}
	if kind != "" {
		c.Err = ErrInjected.Error()
		return nil, injected(kind)
	}
	sp, ok := s.sps[entityID]
	if t, tenant := s.tenantSPs[tenantOf(ctx)]; tenant {
		// a request of that tenant: only the tenant's own registrations exist
		sp, ok = t[entityID]
	}
	if !ok && s.Lenient {
		for id, cand := range s.sps {
			if lenientKey(id) == lenientKey(entityID) {
				sp, ok = cand, true
			}
		}
	}
	if !ok && s.Fallback != nil {
		return s.Fallback, nil
	}
	if !ok {
		c.Err = "not found"
		return nil, fmt.Errorf("service provider %s not registered", entityID)
	}
	return sp, nil
}

func (s *Store) GetEntityIDByAppID(ctx context.Context, appID string) (string, error) {
	forced := s.before(ctx, "GetEntityIDByAppID")
	s.mu.Lock()
	defer s.mu.Unlock()
	s.forced = forced
	kind, c := s.enter("GetEntityIDByAppID", appID)
	if kind == "errval" {
		c.Err = ErrInjected.Error()
		return s.apps[appID], injected(kind)
	}
	if kind != "" {
		c.Err = ErrInjected.Error()
		return "", injected(kind)
	}
	e, ok := s.apps[appID]
	if !ok {
		c.Err = "not found"
		return "", fmt.Errorf("application %s unknown", appID)
	}
	return e, nil
}

func (s *Store) CreateAuthRequest(ctx context.Context, req *samlp.AuthnRequestType, acs, binding, relayState, appID string) (models.AuthRequestInt, error) {
	forced := s.before(ctx, "CreateAuthRequest")
	s.mu.Lock()
	defer s.mu.Unlock()
	s.forced = forced
	kind, c := s.enter("CreateAuthRequest", acs, binding, relayState, appID)
	c.Req = req
	if kind != "" {
		c.Err = ErrInjected.Error()
		return nil, injected(kind)
	}
	s.nextID++
	id := fmt.Sprintf("%s%d", s.IDPrefix, s.nextID)
	r := &AuthRequest{S: RequestSpec{ID: id, AppID: appID, RelayState: relayState, ACS: acs, Binding: binding}}
	if req != nil {
		r.S.AuthRequestID = req.Id
		r.S.Destination = req.Destination
		if req.Issuer != nil {
			r.S.Issuer = req.Issuer.Text
		}
	}
	s.requests[id] = r
	s.order = append(s.order, id)
	c.Args = append(c.Args, id)
	return r, nil
}

func (s *Store) AuthRequestByID(ctx context.Context, id string) (models.AuthRequestInt, error) {
	forced := s.before(ctx, "AuthRequestByID")
	s.mu.Lock()
	defer s.mu.Unlock()
	s.forced = forced
	kind, c := s.enter("AuthRequestByID", id)
	if kind == "errval" {
		c.Err = ErrInjected.Error()
		if r, ok := s.requests[id]; ok {
			cp := *r
			return &cp, injected(kind)
		}
		return nil, injected(kind)
	}
	if kind == "typednil" {
		// the idiom "rec, err := load(id); return rec, err": the error comes with a nil pointer of the record's type, which is
		// not a nil interface value
		c.Err = ErrInjected.Error()
		return (*AuthRequest)(nil), injected(kind)
	}
	if kind != "" {
		c.Err = ErrInjected.Error()
		return nil, injected(kind)
	}
	r, ok := s.requests[id]
	if !ok {
		c.Err = "not found"
		return nil, fmt.Errorf("auth request not found")
	}
	if s.live1 != nil && s.live1.id == id {
		return s.live1, nil
	}
	// hand out a snapshot: the handler must see one consistent state
	cp := *r
	return &cp, nil
}

// applyStale writes what is NOT the named user's record into the setter: another user's standard attributes (when there is
// another user) and an attribute nobody has any more.
func (s *Store) applyStale(not string, set models.AttributeSetter) {
	for id, u := range s.live {
		if id != not && u.LoginName != not {
			u.Custom = nil
			applyUser(u, set)
			break
		}
	}
	set.SetCustomAttribute("revoked-role", "", "urn:oasis:names:tc:SAML:2.0:attrname-format:basic", []string{"stale-marker-admin"})
}

func applyUser(u UserSpec, set models.AttributeSetter) {
	if u.Overridden {
		// defaults first: one for every field the record goes on to set itself
		d := UserSpec{}
		def := func(v string) string {
			if v != "" {
				return "default-stale-marker"
			}
			return ""
		}
		d.Email, d.FullName, d.GivenName, d.Surname, d.Username, d.UserIDAttr = def(u.Email), def(u.FullName), def(u.GivenName), def(u.Surname), def(u.Username), def(u.UserIDAttr)
		for _, c := range u.Custom {
			d.Custom = append(d.Custom, CustomAttr{Name: c.Name, FriendlyName: "default", NameFormat: c.NameFormat, Values: []string{"default-stale-marker"}})
		}
		applyUser(d, set)
	}
	if u.Email != "" {
		set.SetEmail(u.Email)
	}
	if u.FullName != "" {
		set.SetFullName(u.FullName)
	}
	if u.GivenName != "" {
		set.SetGivenName(u.GivenName)
	}
	if u.Surname != "" {
		set.SetSurname(u.Surname)
	}
	if u.Username != "" {
		set.SetUsername(u.Username)
	}
	if u.UserIDAttr != "" {
		set.SetUserID(u.UserIDAttr)
	}
	for _, c := range u.Custom {
		set.SetCustomAttribute(c.Name, c.FriendlyName, c.NameFormat, c.Values) // the slice itself, not a copy
	}
}

func (s *Store) SetUserinfoWithUserID(ctx context.Context, appID string, set models.AttributeSetter, userID string, _ []int) error {
	forced := s.before(ctx, "SetUserinfoWithUserID")
	s.mu.Lock()
	defer s.mu.Unlock()
	s.forced = forced
	kind, c := s.enter("SetUserinfoWithUserID", appID, userID)
	if kind == "stale" {
		// a stale replica answers with somebody else's row and a revoked attribute, then the read fails
		c.Err = ErrInjected.Error()
		s.applyStale(userID, set)
		return injected(kind)
	}
	if kind == "partial" || kind == "errval" {
		// the lookup fills the setter and then fails (a storage that streams attributes and loses its connection)
		c.Err = ErrInjected.Error()
		if u, ok := s.live[userID]; ok {
			if kind == "partial" {
				// the connection is lost half way: only the first attributes arrive
				u.Email, u.FullName, u.UserIDAttr = "", "", ""
				if len(u.Custom) > 0 {
					u.Custom = u.Custom[:len(u.Custom)/2]
				}
			}
			applyUser(u, set)
		}
		return injected(kind)
	}
	if kind != "" {
		c.Err = ErrInjected.Error()
		return injected(kind)
	}
	u, ok := s.live[userID]
	if t, tenant := s.tenantUsers[tenantOf(ctx)]; tenant {
		ok = false
		for _, cand := range t {
			if cand.UserID == userID {
				u, ok = cand, true
			}
		}
	}
	if !ok {
		c.Err = "not found"
		return fmt.Errorf("user not found")
	}
	applyUser(u, set)
	return nil
}

func (s *Store) SetUserinfoWithLoginName(ctx context.Context, set models.AttributeSetter, loginName string, _ []int) error {
	forced := s.before(ctx, "SetUserinfoWithLoginName")
	s.mu.Lock()
	defer s.mu.Unlock()
	s.forced = forced
	kind, c := s.enter("SetUserinfoWithLoginName", loginName)
	if kind == "stale" {
		c.Err = ErrInjected.Error()
		s.applyStale(loginName, set)
		return injected(kind)
	}
	if kind == "partial" || kind == "errval" {
		c.Err = ErrInjected.Error()
		if u, ok := s.liveByLogin[loginName]; ok {
			if kind == "partial" {
				u.Email, u.FullName, u.UserIDAttr = "", "", ""
				if len(u.Custom) > 0 {
					u.Custom = u.Custom[:len(u.Custom)/2]
				}
			}
			applyUser(u, set)
		}
		return injected(kind)
	}
	if kind != "" {
		c.Err = ErrInjected.Error()
		return injected(kind)
	}
	u, ok := s.liveByLogin[loginName]
	if t, tenant := s.tenantUsers[tenantOf(ctx)]; tenant {
		u, ok = t[loginName]
	}
	if !ok {
		c.Err = "not found"
		return fmt.Errorf("user not found")
	}
	applyUser(u, set)
	return nil
}

// tenantOf is the host of the issuer in the context of a storage call.
func tenantOf(ctx context.Context) string {
	iss := provider.IssuerFromContext(ctx)
	if _, rest, ok := strings.Cut(iss, "://"); ok {
		host, _, _ := strings.Cut(rest, "/")
		return host
	}
	return iss
}

var _ provider.Storage = (*Store)(nil)

// World is a built provider with its model storage.
type World struct {
	Spec     Spec
	Store    *Store
	Provider *provider.Provider
	Handler  http.Handler
	// SPErrors records service providers whose metadata was refused by NewServiceProvider.
	SPErrors map[string]string
}

func endpoint(e EndpointSpec) *provider.Endpoint {
	var ep provider.Endpoint
	if e.URL != "" {
		ep = provider.NewEndpointWithURL(e.Path, e.URL)
	} else {
		ep = provider.NewEndpoint(e.Path)
	}
	return &ep
}

// ProviderConfig translates an IdPConfig into the library's configuration.
func ProviderConfig(c IdPConfig) (*provider.Config, func(bool) (provider.IssuerFromRequest, error), []provider.Option) {
	idp := &provider.IdentityProviderConfig{
		Insecure: c.IDPInsecure,
		SignatureAlgorithm:     c.SignatureAlgorithm,
		EncryptionAlgorithm:    c.EncryptionAlgorithm,
		WantAuthRequestsSigned: c.WantAuthRequestsSigned,
		MetadataIDPConfig:      &provider.MetadataIDPConfig{CacheDuration: c.CacheDuration, ErrorURL: c.ErrorURL},
	}
	if c.ValidUntilSec != 0 {
		idp.MetadataIDPConfig.ValidUntil = secondsToDuration(c.ValidUntilSec)
	}
	ec := &provider.EndpointConfig{}
	any := false
	for name, e := range c.Endpoints {
		switch name {
		case "certificate":
			ec.Certificate, any = endpoint(e), true
		case "callback":
			ec.Callback, any = endpoint(e), true
		case "sso":
			ec.SingleSignOn, any = endpoint(e), true
		case "slo":
			ec.SingleLogOut, any = endpoint(e), true
		case "attribute":
			ec.Attribute, any = endpoint(e), true
		}
	}
	if any {
		idp.Endpoints = ec
	}
	conf := &provider.Config{IDPConfig: idp}
	if e, ok := c.Endpoints["metadata"]; ok {
		conf.Metadata = endpoint(e)
	}
	if c.MetadataSigAlg != "" {
		conf.MetadataConfig = &provider.MetadataConfig{SignatureAlgorithm: c.MetadataSigAlg}
	}
	if c.Organisation != nil {
		conf.Organisation = &provider.Organisation{Name: c.Organisation.Name, DisplayName: c.Organisation.DisplayName, URL: c.Organisation.URL}
	}
	if c.Contact != nil {
		conf.ContactPerson = &provider.ContactPerson{
			ContactType: mdContactType(c.Contact.ContactType), Company: c.Contact.Company, GivenName: c.Contact.GivenName,
			SurName: c.Contact.SurName, EmailAddress: c.Contact.Email, TelephoneNumber: c.Contact.Phone,
		}
	}
	var issuer func(bool) (provider.IssuerFromRequest, error)
	switch c.IssuerMode {
	case "host":
		issuer = provider.IssuerFromHost(c.IssuerPath)
	case "forwarded":
		issuer = provider.IssuerFromForwardedOrHost(c.IssuerPath)
	case "custom":
		issuer = provider.IssuerFromForwardedOrHost(c.IssuerPath, provider.WithIssuerFromCustomHeaders(append([]string(nil), c.CustomHeaders...)...))
	default:
		issuer = provider.StaticIssuer(c.Issuer)
	}
	var opts []provider.Option
	if c.Insecure {
		opts = append(opts, provider.WithAllowInsecure())
	}
	if c.TimeFormat != "" {
		opts = append(opts, provider.WithCustomTimeFormat(c.TimeFormat))
	}
	var interceptors []provider.HttpInterceptor
	if c.InterceptorNeutral {
		interceptors = append(interceptors, func(next http.Handler) http.Handler {
			return http.HandlerFunc(func(w http.ResponseWriter, r *http.Request) {
				w.Header().Set("X-Interceptor", "seen")
				next.ServeHTTP(w, r.WithContext(context.WithValue(r.Context(), interceptorKey{}, "tenant-of-"+r.Host)))
			})
		})
	}
	if c.InterceptorIssuer != "" {
		issuer := c.InterceptorIssuer
		interceptors = append(interceptors, func(next http.Handler) http.Handler {
			return http.HandlerFunc(func(w http.ResponseWriter, r *http.Request) {
				next.ServeHTTP(w, r.WithContext(provider.ContextWithIssuer(r.Context(), issuer)))
			})
		})
	}
	if len(interceptors) > 0 {
		opts = append(opts, provider.WithHttpInterceptors(interceptors...))
	}
	return conf, issuer, opts
}

type interceptorKey struct{}

// Build constructs the provider and the storage from a spec.
func Build(spec Spec) (*World, error) {
	st := newStore()
	w := &World{Spec: spec, Store: st, SPErrors: map[string]string{}}
	for _, sp := range spec.SPs {
		sp := sp
		var inst *serviceprovider.ServiceProvider
		var err error
		func() {
			defer func() {
				if r := recover(); r != nil {
					err = fmt.Errorf("panic in NewServiceProvider: %v", r)
				}
			}()
			inst, err = serviceprovider.NewServiceProvider(sp.AppID, &serviceprovider.Config{Metadata: sp.MetadataXML()}, sp.LoginURL)
		}()
		if err != nil {
			w.SPErrors[sp.EntityID] = err.Error()
			continue
		}
		st.sps[sp.EntityID] = inst
		st.spSpecs[sp.EntityID] = sp
		st.apps[sp.AppID] = sp.EntityID
	}
	for a, e := range spec.Apps {
		st.apps[a] = e
	}
	for _, u := range spec.Users {
		st.users[u.UserID] = u
		st.byLogin[u.LoginName] = u
		// the records the storage works with: its own memory, handed to the IdP as it is (like a cache of rows would be)
		l := u
		l.Custom = nil
		for _, c := range u.Custom {
			c.Values = append([]string(nil), c.Values...)
			l.Custom = append(l.Custom, c)
		}
		st.live[u.UserID] = l
		st.liveByLogin[u.LoginName] = l
	}
	for _, r := range spec.Requests {
		st.requests[r.ID] = &AuthRequest{S: r, Seeded: true}
		st.order = append(st.order, r.ID)
	}
	for host, t := range spec.Tenants {
		if st.tenantSPs == nil {
			st.tenantSPs, st.tenantUsers = map[string]map[string]*serviceprovider.ServiceProvider{}, map[string]map[string]UserSpec{}
		}
		st.tenantSPs[host], st.tenantUsers[host] = map[string]*serviceprovider.ServiceProvider{}, map[string]UserSpec{}
		for _, sp := range t.SPs {
			inst, err := serviceprovider.NewServiceProvider(sp.AppID, &serviceprovider.Config{Metadata: sp.MetadataXML()}, sp.LoginURL)
			if err != nil {
				return nil, fmt.Errorf("tenant %s: %w", host, err)
			}
			st.tenantSPs[host][sp.EntityID] = inst
		}
		for _, u := range t.Users {
			st.tenantUsers[host][u.LoginName] = u
		}
	}
	st.faults = append([]Fault(nil), spec.Faults...)
	st.Lenient = spec.LenientLookup
	st.KeysPerIssuer = spec.KeysPerIssuer
	st.RequireRequestScope = spec.RequireRequestScope && spec.IdP.InterceptorNeutral
	if spec.RequestIDPrefix != "" {
		st.IDPrefix = spec.RequestIDPrefix
	}
	conf, issuer, opts := ProviderConfig(spec.IdP)
	p, err := provider.NewProvider(st, issuer, conf, opts...)
	if err != nil {
		return nil, err
	}
	w.Provider = p
	w.Handler = p.HttpHandler()
	return w, nil
}
