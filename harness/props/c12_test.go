package props

// C12 — Attribute queries disclose only requested data, to registered requesters.

import (
	"bytes"
	"fmt"
	"sort"
	"strings"
	"testing"
	"time"

	"pgregory.net/rapid"

	"verif/harness/dsigref"
	"verif/harness/ev"
	"verif/harness/obs"
	"verif/harness/spsim"
	"verif/harness/world"
	"verif/harness/xt"
)

const c12Rule = "rapid: SOAP AttributeQuery messages - Issuer registered / unregistered / absent / look-alike; subject a known or unknown login name (or absent); 0..4 requested attributes with matching / non-matching / duplicate (Name, NameFormat) pairs incl. absent NameFormat; Destination absent / the advertised attribute-service location / the SSO location / the SLO location / a foreign URL (written as plain or namespace-qualified attribute); unsigned, validly signed by the registered key, signed by an unregistered key (with its own or the registered certificate in KeyInfo), or signed and then edited - against user records with any subset of the standard attributes and 0..3 custom attributes of arbitrary names, formats and value lists, and IdP issuer / attribute-endpoint configurations. Oracle: a reply that discloses user data (Success + assertion with subject or attributes) implies a registered Issuer, every carried signature value verifying under the registered certificate, and a Destination that is absent or equal to the advertised attribute-service location; then NameID / attributes are those of the user the model storage resolves for the subject text handed to storage, InResponseTo = query ID, single Audience = requester entity ID, attribute set = user attributes whose (Name, NameFormat) is requested (all when none requested), and the assertion's signature verifies under the published certificate. Non-trivial: a guard condition is violated, or the filter has at least one matching and one non-matching entry. Distinct by (guard vector, filter shape, signing mode)."

type C12Case struct {
	Spec     world.Spec      `json:"spec"`
	Host     string          `json:"host"`
	Query    spsim.AttrQuery `json:"query"`
	Style    spsim.XMLStyle  `json:"style"`
	SignMode string          `json:"sign_mode"` // none | valid | rogue | rogue-registered-cert | edited | empty-value
	// GenuineFirst: the query as its requester signed it is presented first (and answered or not), then the case's query arrives
	// at the same provider: what verified a moment ago lends nothing to a message that bears the same signature element
	GenuineFirst bool `json:"genuine_presented_first,omitempty"`
	HoistNS  bool            `json:"namespaces_on_envelope,omitempty"` // the query's prefixes are declared on the SOAP envelope
	DestKind string          `json:"dest_kind"`
	Soap     string          `json:"soap_prefix"`
	Noise    bool            `json:"noise,omitempty"`
	// Hist: the service provider named by the query's Issuer used the IdP before and was then deregistered, or re-registered
	// with another certificate (the rogue key's at first).
	Hist *History `json:"history,omitempty"`
	// SignFault: signing the answer cannot work ("mismatch": the storage hands out a certificate of another key; "sha512": the
	// configured algorithm is one the assertion signer does not implement): no user data may leave then
	SignFault string `json:"sign_fault,omitempty"`
	// StaleFirstRead: the first user lookup of the request is answered by a stale replica (another user's row, a revoked
	// attribute) and fails; a second lookup - should the IdP make one - succeeds
	StaleFirstRead bool `json:"stale_first_read,omitempty"`
}

func genC12Case(t *rapid.T) C12Case {
	idp := genIdPConfig(t, worldOpts{issuerModes: []string{"static", "static", "host"}})
	switch rapid.IntRange(0, 3).Draw(t, "attrendpoint") {
	case 1:
		idp.Endpoints = map[string]world.EndpointSpec{"attribute": {Path: "attr/query"}}
	case 2:
		idp.Endpoints = map[string]world.EndpointSpec{"attribute": {Path: "aq", URL: "https://gateway.example/aq"}}
	}
	c04Tame = rapid.IntRange(0, 3).Draw(t, "tame") != 0
	defer func() { c04Tame = false }()
	u0, u1 := genSpecialUser(t, 0), genSpecialUser(t, 1)
	if std := expectedAttrs(world.UserSpec{Email: u0.Email, Surname: u0.Surname, GivenName: u0.GivenName, FullName: u0.FullName, Username: u0.Username, UserIDAttr: u0.UserIDAttr}); len(std) > 0 && rapid.IntRange(0, 4).Draw(t, "twin-attr") == 0 {
		// a custom attribute that shares Name and NameFormat with one of the user's standard attributes: two attributes match
		// one requested (Name, NameFormat) pair, both are the user's
		a := std[rapid.IntRange(0, len(std)-1).Draw(t, "twin-of")]
		twin := world.CustomAttr{Name: a.Name, NameFormat: a.NameFormat, FriendlyName: "twin", Values: []string{"twin-value-1", "twin-value-2"}}
		kept := u0.Custom[:0:0]
		for _, c := range u0.Custom {
			if c.Name != a.Name {
				kept = append(kept, c)
			}
		}
		u0.Custom = append(kept, twin)
	}
	if rapid.Bool().Draw(t, "urnattr") {
		u0.Custom = append(u0.Custom, world.CustomAttr{Name: "urn:oid:2.5.4.20", FriendlyName: "telephoneNumber", NameFormat: "urn:oasis:names:tc:SAML:2.0:attrname-format:uri", Values: []string{"+41 00 000 00 00"}})
	}
	spB := stdSP(1)
	if rapid.Bool().Draw(t, "spwithoutkey") {
		spB.KeyNames = nil
	}
	sp0 := stdSP(0)
	sp0.WantAssertionsSigned = rapid.SampledFrom([]string{"", "", "true", "false", "0", "1"}).Draw(t, "wantassertionssigned0")
	spB.WantAssertionsSigned = rapid.SampledFrom([]string{"", "", "true", "false", "0", "1"}).Draw(t, "wantassertionssigned1")
	if rapid.IntRange(0, 3).Draw(t, "mixed-case-login") == 0 {
		// login names are whatever the user store says: mixed case, and a second user whose name differs by case only
		u0.LoginName, u1.LoginName = "J.Doe@Corp.example", "j.doe@corp.example"
	}
	spec := world.Spec{IdP: idp, SPs: []world.SPSpec{sp0, spB}, Users: []world.UserSpec{u0, u1}}
	c := C12Case{Spec: spec, Host: rapid.SampledFrom(reqHosts).Draw(t, "host"), Style: genXMLStyle(t), Soap: rapid.SampledFrom([]string{"soap", "S"}).Draw(t, "soap"), HoistNS: rapid.IntRange(0, 2).Draw(t, "hoistns") == 0}
	e0, e1 := spec.SPs[0].EntityID, spec.SPs[1].EntityID
	issuer := rapid.SampledFrom([]string{e0, e0, e0, e0, e1, e1, e0, e1, "https://unregistered.example/metadata", A, swapCase(e0), e0 + "/"}).Draw(t, "issuer")
	subject := rapid.SampledFrom([]string{u0.LoginName, u0.LoginName, u1.LoginName, u0.LoginName, u1.LoginName, u1.LoginName, "nobody@users.example", A, " " + u0.LoginName}).Draw(t, "subject")
	q := spsim.NewAttrQuery(genNonEmptyLegal(t, "qid", 3), issuer, subject)
	if rapid.IntRange(0, 2).Draw(t, "subject-qualified") == 0 {
		// the subject's name may be qualified: by the requester itself, by another registered provider (an affiliation), by anybody
		own := issuer
		if own == A {
			own = ""
		}
		q.SubjSPNameQualifier = rapid.SampledFrom([]string{"", own, spec.SPs[1].EntityID, spec.SPs[0].EntityID, "https://unregistered-audience.example/metadata"}).Draw(t, "subject-spnq")
		q.SubjNameQualifier = rapid.SampledFrom([]string{"", "https://idp.example", "https://unregistered-audience.example/metadata"}).Draw(t, "subject-nq")
		q.SubjFormat = rapid.SampledFrom([]string{"", "urn:oasis:names:tc:SAML:1.1:nameid-format:unspecified", "urn:oasis:names:tc:SAML:2.0:nameid-format:persistent", "urn:oasis:names:tc:SAML:1.1:nameid-format:emailAddress", "urn:oasis:names:tc:SAML:1.1:nameid-format:emailAddress"}).Draw(t, "subject-format")
	}
	q.IssueInstant = spsim.Rel(-5, 0, "")
	// requested attributes: drawn from the user's own attributes (matching), near misses and foreign names
	target := u0
	if subject == u1.LoginName {
		target = u1
	}
	own := expectedAttrs(target)
	n := rapid.IntRange(0, 4).Draw(t, "nrequested")
	for i := 0; i < n; i++ {
		switch k := rapid.IntRange(0, 5).Draw(t, "reqkind"); {
		case k == 5 && len(own) > 0:
			// a different (Name, NameFormat) pair that reads the same when the two are glued together
			a := own[rapid.IntRange(0, len(own)-1).Draw(t, "ownidx")]
			sep := rapid.SampledFrom([]string{":", ":", "", "|", " ", "/", ",", "\x00"}).Draw(t, "gluesep")
			nm, nf := a.Name, a.NameFormat
			switch {
			case sep != "" && strings.Contains(nf, sep):
				i := strings.Index(nf, sep)
				nm, nf = a.Name+sep+nf[:i], nf[i+len(sep):]
			case sep != "" && strings.Contains(a.Name, sep):
				i := strings.LastIndex(a.Name, sep)
				nm, nf = a.Name[:i], a.Name[i+len(sep):]+sep+a.NameFormat
			case len(nf) > 1:
				nm, nf = a.Name+nf[:1], nf[1:]
			case len(a.Name) > 1:
				nm, nf = a.Name[:len(a.Name)-1], a.Name[len(a.Name)-1:]+nf
			}
			q.Attrs = append(q.Attrs, spsim.QAttr{Name: nm, NameFormat: nf, FriendlyName: A})
		case k <= 1 && len(own) > 0:
			a := own[rapid.IntRange(0, len(own)-1).Draw(t, "ownidx")]
			q.Attrs = append(q.Attrs, spsim.QAttr{Name: a.Name, NameFormat: a.NameFormat, FriendlyName: A})
			if a.NameFormat == "" && rapid.Bool().Draw(t, "fmtabsent") {
				q.Attrs[len(q.Attrs)-1].NameFormat = A
			}
		case k == 2 && len(own) > 0:
			a := own[rapid.IntRange(0, len(own)-1).Draw(t, "ownidx")]
			q.Attrs = append(q.Attrs, spsim.QAttr{Name: a.Name, NameFormat: rapid.SampledFrom([]string{"urn:oasis:names:tc:SAML:2.0:attrname-format:uri", A, "urn:other"}).Draw(t, "wrongfmt"), FriendlyName: A})
		case k == 3:
			q.Attrs = append(q.Attrs, spsim.QAttr{Name: rapid.SampledFrom([]string{"Email", "UserName", "SurName", "Nonexistent", "email"}).Draw(t, "stdname"), NameFormat: "urn:oasis:names:tc:SAML:2.0:attrname-format:basic", FriendlyName: A})
		case k == 4 && len(own) > 0:
			// another Name, but the FriendlyName (and format) of one of the user's attributes: FriendlyName is a label, not a key
			a := own[rapid.IntRange(0, len(own)-1).Draw(t, "ownidx")]
			for _, o := range own {
				if o.FriendlyName != "" {
					a = o
				}
			}
			q.Attrs = append(q.Attrs, spsim.QAttr{Name: "Other" + fmt.Sprint(i), NameFormat: a.NameFormat, FriendlyName: a.FriendlyName})
		default:
			q.Attrs = append(q.Attrs, spsim.QAttr{Name: "Nonexistent" + fmt.Sprint(i), NameFormat: A, FriendlyName: "x"})
		}
	}
	// a requester may list the values it is interested in (some, none or other than the user's): the statement releases whole
	// attributes by Name and NameFormat
	for i := range q.Attrs {
		if rapid.IntRange(0, 3).Draw(t, "qvalues") == 0 {
			for _, o := range own {
				if o.Name == q.Attrs[i].Name && len(o.Values) > 0 && rapid.Bool().Draw(t, "qvalue-own") {
					q.Attrs[i].Values = append(q.Attrs[i].Values, o.Values[0])
				}
			}
			if rapid.Bool().Draw(t, "qvalue-other") || len(q.Attrs[i].Values) == 0 {
				q.Attrs[i].Values = append(q.Attrs[i].Values, "a-value-nobody-has")
			}
		}
	}
	// requested attributes that do match may carry any FriendlyName as well
	for i := range q.Attrs {
		if q.Attrs[i].FriendlyName == A && rapid.IntRange(0, 3).Draw(t, "qfriendly") == 0 {
			q.Attrs[i].FriendlyName = rapid.SampledFrom([]string{"Custom", "mail", "", "x"}).Draw(t, "qfriendlyv")
		}
	}
	c.DestKind = rapid.SampledFrom([]string{"absent", "absent", "absent", "attribute", "attribute", "attribute", "sso", "slo", "foreign", "attribute-slash", "empty", "issuer-plus-path", "issuer-plus-path", "double-slash", "metadata"}).Draw(t, "destkind")
	switch c.DestKind {
	case "attribute":
		q.Destination = idp.Advertised("attribute", c.Host)
	case "sso":
		q.Destination = idp.Advertised("sso", c.Host)
	case "slo":
		q.Destination = idp.Advertised("slo", c.Host)
	case "foreign":
		q.Destination = "https://other-idp.example/saml/attribute"
	case "attribute-slash":
		q.Destination = idp.Advertised("attribute", c.Host) + "/"
	case "issuer-plus-path":
		// issuer + route of the attribute endpoint: the advertised location only when no external URL is configured
		q.Destination = strings.TrimSuffix(idp.ExpectedIssuer(c.Host), "/") + idp.Route("attribute")
	case "double-slash":
		q.Destination = idp.ExpectedIssuer(c.Host) + "/" + strings.TrimPrefix(idp.Route("attribute"), "/")
		if !strings.HasSuffix(idp.ExpectedIssuer(c.Host), "/") {
			q.Destination = idp.ExpectedIssuer(c.Host) + "//" + strings.TrimPrefix(idp.Route("attribute"), "/")
		}
	case "metadata":
		q.Destination = idp.EntityID(c.Host)
	case "empty":
		q.Destination = ""
	}
	q.DestPrefixed = c.DestKind != "absent" && rapid.IntRange(0, 3).Draw(t, "destprefixed") == 0
	c.Query = q
	c.Noise = rapid.IntRange(0, 2).Draw(t, "noise") == 0
	c.StaleFirstRead = rapid.IntRange(0, 7).Draw(t, "stalefirst") == 0
	if rapid.IntRange(0, 7).Draw(t, "signfault") == 0 {
		c.SignFault = rapid.SampledFrom([]string{"mismatch", "sha512", "nokey"}).Draw(t, "signfaultkind")
	}
	if rapid.IntRange(0, 3).Draw(t, "history") == 0 {
		for i, sp := range spec.SPs {
			if sp.EntityID == issuer {
				c.Hist = genHistory(t, spec, i, func(e *world.SPSpec) {
					if len(e.KeyNames) > 0 {
						e.KeyNames = []string{"rogue"}
					}
				}, true)
			}
		}
	}
	c.SignMode = rapid.SampledFrom([]string{"none", "none", "none", "none", "none", "none", "none", "valid", "rogue", "rogue-registered-cert", "edited", "empty-value", "rogue-no-keyinfo", "edited-no-keyinfo", "two-queries-genuine-first", "two-queries-genuine-last", "two-bodies-genuine-first", "two-bodies-genuine-last", "wrapped-header", "wrapped-header-nokeyinfo"}).Draw(t, "signmode")
	c.GenuineFirst = rapid.IntRange(0, 2).Draw(t, "genuine-first") == 0
	return c
}

func c12Render(c C12Case, now time.Time) obs.HTTPReq {
	tree := c.Query.Rendered(now).QueryTree(c.Style)
	key := "sp-a"
	for _, sp := range c.Spec.SPs {
		if sp.EntityID == c.Query.Issuer && len(sp.KeyNames) > 0 {
			key = sp.KeyNames[0]
		}
	}
	sg := spsim.Signing{Alg: world.AlgRSASHA256, KeyName: key, KeyInfo: true, CertLayout: "plain", DSPrefix: "ds"}
	switch c.SignMode {
	case "none":
		sg.Alg = ""
	case "rogue":
		sg.KeyName = "rogue"
	case "rogue-registered-cert":
		sg.KeyName, sg.CertOf = "rogue", key
	case "rogue-no-keyinfo":
		sg.KeyName, sg.KeyInfo = "rogue", false
	case "edited-no-keyinfo":
		sg.KeyInfo = false
	case "wrapped-header", "wrapped-header-nokeyinfo":
		// handled below: a validly signed copy goes into the SOAP header, the body carries a forged query
	}
	if tree.AttrV("ID") == "" && sg.Alg != "" {
		tree.SetAttr("ID", "_q")
	}
	if err := spsim.SignTree(tree, sg); err != nil {
		panic("harness: " + err.Error())
	}
	switch c.SignMode {
	case "edited", "edited-no-keyinfo":
		if s := tree.Child(world.NSSAML, "Subject"); s != nil {
			if n := s.Child(world.NSSAML, "NameID"); n != nil {
				n.Children = nil
				n.AddText(c.Spec.Users[1].LoginName)
			}
		} else {
			tree.SetAttr("Version", "2.1")
		}
	case "empty-value":
		if s := tree.Child(world.NSDS, "Signature"); s != nil {
			if sv := s.Child(world.NSDS, "SignatureValue"); sv != nil {
				sv.Children = nil
			}
		}
	}
	env := spsim.Envelope(tree, c.Soap)
	if strings.HasPrefix(c.SignMode, "wrapped-header") {
		// signature wrapping: the registered SP's genuine signed query travels in soap:Header; the query in soap:Body asks
		// for another subject and carries the copied (or a rogue, KeyInfo-less) signature
		genuine := tree.Clone()
		forged := c.Query.Rendered(now).QueryTree(c.Style)
		if forged.AttrV("ID") == "" {
			forged.SetAttr("ID", "_q")
		}
		if s := forged.Path("Subject", "NameID"); s != nil {
			s.Children = nil
			s.AddText(c.Spec.Users[1].LoginName)
		}
		if c.SignMode == "wrapped-header" {
			if gs := genuine.Child(world.NSDS, "Signature"); gs != nil {
				forged.InsertAt(1, gs.Clone())
			}
		} else {
			_ = spsim.SignTree(forged, spsim.Signing{Alg: world.AlgRSASHA256, KeyName: "rogue", KeyInfo: false, DSPrefix: "ds"})
		}
		env = spsim.Envelope(forged, c.Soap)
		hdr := xt.NewElem(c.Soap, world.NSSOAP, "Header")
		hdr.Add(genuine)
		env.InsertAt(0, hdr)
	}
	if strings.HasPrefix(c.SignMode, "two-") {
		// the genuine signed query and, next to it, a forged one (other subject) carrying the copied signature: as a second
		// element of the same body, or in a second body - before or after the genuine one
		forged := c.Query.Rendered(now).QueryTree(c.Style)
		if forged.AttrV("ID") == "" {
			forged.SetAttr("ID", "_q")
		}
		if sn := forged.Path("Subject", "NameID"); sn != nil {
			sn.Children = nil
			sn.AddText(c.Spec.Users[1].LoginName)
		}
		if gs := tree.Child(world.NSDS, "Signature"); gs != nil {
			forged.InsertAt(1, gs.Clone())
		}
		first, second := tree, forged
		if strings.HasSuffix(c.SignMode, "genuine-last") {
			first, second = forged, tree
		}
		env = spsim.Envelope(first, c.Soap)
		if strings.HasPrefix(c.SignMode, "two-queries") {
			env.Child(world.NSSOAP, "Body").Add(second)
		} else {
			env.Add(spsim.Envelope(second, c.Soap).Child(world.NSSOAP, "Body"))
		}
	}
	if c.HoistNS {
		spsim.HoistNS(env)
	}
	hr, _, _ := spsim.Encode(c.Spec.IdP.Route("attribute"), xt.Write(env, c.Style.W), spsim.Transport{Binding: "soap"}, nil)
	hr.Host = c.Host
	return hr
}

type c12Outcome struct {
	vs        []*ev.Violation
	disclosed bool
	guards    []string
	filter    string
	status    int
}

func c12Run(c C12Case) c12Outcome {
	var out c12Outcome
	add := func(key, f string, a ...any) { out.vs = append(out.vs, ev.V("C12/"+key, f, a...)) }
	wspec := c.Spec
	if c.Noise {
		wspec = withNoise(wspec)
	}
	if c.SignFault == "sha512" {
		wspec.IdP.SignatureAlgorithm = world.AlgRSASHA512
	}
	w := buildWithHistory(wspec, c.Hist, c.Host)
	if c.Noise {
		runNoise(w, wspec)
	}
	now := time.Now()
	if c.GenuineFirst && c.SignMode != "none" && c.SignMode != "valid" {
		g := c
		g.SignMode = "valid"
		obs.Do(w.Handler, c12Render(g, now))
		w.Store.ResetLog()
	}
	var faults []world.Fault
	if c.SignFault == "mismatch" || c.SignFault == "nokey" {
		faults = append(faults, world.Fault{Op: "GetResponseSigningKey", Occurrence: 0, Kind: c.SignFault})
	}
	if c.StaleFirstRead {
		faults = append(faults, world.Fault{Op: "SetUserinfoWithLoginName", Occurrence: 1, Kind: "stale"})
	}
	if len(faults) > 0 {
		w.Store.SetFaults(faults)
	}
	hr := c12Render(c, now)
	rep := obs.Do(w.Handler, hr)
	if c.Noise && noiseLeak(rep) {
		add("foreign-state-in-reply", "the reply carries data of an unrelated service provider / user that used the provider earlier")
	}
	out.status = rep.Status
	if rep.Panic != "" {
		add("panic", "handler panicked: %s", short(rep.Panic, 100))
		return out
	}
	// what was sent, read back with the strict reader
	doc, err := xt.Parse([]byte(hr.Body))
	if err != nil {
		panic("harness: own SOAP message does not parse: " + err.Error())
	}
	qn := doc.Root.Path("Body", "AttributeQuery")
	issuer, subject := "", ""
	hasIssuer, hasSubject := false, false
	if is := qn.Child(world.NSSAML, "Issuer"); is != nil {
		issuer, hasIssuer = is.Text(), true
	}
	if s := qn.Path("Subject", "NameID"); s != nil {
		subject, hasSubject = s.Text(), true
	}
	spIdx := -1
	for i, sp := range c.Spec.SPs {
		if _, known := w.Store.SPSpecByEntity(sp.EntityID); hasIssuer && sp.EntityID == issuer && known {
			spIdx = i
		}
	}
	if spIdx < 0 {
		out.guards = append(out.guards, "issuer-not-registered")
	}
	// signature values carried: by the query, and by every other query element the message holds (a second element in the
	// body, a second body)
	var queries []*xt.Node
	for _, b := range doc.Root.ChildrenNamed(world.NSSOAP, "Body") {
		queries = append(queries, b.ChildrenNamed(world.NSSAMLP, "AttributeQuery")...)
	}
	if len(queries) == 0 {
		queries = []*xt.Node{qn}
	}
	sigInvalid := false
	for _, q := range queries {
		for _, s := range q.ChildrenNamed(world.NSDS, "Signature") {
			sv := s.Child(world.NSDS, "SignatureValue")
			if sv == nil || strings.TrimSpace(sv.Text()) == "" {
				continue
			}
			ok := false
			if spIdx >= 0 && len(c.Spec.SPs[spIdx].KeyNames) > 0 {
				ok = dsigref.VerifyEnveloped(q, s, &world.Key(c.Spec.SPs[spIdx].KeyNames[0]).RSA.PublicKey).OK
			}
			if !ok {
				sigInvalid = true
			}
		}
	}
	if sigInvalid {
		out.guards = append(out.guards, "signature-invalid")
	}
	// Destination: the unqualified attribute is the protocol's; a namespace-qualified twin is not asserted on
	advertised := c.Spec.IdP.Advertised("attribute", c.Host)
	destUnasserted := false
	if dest, ok := qn.Attr("Destination"); ok {
		switch {
		case dest == "":
			destUnasserted = true
		case dest == advertised:
		case urlEquivalentButDifferent(dest, advertised):
			destUnasserted = true
		default:
			out.guards = append(out.guards, "destination-not-attribute-service")
		}
	}
	for _, a := range qn.Attrs {
		if a.Space != "" && a.Local == "Destination" {
			destUnasserted = true
		}
	}

	d := obs.Decode(rep)
	var resp *obs.ResponseInfo
	if d.Doc != nil {
		resp = obs.ReadResponse(obs.FindResponse(d.Root()))
	}
	discloses := false
	if resp != nil {
		for _, a := range resp.Assertions {
			if has, _ := a.CarriesUserData(); has {
				discloses = true
			}
		}
	}
	if !discloses {
		if resp != nil && resp.Success() {
			add("success-without-assertion", "status Success but no assertion content")
		}
		// whatever the reply is, the user's data must not be in it
		for _, u := range c.Spec.Users {
			for _, v := range []string{u.Email, u.FullName, u.Username, u.UserIDAttr} {
				if len(v) >= 6 && bytes.Contains(rep.Body, []byte(v)) {
					add("user-data-outside-a-success-response", "the reply (status %d) is not a Success response with an assertion, yet its body contains the user's %q", rep.Status, v)
					return out
				}
			}
		}
		return out
	}
	defer func() {
		// afterwards the same requester asks for everything: the answer is the user's record as stored (whatever the first
		// query asked for must not have altered what the storage holds)
		if len(out.vs) > 0 || spIdx < 0 || c.SignFault != "" {
			return
		}
		q2 := spsim.NewAttrQuery("_second-query", issuer, subject)
		hr2, _, _ := spsim.Encode(c.Spec.IdP.Route("attribute"), xt.Write(spsim.Envelope(q2.QueryTree(plainStyle), "soap"), plainStyle.W), spsim.Transport{Binding: "soap"}, nil)
		hr2.Host = c.Host
		rep2 := obs.Do(w.Handler, hr2)
		d2 := obs.Decode(rep2)
		r2 := obs.ReadResponse(obs.FindResponse(d2.Root()))
		u2, ok := w.Store.UserByLogin(subject)
		if r2 == nil || !r2.Success() || len(r2.Assertions) != 1 || !ok {
			return
		}
		if diff := attrMultisetDiff(expectedAttrs(u2), r2.Assertions[0].Attrs); diff != "" {
			add("stored-record-altered", "a second, unfiltered query for the same subject does not return the stored record: %s", diff)
		}
	}()
	if c.SignFault != "" {
		add("disclosed-although-signing-cannot-work", "user data disclosed although the answer cannot be signed (%s)", c.SignFault)
		return out
	}
	out.disclosed = true
	if !resp.Success() {
		add("user-data-in-failure", "reply with status %q carries user data", resp.Status)
	}
	for _, g := range out.guards {
		if g == "destination-not-attribute-service" && destUnasserted {
			continue
		}
		add("disclosed-despite:"+g, "user data disclosed although guard %q is violated (issuer %q, destination kind %s, sign mode %s)", g, issuer, c.DestKind, c.SignMode)
	}
	if len(out.vs) > 0 {
		return out
	}
	// content
	calls := w.Store.CallsOf("SetUserinfoWithLoginName")
	if len(calls) < 1 {
		add("userinfo-calls", "user data disclosed although SetUserinfoWithLoginName was never called")
		return out
	}
	// an IdP may ask more than once (a retry): every lookup is for the query's subject, and the answer is the record the
	// storage resolved - the last successful lookup
	for _, cl := range calls {
		if !hasSubject || cl.Args[0] != subject {
			add("subject-passed-to-storage", "storage was asked for %q, the query's subject is %q (present %v)", cl.Args[0], subject, hasSubject)
		}
	}
	u, ok := w.Store.UserByLogin(calls[len(calls)-1].Args[0])
	if !ok {
		add("disclosure-for-unknown-user", "storage knows no user %q", calls[0].Args[0])
		return out
	}
	if len(resp.Assertions) != 1 {
		add("assertion-count", "%d assertions", len(resp.Assertions))
		return out
	}
	a := resp.Assertions[0]
	if a.NameID != u.Username {
		add("nameid", "NameID %q, user name of %q is %q", a.NameID, u.LoginName, u.Username)
	}
	if resp.InResponseTo != qn.AttrV("ID") || a.SubjInResponseTo != qn.AttrV("ID") {
		add("inresponseto", "query ID %q, InResponseTo %q / %q", qn.AttrV("ID"), resp.InResponseTo, a.SubjInResponseTo)
	}
	if len(a.Audiences) != 1 || a.Audiences[0] != issuer {
		add("audience", "Audience %q, requester %q", a.Audiences, issuer)
	}
	entity := c.Spec.IdP.EntityID(c.Host)
	if resp.Issuer != entity || a.Issuer != entity {
		add("issuer", "Issuer %q / %q, IdP entity ID %q", resp.Issuer, a.Issuer, entity)
	}
	// attribute filter, as sets
	type pair struct{ n, f string }
	requested := map[pair]bool{}
	for _, ra := range qn.ChildrenNamed(world.NSSAML, "Attribute") {
		requested[pair{ra.AttrV("Name"), ra.AttrV("NameFormat")}] = true
	}
	want := map[string]bool{}
	matched, unmatched := 0, 0
	for _, ua := range expectedAttrs(u) {
		if len(requested) == 0 || requested[pair{ua.Name, ua.NameFormat}] {
			want[ua.key()] = true
		}
	}
	userPairs := map[pair]bool{}
	for _, ua := range expectedAttrs(u) {
		userPairs[pair{ua.Name, ua.NameFormat}] = true
	}
	for p := range requested {
		if userPairs[p] {
			matched++
		} else {
			unmatched++
		}
	}
	out.filter = fmt.Sprintf("requested=%d/matched=%d/unmatched=%d", len(requested), matched, unmatched)
	got := map[string]bool{}
	for _, ga := range a.Attrs {
		got[expAttr{Name: ga.Name, NameFormat: ga.NameFormat, FriendlyName: ga.FriendlyName, Values: ga.Values}.key()] = true
	}
	var missing, extra []string
	for k := range want {
		if !got[k] {
			missing = append(missing, k)
		}
	}
	for k := range got {
		if !want[k] {
			extra = append(extra, k)
		}
	}
	sort.Strings(missing)
	sort.Strings(extra)
	if len(extra) > 0 {
		add("attributes-not-requested", "disclosed attributes that were not requested (or are not the user's): %v", extra)
	}
	if len(missing) > 0 {
		add("attributes-missing", "requested attributes of the user missing from the answer: %v", missing)
	}
	// signed assertion
	mdCert, _, _, _, err := publishedCert(w, c.Host)
	if err != nil {
		add("metadata-unavailable", "%v", err)
		return out
	}
	if v := verifyEnvelopedOnWire("assertion/attrquery", d.XML, a.Node, mdCert, map[string]int{}); v != nil {
		if v.Key == "C04/xmlsig-canon-unescaped" {
			out.guards = append(out.guards, "(signature: C04 known finding)")
		} else {
			add("assertion-signature:"+strings.TrimPrefix(v.Key, "C04/"), "%s", v.What)
		}
	}
	return out
}

func TestC12(t *testing.T) {
	col := ev.For("C12", "exploration", c12Rule)
	searchRapid(t, col, genC12Case, func(c C12Case) []*ev.Violation {
		o := c12Run(c)
		guardViolated := false
		for _, g := range o.guards {
			if !strings.HasPrefix(g, "(") {
				guardViolated = true
			}
		}
		nontrivial := guardViolated || (strings.Contains(o.filter, "matched=") && !strings.Contains(o.filter, "/matched=0") && !strings.Contains(o.filter, "unmatched=0"))
		classes := []string{fmt.Sprintf("disclosed=%v", o.disclosed), "dest/" + c.DestKind, "sign/" + c.SignMode, fmt.Sprintf("status/%d", o.status)}
		for _, g := range o.guards {
			classes = append(classes, "guard/"+g)
		}
		if o.filter != "" {
			classes = append(classes, "filter/"+o.filter)
		}
		col.Case(nontrivial, ev.Fingerprint(o.guards, o.filter, c.SignMode, c.DestKind, c.Query.DestPrefixed, o.disclosed, len(c.Query.Attrs), c.Query.Subject == A, c.Spec.IdP.IssuerMode, len(c.Spec.Users[0].Custom)), classes, func() any {
			return map[string]any{"issuer": c.Query.Issuer, "subject": c.Query.Subject, "requested": c.Query.Attrs, "destination": c.Query.Destination, "dest_prefixed": c.Query.DestPrefixed, "sign_mode": c.SignMode, "disclosed": o.disclosed, "guards_violated": o.guards, "filter": o.filter}
		})
		return o.vs
	})
}
