package props

// Shared model of one request to the SSO endpoint: world + structured AuthnRequest + signing +
// transport + injected defects, rendered to a concrete HTTP request at run time; and the
// harness's independent evaluation of the validity conditions on the bytes actually sent.

import (
	"bytes"
	"compress/flate"
	"encoding/base64"
	"encoding/xml"
	"fmt"
	"io"
	"regexp"
	"strings"
	"time"

	"pgregory.net/rapid"

	"verif/harness/obs"
	"verif/harness/spsim"
	"verif/harness/world"
	"verif/harness/xt"
)

type Defect struct {
	Name  string `json:"name"`
	Param string `json:"param,omitempty"`
}

type SSOCase struct {
	Spec         world.Spec      `json:"spec"`
	Host         string          `json:"host"`
	SP           int             `json:"sp"` // index into Spec.SPs of the SP that sends the request
	Req          spsim.AuthnReq  `json:"req"`
	Style        spsim.XMLStyle  `json:"style"`
	Sign         spsim.Signing   `json:"sign"`
	RSign        *spsim.Signing  `json:"redirect_sign,omitempty"`
	Tr           spsim.Transport `json:"transport"`
	Defects      []Defect        `json:"defects,omitempty"`
	PersistFault bool            `json:"persist_fault,omitempty"`
	Headers      [][2]string     `json:"headers,omitempty"`
	Note         string          `json:"note,omitempty"`
	// Prelude lists request hosts that are served by the same provider instance before the case's own
	// request (metadata, a valid SSO request and an attribute query each): state kept across requests
	// must not leak into the request under test.
	Prelude []string `json:"prelude_hosts,omitempty"`
	// Noise: unrelated actors (another SP, user, tenant) use the same provider instance first, see withNoise.
	Noise bool `json:"noise,omitempty"`
	// Hist: the sending service provider used the IdP under an earlier registration, or was deregistered after using it.
	Hist *History `json:"history,omitempty"`
	// GoneAtPersist: the user agent goes away (request context cancelled) at the moment the IdP asks the storage to persist the
	// request; the storage completes the write all the same.
	GoneAtPersist bool `json:"gone_at_persist,omitempty"`
	// FaultKind: the shape of the persist failure when PersistFault is set ("" = plain error); LookupFault: the service
	// provider lookup fails in that way ("" = it does not)
	FaultKind   string `json:"fault_kind,omitempty"`
	LookupFault string `json:"lookup_fault,omitempty"`
	// KeyFault: the response-signing key lookup fails in that way while the request is served ("" = it does not)
	KeyFault string `json:"key_fault,omitempty"`
	// PersistDelayMs: the storage takes that long to persist the request (it succeeds)
	PersistDelayMs int `json:"persist_delay_ms,omitempty"`
}

func (c SSOCase) hasDefect(name string) bool {
	for _, d := range c.Defects {
		if d.Name == name {
			return true
		}
	}
	return false
}

func (c SSOCase) defectNames() []string {
	var out []string
	for _, d := range c.Defects {
		out = append(out, d.Name)
	}
	return out
}

// ---- world generation ----

var acsLocations = []string{
	"https://sp%d.example/acs/%d",
	"https://sp%d.example/acs/%d?tenant=a&x=1",
	"https://sp%d.example/acs/%d?q=%%22quoted%%22",
	"https://sp%d.example:8443/acs/%d/ü",
	"https://sp%d.example/acs/%d;v=1",
	"http://sp%d.example/acs/%d",
	"https://sp%d.example/acs/%d?tenant=42&region=eu&copy=1&para=x",
	"https://sp%d.example/acs/%d?a=1&amp;lt=2&quot=3&#x41;=4",
}

// acsLocationsOdd: legal URI references that are not http(s) URLs - a private-use scheme in its single-slash form (native
// applications), relative references that look like "host/path", a URN. Registered is the string, whatever it looks like.
var acsLocationsOdd = []string{
	"com.example.app%d:/saml/acs/%d",
	"sp%d.example.com/saml/acs/%d",
	"sp%d.example.com:8443/saml/acs/%d",
	"/sp%d/relative/acs/%d",
	"https://sp%d.example/acs/%d?zone=eu&app=crm&b=2&a=1",
	"https://sp%d.example/acs/%d?key&flag=;x&sp=%%20y",
	"https://sp%d.example/acs|v2/%d?RelayState=fixed&tenant=blue",
	// a route of a single-page application: the only '?' of the URL sits behind '#'
	"https://sp%d.example/app%d#/saml/acs?tenant=1",
}

var allBindings = []string{world.BindPost, world.BindRedirect, world.BindArtifact, world.BindPAOS, world.BindOther}

func genACSList(t *rapid.T, sp int, minLen, maxLen int, bindings []string, odd ...bool) []world.ACSSpec {
	locs := acsLocations
	if len(odd) > 0 && odd[0] {
		locs = append(append([]string(nil), acsLocations...), acsLocationsOdd...)
	}
	var lens []int
	for l := maxLen; l >= minLen; l-- {
		lens = append(lens, l)
		if l > 0 {
			lens = append(lens, l)
		}
	}
	n := pick(t, "nacs", lens)
	var out []world.ACSSpec
	for i := 0; i < n; i++ {
		loc := fmt.Sprintf(rapid.SampledFrom(locs).Draw(t, "acsloc"), sp, i)
		binding := pick(t, "acsbinding", bindings)
		if !strings.Contains(loc, ":") && binding == world.BindRedirect {
			// a relative reference in a Location header is resolved against the IdP's own URL by net/http: only the form
			// action carries it verbatim
			binding = world.BindPost
		}
		out = append(out, world.ACSSpec{
			Binding:          binding,
			Location:         loc,
			Index:            rapid.SampledFrom([]string{"0", "1", "2", "7", "65535", "10", "12", "100", "02"}).Draw(t, "acsindex"),
			IsDefault:        rapid.SampledFrom([]string{A, A, "true", "false", "1", "0"}).Draw(t, "acsdefault"),
			ResponseLocation: rapid.SampledFrom([]string{"", "", "", loc + "/response"}).Draw(t, "acsresponselocation"),
		})
	}
	return out
}

type worldOpts struct {
	bindings      []string // ACS binding alphabet
	minACS        int
	maxACS        int
	signingFlags  bool // vary AuthnRequestsSigned / WantAuthRequestsSigned
	issuerModes   []string
	customSSO     bool
	maxSPs        int
	entityIDChars bool
	oddLocations  bool // registered Locations that are not http(s) URLs, or whose query is not in any canonical form
}

func genIdPConfig(t *rapid.T, o worldOpts) world.IdPConfig {
	c := world.DefaultIdP()
	modes := o.issuerModes
	if len(modes) == 0 {
		modes = []string{"static"}
	}
	c.IssuerMode = rapid.SampledFrom(modes).Draw(t, "issuermode")
	switch c.IssuerMode {
	case "static":
		c.Issuer = rapid.SampledFrom([]string{"https://idp.example/saml", "https://idp.example", "https://idp.example/", "https://idp.example/a/b/", "https://idp.example:8443/saml"}).Draw(t, "issuer")
	default:
		c.IssuerPath = rapid.SampledFrom([]string{"", "/saml", "saml/v2", "/"}).Draw(t, "issuerpath")
	}
	// the error page the metadata names (MetadataIDPConfig.ErrorURL): published, nothing more
	c.ErrorURL = rapid.SampledFrom([]string{"", "", "https://idp.example/ui/error", "/ui/error"}).Draw(t, "errorurl")
	// a configuration field no code of the library reads: setting it changes nothing
	c.IDPInsecure = rapid.IntRange(0, 3).Draw(t, "idp-insecure-field") == 0
	if rapid.IntRange(0, 4).Draw(t, "insecure") == 0 {
		c.Insecure = true
		if c.IssuerMode == "static" {
			c.Issuer = strings.Replace(c.Issuer, "https://", "http://", 1)
		}
	}
	if o.customSSO {
		switch rapid.IntRange(0, 3).Draw(t, "ssoendpoint") {
		case 1:
			c.Endpoints = map[string]world.EndpointSpec{"sso": {Path: "signon"}}
		case 2:
			c.Endpoints = map[string]world.EndpointSpec{"sso": {Path: "/auth/sso/v2"}}
		case 3:
			c.Endpoints = map[string]world.EndpointSpec{"sso": {Path: "ext-sso", URL: "https://gateway.example/public/sso"}}
		}
	}
	if o.customSSO {
		// the other protocol endpoints likewise: by path, or published under a URL of their own (a gateway in front)
		for _, name := range []string{"slo", "attribute"} {
			var e world.EndpointSpec
			switch rapid.IntRange(0, 4).Draw(t, name+"endpoint") {
			case 3:
				e = world.EndpointSpec{Path: name + "/v2"}
			case 4:
				e = world.EndpointSpec{Path: "ext-" + name, URL: "https://gateway.example/public/" + name}
			default:
				continue
			}
			if c.Endpoints == nil {
				c.Endpoints = map[string]world.EndpointSpec{}
			}
			c.Endpoints[name] = e
		}
	}
	if o.signingFlags {
		c.WantAuthRequestsSigned = rapid.SampledFrom([]string{"", "", "false", "true", "1"}).Draw(t, "wantsigned")
	}
	c.SignatureAlgorithm = rapid.SampledFrom([]string{world.AlgRSASHA256, world.AlgRSASHA1}).Draw(t, "idpsigalg")
	return c
}

func genSSOWorld(t *rapid.T, o worldOpts) world.Spec {
	if o.maxSPs == 0 {
		o.maxSPs = 3
	}
	if len(o.bindings) == 0 {
		o.bindings = []string{world.BindPost, world.BindRedirect}
	}
	if o.maxACS == 0 {
		o.maxACS = 3
	}
	spec := world.Spec{IdP: genIdPConfig(t, o)}
	n := rapid.IntRange(1, o.maxSPs).Draw(t, "nsps")
	for i := 0; i < n; i++ {
		sp := stdSP(i)
		if o.entityIDChars && rapid.Bool().Draw(t, "oddentity") {
			sp.EntityID = fmt.Sprintf(rapid.SampledFrom([]string{"https://sp%d.example/md?x=1&y=2", "urn:example:sp%d", "https://sp%d.example/metadata/", "https://SP%d.example/metadata",
				// an entity ID is a string, compared as one: letter case of scheme and host, escapes and dot segments are part of it
				"https://Portal.SP%d.Example.COM/saml/metadata", "HTTPS://sp%d.example/metadata", "https://sp%d.example/a/../metadata", "https://sp%d.example/%%7Esaml/metadata", "https://sp%d.example:443/metadata"}).Draw(t, "entityform"), i)
		}
		sp.ACS = genACSList(t, i, o.minACS, o.maxACS, o.bindings, o.oddLocations)
		sp.WantAssertionsSigned = rapid.SampledFrom([]string{"", "", "", "true", "false", "0", "1"}).Draw(t, "wantassertionssigned")
		// caching hints of the metadata document, in the past too: what the storage holds as registered is registered
		sp.ValidUntil = rapid.SampledFrom([]string{"", "", "", "", "@future", "@past", "role:@past", "2001-01-01T00:00:00Z", "not a date"}).Draw(t, "validuntil")
		sp.CacheDuration = rapid.SampledFrom([]string{"", "", "", "PT1H", "PT0S"}).Draw(t, "cacheduration")
		if o.signingFlags {
			sp.AuthnRequestsSigned = rapid.SampledFrom([]string{A, A, "false", "0", "true", "1"}).Draw(t, "spsigned")
			if rapid.IntRange(0, 5).Draw(t, "nocert") == 0 {
				sp.KeyNames = nil
			}
		}
		nslo := rapid.IntRange(0, 2).Draw(t, "nslo")
		sp.SLO = nil
		for k := 0; k < nslo; k++ {
			sloForm := "https://sp%d.example/slo/%d"
			if o.oddLocations {
				sloForm = rapid.SampledFrom([]string{sloForm, sloForm, "sp%d.example.com:8443/saml/slo/%d", "com.example.app%d:/saml/slo/%d", "https://sp%d.example/slo/%d?z=1&a=2&region=eu"}).Draw(t, "sloform")
			}
			sp.SLO = append(sp.SLO, world.SLOSpec{Binding: rapid.SampledFrom([]string{world.BindPost, world.BindRedirect}).Draw(t, "slobinding"), Location: fmt.Sprintf(sloForm, i, k),
				ResponseLocation: rapid.SampledFrom([]string{"", "", fmt.Sprintf("https://sp%d.example/slo/%d/response", i, k)}).Draw(t, "sloresponselocation")})
		}
		spec.SPs = append(spec.SPs, sp)
	}
	spec.Users = []world.UserSpec{stdUser(0), stdUser(1)}
	return spec
}

var (
	reProviderName  = regexp.MustCompile(`ProviderName\s*=\s*["']`)
	reFirstStartTag = regexp.MustCompile(`<[A-Za-z_][^<>]*?(\s*/?>)`)
)

var reqHosts = []string{"idp.example", "idp.example", "tenant-a.idp.example", "idp.example:8443", "[2001:db8::1]:8443"}

// ---- rendering ----

// ssoRender turns the model into the HTTP request (now = the instant relative timestamps refer to).
func ssoRender(c SSOCase, now time.Time) (obs.HTTPReq, *spsim.Signed, error) {
	req := c.Req.Rendered(now)
	tree := req.Tree(c.Style)
	for _, d := range c.Defects {
		switch d.Name {
		case "wrong-root":
			tree.Local = d.Param
		case "wrong-root-ns":
			tree.Space = "urn:example:not-saml"
			for i := range tree.NS {
				if tree.NS[i].Prefix == tree.Prefix {
					tree.NS[i].URI = "urn:example:not-saml"
				}
			}
			// children in the protocol namespace keep their prefix; redeclare it for them is not needed for the root check
		case "issuer-other-ns":
			// the only Issuer element is not the assertion namespace's: the protocol namespace (what the root element uses),
			// or one nobody knows. The message has no saml:Issuer.
			if is := tree.Child(world.NSSAML, "Issuer"); is != nil {
				if d.Param == "protocol" {
					is.Space, is.Prefix = tree.Space, tree.Prefix
				} else {
					is.Space, is.Prefix = "urn:example:not-saml", "x"
					is.Declare("x", "urn:example:not-saml")
				}
			}
		case "misnamespaced-child":
			// an element named like a part of the message, in the other SAML namespace, in front of the Conditions (which have
			// expired): whatever a reader makes of the stranger, the conditions that follow it are part of the message
			pos := len(tree.Children)
			for i, ch := range tree.Children {
				if ch.Kind == xt.KindElem && ch.Elem.Local == "Conditions" && ch.Elem.Space == world.NSSAML {
					pos = i
					break
				}
			}
			tree.InsertAt(pos, xt.NewElem(tree.Prefix, tree.Space, d.Param))
		case "dup-issuer":
			if is := tree.Child(world.NSSAML, "Issuer"); is != nil {
				cp := is.Clone()
				cp.Children = nil
				cp.AddText(d.Param)
				tree.InsertAt(0, cp)
			}
		}
	}
	if err := spsim.SignTree(tree, c.Sign); err != nil {
		return obs.HTTPReq{}, nil, err
	}
	xmlb := xt.Write(tree, c.Style.W)
	for _, d := range c.Defects {
		switch d.Name {
		case "truncated-xml":
			xmlb = xmlb[:len(xmlb)*2/3]
		case "unclosed-tag":
			xmlb = bytes.Replace(xmlb, []byte("</"), []byte("<"), 1)
		case "bad-entity":
			// a reference to an entity the document does not declare (HTML names among them): not well-formed XML
			name, where, _ := strings.Cut(d.Param, "/")
			if name == "" {
				name = "undefined"
			}
			ref := []byte("&" + name + ";")
			if where == "attr" {
				// in a place that carries no condition of its own: the ProviderName attribute (added when absent)
				if loc := reProviderName.FindIndex(xmlb); loc != nil {
					xmlb = append(append(append([]byte(nil), xmlb[:loc[1]]...), ref...), xmlb[loc[1]:]...)
				} else if loc := reFirstStartTag.FindSubmatchIndex(xmlb); loc != nil {
					ins := append([]byte(" ProviderName=\""), append(ref, '"')...)
					xmlb = append(append(append([]byte(nil), xmlb[:loc[3]]...), ins...), xmlb[loc[3]:]...)
				}
			} else {
				// text of an element nobody evaluates: an extension element right after the root's start tag
				if loc := reFirstStartTag.FindSubmatchIndex(xmlb); loc != nil && !bytes.HasSuffix(bytes.TrimSpace(xmlb[loc[0]:loc[1]]), []byte("/>")) {
					ins := append([]byte("<x:note xmlns:x=\"urn:example:note\">"), append(ref, []byte("</x:note>")...)...)
					// after the Issuer element when there is one (schema order), else first child
					if i := bytes.Index(xmlb, []byte("Issuer>")); i >= 0 {
						if j := bytes.Index(xmlb[i+7:], []byte("Issuer>")); j >= 0 {
							k := i + 7 + j + 7
							xmlb = append(append(append([]byte(nil), xmlb[:k]...), ins...), xmlb[k:]...)
							break
						}
					}
					xmlb = append(append(append([]byte(nil), xmlb[:loc[1]]...), ins...), xmlb[loc[1]:]...)
				}
			}
		case "unquoted-attr":
			if loc := reVersionAttr.FindIndex(xmlb); loc != nil {
				xmlb = append(append(append([]byte(nil), xmlb[:loc[0]]...), []byte("Version=2.0")...), xmlb[loc[1]:]...)
			} else if loc := reFirstStartTag.FindSubmatchIndex(xmlb); loc != nil {
				xmlb = append(append(append([]byte(nil), xmlb[:loc[2]]...), []byte(" note=unquoted")...), xmlb[loc[2]:]...)
			}
		case "attr-without-value":
			if loc := reFirstStartTag.FindSubmatchIndex(xmlb); loc != nil {
				xmlb = append(append(append([]byte(nil), xmlb[:loc[2]]...), []byte(" standalone")...), xmlb[loc[2]:]...)
			}
		case "not-xml":
			xmlb = []byte("this is not xml at all")
		case "empty-xml":
			xmlb = nil
		case "mutate":
			xmlb = applyByteMutation(xmlb, d.Param)
		}
	}
	tr := c.Tr
	path := c.Spec.IdP.Route("sso")
	hr, signed, err := spsim.Encode(path, xmlb, tr, c.RSign)
	if err != nil {
		return hr, nil, err
	}
	edit := func(f func(params string) string) {
		if tr.Binding == "redirect" {
			hr.RawQuery = f(hr.RawQuery)
		} else {
			hr.Body = f(hr.Body)
		}
	}
	setParam := func(params, name, val string) string {
		parts := strings.Split(params, "&")
		found := false
		for i, p := range parts {
			if strings.HasPrefix(p, name+"=") {
				parts[i] = name + "=" + val
				found = true
			}
		}
		if !found {
			parts = append(parts, name+"="+val)
		}
		return strings.Join(parts, "&")
	}
	getParam := func(params, name string) string {
		for _, p := range strings.Split(params, "&") {
			if strings.HasPrefix(p, name+"=") {
				return p[len(name)+1:]
			}
		}
		return ""
	}
	for _, d := range c.Defects {
		switch d.Name {
		case "bad-base64":
			edit(func(p string) string { return setParam(p, "SAMLRequest", "%21%21"+getParam(p, "SAMLRequest")) })
		case "bad-deflate":
			// valid base64 of bytes that are not a DEFLATE stream (0xFF.. is a reserved block type)
			edit(func(p string) string {
				return setParam(setParam(p, "SAMLRequest", qesc(base64.StdEncoding.EncodeToString([]byte("\xff\xff\xff\xffnot deflate")))), "SAMLEncoding", qesc(spsim.EncodingDeflate))
			})
		case "base64-trailing-garbage":
			edit(func(p string) string { return setParam(p, "SAMLRequest", getParam(p, "SAMLRequest")+d.Param) })
		case "base64-middle-garbage":
			edit(func(p string) string {
				v := getParam(p, "SAMLRequest")
				return setParam(p, "SAMLRequest", v[:len(v)/2]+d.Param+v[len(v)/2:])
			})
		case "base64-url-alphabet":
			edit(func(p string) string {
				v := getParam(p, "SAMLRequest")
				v2 := strings.NewReplacer("%2B", "-", "%2F", "_", "%2b", "-", "%2f", "_").Replace(v)
				if v2 == v {
					v2 = v + "-_"
				}
				return setParam(p, "SAMLRequest", v2)
			})
		case "unknown-encoding":
			edit(func(p string) string { return setParam(p, "SAMLEncoding", qesc(d.Param)) })
		case "sigalg-without-signature":
			edit(func(p string) string {
				parts := strings.Split(p, "&")
				var keep []string
				for _, x := range parts {
					if !strings.HasPrefix(x, "Signature=") && !strings.HasPrefix(x, "SigAlg=") {
						keep = append(keep, x)
					}
				}
				return strings.Join(keep, "&") + "&SigAlg=" + qesc(world.AlgRSASHA256)
			})
		case "empty-samlrequest":
			edit(func(p string) string { return setParam(p, "SAMLRequest", "") })
		case "missing-samlrequest":
			edit(func(p string) string {
				var keep []string
				for _, x := range strings.Split(p, "&") {
					if !strings.HasPrefix(x, "SAMLRequest=") {
						keep = append(keep, x)
					}
				}
				return strings.Join(keep, "&")
			})
		}
	}
	hr.Host = c.Host
	hr.Headers = append(hr.Headers, c.Headers...)
	return hr, signed, nil
}

// ---- independent evaluation of what was sent ----

type Sent struct {
	InQuery         bool // the message parameter travelled in the URL query
	Ambiguous       []string
	Params          map[string]string
	XML             []byte
	Doc             *xt.Doc
	Violated        []string // validity conditions of C06 that the message violates (must be rejected)
	Unasserted      []string // conditions on which the statement is silent / boundaries
	Issuer          string
	IssuerSP        int // index into spec.SPs, -1 none
	ID              string
	HasDSig         bool
	ProtocolBinding string
}

func (s *Sent) violated(f string, a ...any) { s.Violated = append(s.Violated, fmt.Sprintf(f, a...)) }
func (s *Sent) unasserted(f string, a ...any) {
	s.Unasserted = append(s.Unasserted, fmt.Sprintf(f, a...))
}

func pctDecode(s string) (string, bool) {
	var b strings.Builder
	for i := 0; i < len(s); i++ {
		switch s[i] {
		case '+':
			b.WriteByte(' ')
		case '%':
			if i+2 >= len(s) || !isHex(s[i+1]) || !isHex(s[i+2]) {
				return "", false
			}
			b.WriteByte(unhex(s[i+1])<<4 | unhex(s[i+2]))
			i += 2
		default:
			b.WriteByte(s[i])
		}
	}
	return b.String(), true
}

func isHex(c byte) bool {
	return (c >= '0' && c <= '9') || (c >= 'a' && c <= 'f') || (c >= 'A' && c <= 'F')
}
func unhex(c byte) byte {
	switch {
	case c >= '0' && c <= '9':
		return c - '0'
	case c >= 'a' && c <= 'f':
		return c - 'a' + 10
	}
	return c - 'A' + 10
}

// splitParams reads a query string / form body the way the URL standard does, keeping every occurrence.
func splitParams(raw string) (map[string][]string, bool) {
	out := map[string][]string{}
	ok := true
	if raw == "" {
		return out, true
	}
	for _, part := range strings.Split(raw, "&") {
		if part == "" {
			continue
		}
		k, v, _ := strings.Cut(part, "=")
		kd, ok1 := pctDecode(k)
		vd, ok2 := pctDecode(v)
		if !ok1 || !ok2 || strings.Contains(part, ";") {
			ok = false
			continue
		}
		out[kd] = append(out[kd], vd)
	}
	return out, ok
}

var (
	reDateTimeZ      = regexp.MustCompile(`^(\d{4})-(\d{2})-(\d{2})T(\d{2}):(\d{2}):(\d{2})(\.\d+)?Z$`)
	reDateTimeOffset = regexp.MustCompile(`^(\d{4}-\d{2}-\d{2}T\d{2}:\d{2}:\d{2})(\.\d+)?([+-])(\d{2}):(\d{2})$`)
	// other lexical forms of a timestamp on which XML Schema and lenient parsers differ (zone offsets, no zone, comma fractions)
	reDateTimeAny = regexp.MustCompile(`^-?\d{4,}-\d{2}-\d{2}T\d{2}:\d{2}:\d{2}([.,]\d+)?(Z|[+-]\d{2}:\d{2})?$`)
)

// parseInstant understands the UTC "Z" form with any number of fractional digits.
// kind: "ok", "other-form" (an xs:dateTime in a form the statement does not require), "garbage".
func parseInstant(s string) (time.Time, string) {
	if reDateTimeZ.MatchString(s) {
		base := s[:19]
		t, err := time.Parse("2006-01-02T15:04:05", base)
		if err != nil {
			return time.Time{}, "garbage" // month 13, day 32, ...
		}
		frac := strings.TrimSuffix(s[19:], "Z")
		if frac != "" {
			digits := frac[1:]
			if len(digits) > 9 {
				digits = digits[:9]
			}
			for len(digits) < 9 {
				digits += "0"
			}
			var ns int
			fmt.Sscanf(digits, "%d", &ns)
			t = t.Add(time.Duration(ns))
		}
		return t, "ok"
	}
	if m := reDateTimeOffset.FindStringSubmatch(s); m != nil {
		// an xs:dateTime with a numeric zone offset names a definite instant, whether or not the IdP supports the form:
		// accepting a request whose real instant is outside the window is wrong either way
		base, err := time.Parse("2006-01-02T15:04:05", m[1])
		if err != nil {
			return time.Time{}, "garbage"
		}
		var hh, mm int
		fmt.Sscanf(m[4], "%d", &hh)
		fmt.Sscanf(m[5], "%d", &mm)
		if hh > 14 || mm > 59 {
			return time.Time{}, "garbage"
		}
		off := time.Duration(hh)*time.Hour + time.Duration(mm)*time.Minute
		if m[3] == "+" {
			off = -off
		}
		return base.Add(off), "ok"
	}
	if reDateTimeAny.MatchString(s) {
		return time.Time{}, "other-form"
	}
	return time.Time{}, "garbage"
}

func urlEquivalentButDifferent(a, b string) bool {
	if a == b {
		return false
	}
	norm := func(u string) string {
		scheme, rest, ok := strings.Cut(u, "://")
		if !ok {
			return u
		}
		host, path, _ := strings.Cut(rest, "/")
		host = strings.ToLower(host)
		host = strings.TrimSuffix(strings.TrimSuffix(host, ":443"), ":80")
		return strings.ToLower(scheme) + "://" + host + "/" + path
	}
	return norm(a) == norm(b)
}

func goXMLScanOK(b []byte) bool {
	d := xml.NewDecoder(bytes.NewReader(b))
	depth, seenRoot := 0, false
	for {
		tok, err := d.Token()
		if err != nil {
			return false
		}
		switch tok.(type) {
		case xml.StartElement:
			depth++
			seenRoot = true
		case xml.EndElement:
			depth--
			if depth == 0 && seenRoot {
				return true
			}
		}
	}
}

// evalSent evaluates the C06 validity conditions on the request as sent.
func evalSent(spec world.Spec, regOK func(entity string) bool, host string, hr obs.HTTPReq, now time.Time) *Sent {
	s := &Sent{Params: map[string]string{}, IssuerSP: -1}
	q, okq := splitParams(hr.RawQuery)
	var f map[string][]string
	okf := true
	if hr.Method == "POST" || hr.Method == "PUT" || hr.Method == "PATCH" {
		if strings.HasPrefix(hr.ContentType, "application/x-www-form-urlencoded") {
			f, okf = splitParams(hr.Body)
		}
	}
	if !okq || !okf {
		s.unasserted("parameter syntax on which form parsers differ")
	}
	for _, name := range []string{"SAMLRequest", "SAMLEncoding", "RelayState", "SigAlg", "Signature"} {
		var vals []string
		vals = append(vals, f[name]...)
		vals = append(vals, q[name]...)
		if len(vals) > 1 {
			same := true
			for _, v := range vals {
				if v != vals[0] {
					same = false
				}
			}
			if !same {
				s.Ambiguous = append(s.Ambiguous, name)
			}
		}
		if len(vals) > 0 {
			s.Params[name] = vals[0]
		}
	}
	_, s.InQuery = q["SAMLRequest"]
	if len(s.Ambiguous) > 0 {
		// evaluation continues on the first value (body before query), the convention of HTML form handling
		s.unasserted("parameters given several times with different values: %v", s.Ambiguous)
	}
	msg := s.Params["SAMLRequest"]
	if msg == "" {
		s.violated("empty-samlrequest")
		return s
	}
	if s.Params["SigAlg"] != "" && s.Params["Signature"] == "" {
		s.violated("sigalg-without-signature")
	}
	deflate := false
	switch enc := s.Params["SAMLEncoding"]; enc {
	case "":
		deflate = s.InQuery
	case spsim.EncodingDeflate:
		deflate = true
	default:
		s.violated("unknown-encoding")
		return s
	}
	raw, err := base64.StdEncoding.DecodeString(msg)
	if err != nil {
		s.violated("bad-base64")
		return s
	}
	if deflate {
		r := flate.NewReader(bytes.NewReader(raw))
		x, err := io.ReadAll(io.LimitReader(r, 64<<20))
		if err != nil {
			s.violated("bad-deflate")
			return s
		}
		raw = x
	}
	s.XML = raw
	doc, err := xt.Parse(raw)
	if err != nil {
		if goXMLScanOK(raw) {
			s.unasserted("ill-formed XML that a lenient streaming decoder reads: %v", err)
		} else {
			s.violated("not-well-formed")
		}
		return s
	}
	s.Doc = doc
	root := doc.Root
	if root.Space != world.NSSAMLP || root.Local != "AuthnRequest" {
		s.violated("wrong-root")
		return s
	}
	s.HasDSig = root.Child(world.NSDS, "Signature") != nil
	s.ProtocolBinding = root.AttrV("ProtocolBinding")
	issuers := root.ChildrenNamed(world.NSSAML, "Issuer")
	switch {
	case len(issuers) == 0:
		s.violated("issuer-absent")
	case len(issuers) > 1:
		s.unasserted("several Issuer elements")
		s.Issuer = issuers[len(issuers)-1].Text()
	default:
		s.Issuer = issuers[0].Text()
		if len(issuers[0].Elems()) > 0 {
			s.unasserted("Issuer with element content")
		}
		if s.Issuer == "" {
			s.violated("issuer-empty")
		}
	}
	if len(issuers) >= 1 && s.Issuer != "" {
		for i, sp := range spec.SPs {
			if sp.EntityID == s.Issuer && regOK(sp.EntityID) {
				s.IssuerSP = i
			}
		}
		if s.IssuerSP < 0 && len(issuers) == 1 {
			s.violated("issuer-unregistered")
		}
	}
	id, hasID := root.Attr("ID")
	s.ID = id
	if !hasID || id == "" {
		s.violated("id-missing")
	}
	if v, ok := root.Attr("Version"); !ok || v == "" {
		s.violated("version-missing")
	}
	if dest, ok := root.Attr("Destination"); ok {
		adv := spec.IdP.Advertised("sso", host)
		switch {
		case dest == "":
			s.unasserted("empty Destination attribute")
		case dest == adv:
		case urlEquivalentButDifferent(dest, adv):
			s.unasserted("Destination equivalent to the advertised location under URL normalisation")
		default:
			s.violated("destination-not-advertised")
		}
	}
	conds := root.ChildrenNamed(world.NSSAML, "Conditions")
	if len(conds) > 1 {
		s.unasserted("several Conditions elements")
	}
	if len(conds) == 1 {
		const margin = 3 * time.Second
		if nb := conds[0].AttrV("NotBefore"); nb != "" {
			t, kind := parseInstant(nb)
			switch kind {
			case "garbage":
				s.violated("unparseable-notbefore")
			case "other-form":
				s.unasserted("NotBefore in a lexical form outside the required one")
			default:
				switch {
				case t.After(now.Add(margin)):
					s.violated("notbefore-in-future")
				case t.After(now.Add(-margin)):
					s.unasserted("NotBefore within 3 s of now")
				}
			}
		}
		if na := conds[0].AttrV("NotOnOrAfter"); na != "" {
			t, kind := parseInstant(na)
			switch kind {
			case "garbage":
				s.violated("unparseable-notonorafter")
			case "other-form":
				s.unasserted("NotOnOrAfter in a lexical form outside the required one")
			default:
				switch {
				case t.Before(now.Add(-margin)):
					s.violated("notonorafter-passed")
				case t.Before(now.Add(margin)):
					s.unasserted("NotOnOrAfter within 3 s of now")
				}
			}
		}
	}
	return s
}

// ---- request generation helpers ----

var idAlphabet = []string{"_abc123", "id-1", "_6c3a4f8e-29b4-4f5b-bb3e-0123456789ab", "a", "_" + strings.Repeat("x", 60), "ID.with.dots", "_ünï"}

func genID(t *rapid.T, label string) string {
	return rapid.SampledFrom(idAlphabet).Draw(t, label) + fmt.Sprintf("-%d", rapid.IntRange(0, 999).Draw(t, label+"n"))
}

var relayStates = []string{A, "", "rs-plain", strings.Repeat("r", 79), strings.Repeat("é", 40), strings.Repeat("r", 81), strings.Repeat("r", 255), strings.Repeat("r", 256), strings.Repeat("r", 1024), "https://sp.example/return?a=1&b=2", "x y+z%20", "<script>alert(1)</script>", "\"quoted\" 'single'", "ünï€𝄞", "token=abc==", strings.Repeat("r", 80),
	// white space at the ends is part of the value
	" lead", "trail ", " both ", "line-end\n", "\ttab-lead", "crlf-end\r\n"}

// genValidAuthn draws a request the statement of C06/C07 deems valid for SP sp of spec.
func genValidAuthn(t *rapid.T, spec world.Spec, sp int, host string) spsim.AuthnReq {
	r := spsim.NewAuthnReq(genID(t, "id"), spec.SPs[sp].EntityID)
	r.IssueInstant = spsim.Rel(-rapid.IntRange(0, 30).Draw(t, "issued"), rapid.IntRange(0, 9).Draw(t, "frac"), "")
	opt := func(label, v string) string {
		if rapid.Bool().Draw(t, label) {
			return v
		}
		return A
	}
	r.Destination = opt("dest", spec.IdP.Advertised("sso", host))
	r.Consent = opt("consent", "urn:oasis:names:tc:SAML:2.0:consent:unspecified")
	r.ProviderName = opt("provname", "Some \"SP\" & Co")
	r.ForceAuthn = rapid.SampledFrom([]string{A, "true", "false", "1", "0"}).Draw(t, "force")
	r.IsPassive = rapid.SampledFrom([]string{A, "false", "0"}).Draw(t, "passive")
	r.IssuerFormat = opt("issfmt", "urn:oasis:names:tc:SAML:2.0:nameid-format:entity")
	r.AttrConsumingIndex = opt("aci", "1")
	if rapid.Bool().Draw(t, "nidp") {
		r.NameIDPolicy = &spsim.NameIDPolicy{
			Format:          rapid.SampledFrom([]string{A, "urn:oasis:names:tc:SAML:1.1:nameid-format:emailAddress", "urn:oasis:names:tc:SAML:2.0:nameid-format:persistent"}).Draw(t, "nidfmt"),
			AllowCreate:     rapid.SampledFrom([]string{A, "true", "false", "1", "0"}).Draw(t, "allowcreate"),
			SPNameQualifier: opt("spnq", spec.SPs[sp].EntityID),
		}
	}
	if rapid.Bool().Draw(t, "conds") {
		c := &spsim.Conditions{NotBefore: A, NotOnOrAfter: A}
		if rapid.Bool().Draw(t, "nb") {
			// NotBefore = the moment of stamping is what SP libraries emit; the IdP handles the request later
			c.NotBefore = spsim.Rel(-rapid.SampledFrom([]int{0, 0, 5, 60, 3600, 86400 * 30}).Draw(t, "nbage"), rapid.IntRange(0, 9).Draw(t, "nbfrac"), "")
		}
		if rapid.Bool().Draw(t, "noa") {
			c.NotOnOrAfter = spsim.Rel(rapid.SampledFrom([]int{60, 300, 3600, 86400 * 365}).Draw(t, "noaage"), rapid.IntRange(0, 9).Draw(t, "noafrac"), "")
		}
		r.Conditions = c
	}
	if rapid.Bool().Draw(t, "rac") {
		r.RAC = &spsim.RAC{Comparison: rapid.SampledFrom([]string{A, "exact", "minimum"}).Draw(t, "cmp"), ClassRefs: []string{"urn:oasis:names:tc:SAML:2.0:ac:classes:PasswordProtectedTransport"}}
	}
	r.Extensions = rapid.IntRange(0, 3).Draw(t, "ext") == 0
	r.Scoping = rapid.IntRange(0, 3).Draw(t, "scoping") == 0
	if rapid.IntRange(0, 3).Draw(t, "subject") == 0 {
		r.Subject = "someone@users.example"
	}
	return r
}

// maybePassive turns one request in six into a passive one (IsPassive true / 1). An IdP may answer those with NoPassive or go
// on to the login page, so the acceptance check (C07) does not draw them; every other statement holds for them too.
func maybePassive(t *rapid.T, r *spsim.AuthnReq) {
	if rapid.IntRange(0, 5).Draw(t, "passive-true") == 0 {
		r.IsPassive = rapid.SampledFrom([]string{"true", "1"}).Draw(t, "passive-form")
	}
}

// genTransport draws a transport in Go-canonical percent-encoding (what the IdP is known to accept).
func genTransport(t *rapid.T, binding string) spsim.Transport {
	tr := spsim.Transport{Binding: binding, Plus: true, Encoding: A, RelayState: rapid.SampledFrom(relayStates).Draw(t, "relaystate")}
	if binding == "redirect" && rapid.Bool().Draw(t, "explicitenc") {
		tr.Encoding = spsim.EncodingDeflate
	}
	if binding == "redirect" && rapid.IntRange(0, 5).Draw(t, "method") == 0 {
		// a user agent (a link checker, a prefetcher) that asks for the headers only: whatever the IdP makes of that, the
		// request has one outcome
		tr.Method = "HEAD"
	}
	return tr
}

// signFor returns signing settings that satisfy a signing requirement for SP sp with the given binding.
func signFor(t *rapid.T, spec world.Spec, sp int, binding string) (spsim.Signing, *spsim.Signing) {
	keys := spec.SPs[sp].KeyNames
	if len(keys) == 0 {
		return spsim.Signing{}, nil
	}
	alg := rapid.SampledFrom([]string{world.AlgRSASHA1, world.AlgRSASHA256}).Draw(t, "sigalg")
	if binding == "redirect" {
		return spsim.Signing{}, &spsim.Signing{Alg: alg, KeyName: keys[0]}
	}
	return spsim.Signing{Alg: alg, KeyName: keys[0], KeyInfo: true, CertLayout: "plain", DSPrefix: rapid.SampledFrom([]string{"ds", "dsig"}).Draw(t, "dsprefix"),
		Digest: rapid.SampledFrom([]string{"", "http://www.w3.org/2000/09/xmldsig#sha1"}).Draw(t, "digest")}, nil
}

// signingRequired reports whether configuration demands signed AuthnRequests from SP sp.
func signingRequired(spec world.Spec, sp int) bool {
	return spec.IdP.WantsSigned() || (sp >= 0 && spec.SPs[sp].RequiresSigned())
}

// createCalls returns the successful CreateAuthRequest calls of the log.
func createCalls(w *world.World) (ok []world.Call, failed []world.Call) {
	for _, c := range w.Store.CallsOf("CreateAuthRequest") {
		if c.Err == "" {
			ok = append(ok, c)
		} else {
			failed = append(failed, c)
		}
	}
	return
}

// applyByteMutation applies "kind:pos:arg" (pos is taken modulo the length) to b.
func applyByteMutation(b []byte, spec string) []byte {
	parts := strings.Split(spec, ":")
	if len(parts) != 3 || len(b) == 0 {
		return b
	}
	var pos, arg int
	fmt.Sscanf(parts[1], "%d", &pos)
	fmt.Sscanf(parts[2], "%d", &arg)
	pos %= len(b)
	b = append([]byte(nil), b...)
	switch parts[0] {
	case "flip":
		b[pos] ^= byte(1 << (arg % 8))
	case "delete":
		n := arg%40 + 1
		if pos+n > len(b) {
			n = len(b) - pos
		}
		b = append(b[:pos], b[pos+n:]...)
	case "insert":
		b = append(b[:pos], append([]byte(c09Junk[arg%len(c09Junk)]), b[pos:]...)...)
	case "truncate":
		b = b[:pos]
	case "deltoken":
		toks := []string{"Issuer", "ID=", "Version=", "Destination=", "Conditions", "NotBefore=", "NotOnOrAfter=", "samlp:", "saml:", "xmlns", "AuthnRequest", "2.0", "https://", "Z\""}
		b = []byte(strings.Replace(string(b), toks[arg%len(toks)], "", 1))
	}
	return b
}

func genByteMutation(t *rapid.T) Defect {
	kind := rapid.SampledFrom([]string{"flip", "delete", "insert", "truncate", "deltoken"}).Draw(t, "mutkind")
	return Defect{Name: "mutate", Param: fmt.Sprintf("%s:%d:%d", kind, rapid.IntRange(0, 4000).Draw(t, "mutpos"), rapid.IntRange(0, 63).Draw(t, "mutarg"))}
}

// effHost is the host the issuer is derived from for a case.
func effHost(c SSOCase) string {
	host := c.Host
	if host == "" {
		host = defHost
	}
	if host == obs.NoHost {
		host = ""
	}
	if c.Spec.IdP.IssuerMode == "forwarded" {
		for _, h := range c.Headers {
			if strings.EqualFold(h[0], "Forwarded") {
				for _, el := range strings.Split(h[1], ";") {
					if v, ok := strings.CutPrefix(strings.TrimSpace(el), "host="); ok {
						return strings.Trim(v, "\"")
					}
				}
			}
		}
	}
	return host
}

// runPrelude serves other tenants' requests on the same provider first.
func runPrelude(w *world.World, spec world.Spec, hosts []string) {
	for i, h := range hosts {
		obs.Do(w.Handler, obs.HTTPReq{Method: "GET", Path: spec.IdP.Route("metadata"), Host: h})
		a := spsim.NewAuthnReq(fmt.Sprintf("_prelude-%d", i), spec.SPs[0].EntityID)
		a.Destination = spec.IdP.Advertised("sso", h)
		hr, _, _ := spsim.Encode(spec.IdP.Route("sso"), xt.Write(a.Tree(plainStyle), plainStyle.W), spsim.Transport{Binding: "post", Plus: true, Encoding: A, RelayState: "prelude"}, nil)
		hr.Host = h
		obs.Do(w.Handler, hr)
		q := spsim.NewAttrQuery(fmt.Sprintf("_preludeq-%d", i), spec.SPs[0].EntityID, "login0@users.example")
		q.Destination = spec.IdP.Advertised("attribute", h)
		hq, _, _ := spsim.Encode(spec.IdP.Route("attribute"), xt.Write(spsim.Envelope(q.QueryTree(plainStyle), "soap"), plainStyle.W), spsim.Transport{Binding: "soap"}, nil)
		hq.Host = h
		obs.Do(w.Handler, hq)
	}
	w.Store.ResetLog()
}

var preludeHosts = []string{"other-tenant.idp.example", "tenant-b.idp.example:8443", "third.example"}

// genPrelude draws prelude hosts for host-derived issuer configurations.
func genPrelude(t *rapid.T, spec world.Spec, own string) []string {
	if spec.IdP.IssuerMode == "static" || rapid.Bool().Draw(t, "noprelude") {
		return nil
	}
	var out []string
	n := rapid.IntRange(1, 2).Draw(t, "nprelude")
	for i := 0; i < n; i++ {
		h := rapid.SampledFrom(preludeHosts).Draw(t, "preludehost")
		if h != own {
			out = append(out, h)
		}
	}
	return out
}
