package props

// C13 — Logout responses go to the registered party and succeed only if valid.

import (
	"bytes"
	"compress/flate"
	"encoding/base64"
	"fmt"
	"io"
	"net/url"
	"regexp"
	"strings"
	"sync"
	"testing"
	"time"

	"pgregory.net/rapid"

	"verif/harness/ev"
	"verif/harness/obs"
	"verif/harness/spsim"
	"verif/harness/world"
	"verif/harness/xt"
)

const c13Rule = "rapid: LogoutRequests (any Issuer: registered / unregistered / absent / empty / look-alike; IDs and RelayState from an XML-legal alphabet with metacharacters, RelayStates of 79 to 4000 bytes; IssueInstant and NotOnOrAfter offsets from 1 s to 10 years in both directions and garbage lexical forms; optional NameID, SessionIndex, Reason, Destination; POST or Redirect transport with SAMLEncoding absent / DEFLATE / unknown; decode-level defects) against SP metadata with 0..3 SingleLogoutService entries and IdP issuer / SLO endpoint / time-format configurations. Oracle: status Success => the harness's own decoding of the sent bytes succeeds, the Issuer is a registered entity, IssueInstant is not in the future and NotOnOrAfter has not passed (3 s margin unasserted); InResponseTo = request ID whenever the harness could decode the request; Issuer = IdP entity ID for the request host in every reply; a form reply targets the first SLO Location registered for the issuing SP with Destination equal to it and the RelayState field equal to the submitted one; anything else is one XML document in the body. Non-trivial: a time-window or issuer condition is violated, or the SP has >= 2 SLO entries. Distinct by (condition vector, SLO shape, transport, reply kind)."

type C13Case struct {
	Spec    world.Spec      `json:"spec"`
	Host    string          `json:"host"`
	SP      int             `json:"sp"`
	Req     spsim.LogoutReq `json:"req"`
	Style   spsim.XMLStyle  `json:"style"`
	Tr      spsim.Transport `json:"transport"`
	Defects []Defect        `json:"defects,omitempty"`
	Noise   bool            `json:"noise,omitempty"`
	// ReqHeaders: header lines of the HTTP request (what the user agent - or a script - announces about itself changes neither
	// the verdict nor where the response goes)
	ReqHeaders [][2]string `json:"request_headers,omitempty"`
	// Hist: the provider used the logout endpoint a moment ago - under an earlier registration (other logout locations, or none),
	// or it was deregistered since. What counts is what is registered when the request under test arrives.
	Hist *History `json:"history,omitempty"`
}

var c13ReqHeaders = [][2]string{{"Accept", "application/xml"}, {"Accept", "text/xml, application/samlmetadata+xml"}, {"Accept", "application/json"}, {"Accept", "*/*;q=0"}, {"Accept", ""},
	{"Accept", "text/html,application/xhtml+xml,application/xml;q=0.9,*/*;q=0.8"}, {"X-Requested-With", "XMLHttpRequest"}, {"User-Agent", "curl/8.0"}, {"Accept-Language", "de"}, {"Origin", "https://elsewhere.example"},
	{"Referer", "https://elsewhere.example/x"}, {"Prefer", "return=minimal"}, {"Sec-Fetch-Mode", "cors"}, {"Content-Language", "en"}}

var c13Defects = []Defect{
	{Name: "issuer-absent"}, {Name: "issuer-empty"}, {Name: "issuer-unregistered"}, {Name: "issuer-case"}, {Name: "issuer-blank"}, {Name: "issuer-slash"}, {Name: "issuer-slash"}, {Name: "issuer-suffix", Param: "/."}, {Name: "issuer-suffix", Param: "?"}, {Name: "issuer-suffix", Param: "#"},
	{Name: "issued-future", Param: "10"}, {Name: "issued-future", Param: "3600"}, {Name: "issued-future", Param: "315360000"}, {Name: "issued-future", Param: "1"},
	{Name: "noa-past", Param: "10"}, {Name: "noa-past", Param: "3600"}, {Name: "noa-past", Param: "315360000"}, {Name: "noa-past", Param: "1"},
	{Name: "issued-garbage", Param: "now"}, {Name: "issued-garbage", Param: "dateonly"}, {Name: "issued-garbage", Param: "month13"}, {Name: "issued-garbage", Param: "lowerz"},
	{Name: "noa-garbage", Param: "now"}, {Name: "noa-garbage", Param: "space"}, {Name: "noa-garbage", Param: "offset"},
	{Name: "issued-future-offset", Param: "1800/0/offsetneg"}, {Name: "issued-future-offset", Param: "1800/0/offset2"}, {Name: "noa-past-offset", Param: "1800/0/offset2"}, {Name: "noa-past-offset", Param: "1800/0/offsetneg"},
	{Name: "issued-abs", Param: "9999-12-31T23:59:59Z"}, {Name: "issued-abs", Param: "2400-01-01T00:00:00Z"}, {Name: "noa-abs", Param: "1601-01-01T00:00:00Z"}, {Name: "noa-abs", Param: "0001-01-01T00:00:00Z"},
	{Name: "issued-absent"}, {Name: "id-absent"},
	{Name: "bad-base64"}, {Name: "bad-deflate"}, {Name: "truncated-xml"}, {Name: "not-xml"}, {Name: "wrong-root", Param: "AuthnRequest"},
	// not well-formed in ways a lenient tokenizer recovers from
	{Name: "unquoted-attr"}, {Name: "attr-without-value"}, {Name: "bad-entity", Param: "&nbsp;"}, {Name: "bad-entity", Param: "&copy;"}, {Name: "bad-entity", Param: "a & b"}, {Name: "bad-entity", Param: "&#xZZ;"}, {Name: "unknown-encoding", Param: "urn:example:enc"},
	{Name: "empty-samlrequest"},
}

func genC13Case(t *rapid.T) C13Case {
	spec := genSSOWorld(t, worldOpts{minACS: 1, maxACS: 1, issuerModes: []string{"static", "static", "host"}, maxSPs: 3})
	for i := range spec.SPs {
		n := rapid.IntRange(0, 3).Draw(t, "nslo")
		spec.SPs[i].SLO = nil
		for k := 0; k < n; k++ {
			loc := fmt.Sprintf(rapid.SampledFrom([]string{"https://sp%d.example/slo/%d", "https://sp%d.example/slo/%d?a=1&b=2", "https://sp%d.example/slo/%d/\"q\"", "https://sp%d.example/slö/%d"}).Draw(t, "sloloc"), i, k)
			spec.SPs[i].SLO = append(spec.SPs[i].SLO, world.SLOSpec{Binding: rapid.SampledFrom([]string{world.BindPost, world.BindRedirect, world.BindSOAP}).Draw(t, "slobinding"), Location: loc,
				ResponseLocation: rapid.SampledFrom([]string{"", "", loc, loc + "/response", "https://responses.example/slo"}).Draw(t, "sloresponselocation")})
		}
	}
	if rapid.IntRange(0, 2).Draw(t, "slopath") == 0 {
		spec.IdP.Endpoints = map[string]world.EndpointSpec{"slo": {Path: rapid.SampledFrom([]string{"logout", "/single/logout"}).Draw(t, "slopathv")}}
	}
	spec.IdP.TimeFormat = rapid.SampledFrom([]string{"", "", "", time.RFC3339, "2006-01-02T15:04:05.000000000Z"}).Draw(t, "timeformat")
	c := C13Case{Spec: spec, Host: rapid.SampledFrom(reqHosts).Draw(t, "host")}
	c.SP = rapid.IntRange(0, len(spec.SPs)-1).Draw(t, "sp")
	l := spsim.NewLogoutReq(xt.LegalString(3).Draw(t, "id")+"x", spec.SPs[c.SP].EntityID, rapid.SampledFrom([]string{A, "usermark0", "", "a&b"}).Draw(t, "nameid"))
	l.IssueInstant = spsim.Rel(-rapid.SampledFrom([]int{5, 60, 3600, 86400 * 400}).Draw(t, "issued"), rapid.SampledFrom([]int{0, 0, 3, 6, 9}).Draw(t, "frac"), "")
	if rapid.Bool().Draw(t, "noa") {
		l.NotOnOrAfter = spsim.Rel(rapid.SampledFrom([]int{10, 300, 86400}).Draw(t, "noaoff"), rapid.SampledFrom([]int{0, 3, 9}).Draw(t, "noafrac"), "")
	}
	if rapid.Bool().Draw(t, "dest") {
		l.Destination = spec.IdP.Advertised("slo", c.Host)
	}
	if rapid.Bool().Draw(t, "reason") {
		l.Reason = "urn:oasis:names:tc:SAML:2.0:logout:user"
	}
	// the Version attribute in other lexical forms (what an IdP makes of them is its business; its reply is held to the same rules)
	l.Version = rapid.SampledFrom([]string{"2.0", "2.0", "2.0", "2.0", "1.1", "2.1", "2", " 2.0", "", A}).Draw(t, "version")
	if rapid.IntRange(0, 2).Draw(t, "qualifier") == 0 {
		l.SPNameQualifier = spec.SPs[rapid.IntRange(0, len(spec.SPs)-1).Draw(t, "qualsp")].EntityID
		if rapid.Bool().Draw(t, "namequal") {
			l.NameQualifier = "https://idp.example"
		}
	}
	for i := 0; i < rapid.IntRange(0, 2).Draw(t, "nsess"); i++ {
		l.SessionIndex = append(l.SessionIndex, fmt.Sprintf("_s%d", i))
	}
	if rapid.IntRange(0, 4).Draw(t, "history") == 0 {
		c.Hist = genHistory(t, spec, c.SP, func(e *world.SPSpec) {
			switch rapid.IntRange(0, 2).Draw(t, "earlier-slo") {
			case 0:
				e.SLO = nil
			case 1:
				e.SLO = []world.SLOSpec{{Binding: world.BindPost, Location: fmt.Sprintf("https://old.sp%d.example/slo/moved-since", c.SP)}}
			default:
				e.SLO = append([]world.SLOSpec{{Binding: world.BindPost, Location: fmt.Sprintf("https://old.sp%d.example/slo/first-then", c.SP)}}, e.SLO...)
			}
		}, true)
		c.Hist.Warmups = append(c.Hist.Warmups, "logout")
	}
	c.Style = genXMLStyle(t)
	for i := rapid.IntRange(-2, 2).Draw(t, "nreqheaders"); i > 0; i-- {
		c.ReqHeaders = append(c.ReqHeaders, rapid.SampledFrom(c13ReqHeaders).Draw(t, "reqheader"))
	}
	binding := rapid.SampledFrom([]string{"post", "redirect"}).Draw(t, "transport")
	c.Tr = spsim.Transport{Binding: binding, Plus: true, Encoding: A, RelayState: xt.LegalString(5).Draw(t, "relay")}
	if rapid.IntRange(0, 3).Draw(t, "norelay") == 0 {
		c.Tr.RelayState = A
	} else if rapid.IntRange(0, 4).Draw(t, "relay-url") == 0 {
		// the page to return to, as a URL: on the host of one of the provider's own endpoints, or anywhere
		acs := spec.SPs[c.SP].ACS[0].Location
		if u, err := url.Parse(acs); err == nil && u.Host != "" && rapid.Bool().Draw(t, "relay-own-host") {
			c.Tr.RelayState = u.Scheme + "://" + u.Host + "/after-logout?page=home"
		} else {
			c.Tr.RelayState = rapid.SampledFrom([]string{"https://elsewhere.example/return", "//elsewhere.example/x", "https://idp.example/"}).Draw(t, "relay-urlv")
		}
	} else if rapid.IntRange(0, 3).Draw(t, "relay-long") == 0 {
		// lengths around the 80 bytes the bindings specification asks requesters to stay below, and far beyond: the value is the
		// requester's, it comes back as it came
		n := rapid.SampledFrom([]int{79, 80, 81, 107, 255, 256, 1024, 4000}).Draw(t, "relay-len")
		v := c.Tr.RelayState + "|"
		for len(v) < n {
			v += "return-to/" + v
		}
		c.Tr.RelayState = string([]rune(v[:n]))
		if len(c.Tr.RelayState) != n {
			c.Tr.RelayState = strings.ToValidUTF8(v[:n], "_")
		}
	}
	if rapid.Bool().Draw(t, "explicitenc") {
		if binding == "redirect" || rapid.Bool().Draw(t, "deflatepost") {
			c.Tr.Encoding = spsim.EncodingDeflate
		}
	}
	nd := rapid.SampledFrom([]int{0, 1, 1, 1, 2}).Draw(t, "ndefects")
	for i := 0; i < nd; i++ {
		d := pick(t, "defect", c13Defects)
		c.Defects = append(c.Defects, d)
		switch d.Name {
		case "issuer-absent":
			l.Issuer = A
		case "issuer-empty":
			l.Issuer = ""
		case "issuer-unregistered":
			l.Issuer = "https://unregistered.example/metadata"
		case "issuer-case":
			if l.Issuer != A && l.Issuer != "" {
				l.Issuer = swapCase(l.Issuer)
			}
		case "issuer-blank":
			if l.Issuer != A {
				l.Issuer = " " + l.Issuer
			}
		case "issuer-slash":
			// one slash more or less than the registered entity ID
			if l.Issuer != A && l.Issuer != "" {
				if strings.HasSuffix(l.Issuer, "/") {
					l.Issuer = strings.TrimSuffix(l.Issuer, "/")
				} else {
					l.Issuer += "/"
				}
			}
		case "issuer-suffix":
			if l.Issuer != A && l.Issuer != "" {
				l.Issuer += d.Param
			}
		case "issued-future":
			l.IssueInstant = "@now+" + d.Param
		case "noa-past":
			l.NotOnOrAfter = "@now-" + d.Param
		case "issued-future-offset":
			l.IssueInstant = "@now+" + d.Param
		case "noa-past-offset":
			l.NotOnOrAfter = "@now-" + d.Param
		case "issued-abs":
			l.IssueInstant = d.Param
		case "noa-abs":
			l.NotOnOrAfter = d.Param
		case "issued-garbage":
			l.IssueInstant = "@now-60/0/" + d.Param
		case "noa-garbage":
			l.NotOnOrAfter = "@now+600/0/" + d.Param
		case "issued-absent":
			l.IssueInstant = A
		case "id-absent":
			l.ID = A
		}
	}
	c.Req = l
	c.Noise = rapid.IntRange(0, 1).Draw(t, "noise") == 0
	return c
}

var reVersionAttr = regexp.MustCompile(`Version\s*=\s*["']2\.0["']`)

func c13Render(c C13Case, now time.Time) obs.HTTPReq {
	tree := c.Req.Rendered(now).Tree(c.Style)
	for _, d := range c.Defects {
		if d.Name == "wrong-root" {
			tree.Local = d.Param
		}
	}
	x := xt.Write(tree, c.Style.W)
	for _, d := range c.Defects {
		switch d.Name {
		case "truncated-xml":
			x = x[:len(x)*2/3]
		case "not-xml":
			x = []byte("logout please")
		case "unquoted-attr":
			if loc := reVersionAttr.FindIndex(x); loc != nil {
				x = append(append(append([]byte(nil), x[:loc[0]]...), []byte("Version=2.0")...), x[loc[1]:]...)
			} else if loc := reFirstStartTag.FindSubmatchIndex(x); loc != nil {
				x = append(append(append([]byte(nil), x[:loc[2]]...), []byte(" note=unquoted")...), x[loc[2]:]...)
			}
		case "attr-without-value":
			if loc := reFirstStartTag.FindSubmatchIndex(x); loc != nil {
				x = append(append(append([]byte(nil), x[:loc[2]]...), []byte(" standalone")...), x[loc[2]:]...)
			}
		case "bad-entity":
			if loc := reFirstStartTag.FindSubmatchIndex(x); loc != nil && !bytes.HasSuffix(bytes.TrimSpace(x[loc[0]:loc[1]]), []byte("/>")) {
				ins := []byte("<x:note xmlns:x=\"urn:example:note\">" + d.Param + "</x:note>")
				k := loc[1]
				if i := bytes.Index(x, []byte("Issuer>")); i >= 0 {
					if j := bytes.Index(x[i+7:], []byte("Issuer>")); j >= 0 {
						k = i + 7 + j + 7
					}
				}
				x = append(append(append([]byte(nil), x[:k]...), ins...), x[k:]...)
			}
		}
	}
	tr := c.Tr
	for _, d := range c.Defects {
		if d.Name == "unknown-encoding" {
			tr.Encoding = d.Param
		}
	}
	hr, _, err := spsim.Encode(c.Spec.IdP.Route("slo"), x, tr, nil)
	if err != nil {
		panic("harness: " + err.Error())
	}
	replace := func(f func(string) string) {
		if tr.Binding == "redirect" {
			hr.RawQuery = f(hr.RawQuery)
		} else {
			hr.Body = f(hr.Body)
		}
	}
	for _, d := range c.Defects {
		switch d.Name {
		case "bad-base64":
			replace(func(p string) string { return strings.Replace(p, "SAMLRequest=", "SAMLRequest=%21%21", 1) })
		case "bad-deflate":
			replace(func(p string) string {
				parts := strings.Split(p, "&")
				for i := range parts {
					if strings.HasPrefix(parts[i], "SAMLRequest=") {
						parts[i] = "SAMLRequest=" + qesc(base64.StdEncoding.EncodeToString([]byte("\xff\xff\xffnot deflate")))
					}
				}
				out := strings.Join(parts, "&")
				if !strings.Contains(out, "SAMLEncoding=") {
					out += "&SAMLEncoding=" + qesc(spsim.EncodingDeflate)
				}
				return out
			})
		case "empty-samlrequest":
			replace(func(p string) string {
				parts := strings.Split(p, "&")
				for i := range parts {
					if strings.HasPrefix(parts[i], "SAMLRequest=") {
						parts[i] = "SAMLRequest="
					}
				}
				return strings.Join(parts, "&")
			})
		}
	}
	hr.Host = c.Host
	hr.Headers = append(hr.Headers, c.ReqHeaders...)
	return hr
}

type logoutSent struct {
	Decodable  bool
	ID         string
	Issuer     string
	IssuerSP   int
	Violated   []string
	Unasserted []string
	Relay      string
	HasRelay   bool
}

// evalLogoutSent is the harness's own reading of a logout request as sent.
func evalLogoutSent(spec world.Spec, hr obs.HTTPReq, now time.Time) *logoutSent {
	s := &logoutSent{IssuerSP: -1}
	q, _ := splitParams(hr.RawQuery)
	f := map[string][]string{}
	if hr.Method == "POST" {
		f, _ = splitParams(hr.Body)
	}
	get := func(name string) (string, bool) {
		if v, ok := f[name]; ok && len(v) > 0 {
			return v[0], true
		}
		if v, ok := q[name]; ok && len(v) > 0 {
			return v[0], true
		}
		return "", false
	}
	s.Relay, s.HasRelay = get("RelayState")
	msg, _ := get("SAMLRequest")
	enc, _ := get("SAMLEncoding")
	_, inQuery := q["SAMLRequest"]
	deflate := false
	switch enc {
	case "":
		deflate = inQuery
	case spsim.EncodingDeflate:
		deflate = true
	default:
		s.Violated = append(s.Violated, "unknown-encoding")
		return s
	}
	if msg == "" {
		s.Violated = append(s.Violated, "empty-samlrequest")
		return s
	}
	raw, err := base64.StdEncoding.DecodeString(msg)
	if err != nil {
		s.Violated = append(s.Violated, "bad-base64")
		return s
	}
	if deflate {
		r := flate.NewReader(bytes.NewReader(raw))
		raw, err = io.ReadAll(io.LimitReader(r, 64<<20))
		if err != nil {
			s.Violated = append(s.Violated, "bad-deflate")
			return s
		}
	}
	doc, err := xt.Parse(raw)
	if err != nil {
		if goXMLScanOK(raw) {
			s.Unasserted = append(s.Unasserted, "lenient-xml")
		} else {
			s.Violated = append(s.Violated, "not-well-formed")
		}
		return s
	}
	root := doc.Root
	if root.Space != world.NSSAMLP || root.Local != "LogoutRequest" {
		s.Violated = append(s.Violated, "wrong-root")
		return s
	}
	s.Decodable = true
	s.ID = root.AttrV("ID")
	issuers := root.ChildrenNamed(world.NSSAML, "Issuer")
	switch len(issuers) {
	case 0:
		s.Violated = append(s.Violated, "issuer-absent")
	case 1:
		s.Issuer = issuers[0].Text()
		for i, sp := range spec.SPs {
			if sp.EntityID == s.Issuer {
				s.IssuerSP = i
			}
		}
		if s.IssuerSP < 0 {
			s.Violated = append(s.Violated, "issuer-unregistered")
		}
	default:
		s.Unasserted = append(s.Unasserted, "several-issuers")
	}
	const margin = 3 * time.Second
	if ii, ok := root.Attr("IssueInstant"); ok && ii != "" {
		t, kind := parseInstant(ii)
		switch kind {
		case "garbage":
			s.Violated = append(s.Violated, "unparseable-issueinstant")
		case "other-form":
			s.Unasserted = append(s.Unasserted, "issueinstant-form")
		default:
			if t.After(now.Add(margin)) {
				s.Violated = append(s.Violated, "issued-in-future")
			} else if t.After(now.Add(-margin)) {
				s.Unasserted = append(s.Unasserted, "issueinstant-boundary")
			}
		}
	} else {
		s.Unasserted = append(s.Unasserted, "no-issueinstant")
	}
	if na := root.AttrV("NotOnOrAfter"); na != "" {
		t, kind := parseInstant(na)
		switch kind {
		case "garbage":
			s.Violated = append(s.Violated, "unparseable-notonorafter")
		case "other-form":
			s.Unasserted = append(s.Unasserted, "notonorafter-form")
		default:
			if t.Before(now.Add(-margin)) {
				s.Violated = append(s.Violated, "notonorafter-passed")
			} else if t.Before(now.Add(margin)) {
				s.Unasserted = append(s.Unasserted, "notonorafter-boundary")
			}
		}
	}
	return s
}

func c13Oracle(c C13Case, hr obs.HTTPReq, rep obs.Reply, sent *logoutSent) (vs []*ev.Violation, d *obs.Decoded, success bool) {
	add := func(key, f string, a ...any) { vs = append(vs, ev.V("C13/"+key, f, a...)) }
	d = obs.Decode(rep)
	if rep.Panic != "" {
		add("panic", "handler panicked: %s", short(rep.Panic, 100))
		return
	}
	switch d.Kind {
	case obs.KindPostForm, obs.KindXML:
	default:
		add("unexpected-reply", "status %d kind %s: %s", rep.Status, d.Kind, short(string(rep.Body), 120))
		return
	}
	if d.Doc == nil {
		add("reply-not-one-document", "%s (%v)", d.XMLErr, d.Notes)
		return
	}
	root := d.Root()
	if root.Space != world.NSSAMLP || root.Local != "LogoutResponse" {
		add("not-a-logout-response", "document element {%s}%s", root.Space, root.Local)
		return
	}
	resp := obs.ReadResponse(root)
	success = resp.Success()
	if resp.Status == "" {
		add("no-status", "LogoutResponse without status code")
	}
	if success && len(sent.Violated) > 0 {
		add("success-for-invalid-request:"+sent.Violated[0], "status Success although the request violates %v (defects %v)", sent.Violated, c.Defects)
	}
	if sent.Decodable && resp.InResponseTo != sent.ID {
		add("inresponseto", "request ID %q, InResponseTo %q (present %v)", sent.ID, resp.InResponseTo, resp.HasInResponse)
	}
	entity := c.Spec.IdP.EntityID(c.Host)
	if resp.Issuer != entity {
		add("issuer", "Issuer %q, IdP entity ID %q", resp.Issuer, entity)
	}
	if d.Kind == obs.KindPostForm {
		if sent.IssuerSP < 0 || len(c.Spec.SPs[sent.IssuerSP].SLO) == 0 {
			add("posted-without-registered-slo", "reply posted to %q although the issuer %q has no registered SingleLogoutService", d.Target, sent.Issuer)
			return
		}
		want := c.Spec.SPs[sent.IssuerSP].SLO[0].Location
		if !sameURL(d.Target, want) {
			add("posted-to-wrong-location", "form action %q, first registered SLO location %q", d.Target, want)
		}
		if resp.Destination != want {
			add("destination", "Destination %q, first registered SLO location %q", resp.Destination, want)
		}
		if len(d.Forms) != 1 {
			add("several-forms", "%d forms", len(d.Forms))
		}
		if d.RelayState != sent.Relay && htmlNewlineNorm(d.RelayState) != htmlNewlineNorm(sent.Relay) {
			add("relaystate", "RelayState field %q, submitted %q", d.RelayState, sent.Relay)
		}
	} else if success && sent.IssuerSP >= 0 && len(c.Spec.SPs[sent.IssuerSP].SLO) > 0 {
		// "returned in the HTTP body when none is known": a location is known here, the Success response (with the RelayState)
		// belongs to the provider
		add("success-not-posted", "status Success for a provider with a registered SingleLogoutService (%q), but the response is returned in the body (%s) instead of being posted there", c.Spec.SPs[sent.IssuerSP].SLO[0].Location, d.Kind)
	}
	return
}

func TestC13(t *testing.T) {
	col := ev.For("C13", "exploration", c13Rule)
	col.Assume("the IdP and the harness read the same wall clock (3 s margin)")
	searchRapid(t, col, genC13Case, func(c C13Case) []*ev.Violation {
		wspec := c.Spec
		if c.Noise {
			wspec = withNoise(wspec)
		}
		w := buildWithHistory(wspec, c.Hist, c.Host)
		if c.Noise {
			runNoise(w, wspec)
		}
		now := time.Now()
		hr := c13Render(c, now)
		if c.Hist != nil && c.Hist.Removed {
			// deregistered since: for the oracles the entity no longer exists (the request still names it)
			cp := c.Spec
			cp.SPs = append([]world.SPSpec(nil), c.Spec.SPs...)
			cp.SPs[c.Hist.SP].EntityID = "urn:deregistered:" + cp.SPs[c.Hist.SP].EntityID
			c.Spec = cp
		}
		sent := evalLogoutSent(c.Spec, hr, now)
		rep := obs.Do(w.Handler, hr)
		vs, d, success := c13Oracle(c, hr, rep, sent)
		if c.Noise && noiseLeak(rep) {
			vs = append(vs, ev.V("C13/foreign-state-in-reply", "the reply carries data of an unrelated service provider / user that used the provider earlier"))
		}
		nslo := len(c.Spec.SPs[c.SP].SLO)
		condViolated := false
		for _, v := range sent.Violated {
			if strings.Contains(v, "issue") || strings.Contains(v, "notonorafter") || strings.Contains(v, "issuer") {
				condViolated = true
			}
		}
		classes := []string{fmt.Sprintf("success=%v", success), "reply/" + d.Kind, fmt.Sprintf("slo=%d", nslo), "transport/" + c.Tr.Binding, "timeformat/" + c.Spec.IdP.TimeFormat}
		for _, v := range sent.Violated {
			classes = append(classes, "violated/"+v)
		}
		for _, v := range sent.Unasserted {
			classes = append(classes, "unasserted/"+v)
		}
		if len(c.Defects) == 0 {
			classes = append(classes, "defects/none")
			if !success {
				classes = append(classes, "valid-but-not-success")
			}
		}
		var dn []string
		for _, x := range c.Defects {
			dn = append(dn, x.Name)
		}
		col.Case(condViolated || nslo >= 2, ev.Fingerprint(dn, sent.Violated, nslo, c.Tr.Binding, c.Tr.Encoding, d.Kind, success, c.Spec.IdP.TimeFormat), classes, func() any {
			return map[string]any{"defects": c.Defects, "slo": c.Spec.SPs[c.SP].SLO, "transport": c.Tr, "violated": sent.Violated, "reply": d.Kind, "success": success, "response_xml": short(string(d.XML), 400)}
		})
		return vs
	})
}

// TestC13SlowBody: a POST-binding logout request whose body arrives late. NotOnOrAfter lies 2 s after the request starts, the
// body arrives after 5 s: whenever the IdP gets to judge the request (it cannot before it has read it), the request has
// passed its NotOnOrAfter by at least 3 s, so the answer must not be Success. (A slower machine only widens the gap.)
func TestC13SlowBody(t *testing.T) {
	col := ev.For("C13", "exploration", c13Rule)
	runPlain(t, col, "TestC13", func(fail func(*ev.Violation, any)) {
		spec := stdSpec()
		var wg sync.WaitGroup
		for k, enc := range []string{A, spsim.EncodingDeflate} {
			wg.Add(1)
			go func(k int, enc string) {
				defer wg.Done()
				w := mustBuild(spec)
				now := time.Now()
				l := spsim.NewLogoutReq(fmt.Sprintf("_slow-%d", k), spec.SPs[0].EntityID, "usermark0")
				l.IssueInstant = spsim.Instant(now.Add(-10*time.Second), 3)
				l.NotOnOrAfter = spsim.Instant(now.Add(2*time.Second), 3)
				x := xt.Write(l.Tree(plainStyle), plainStyle.W)
				if enc != A {
					x = spsim.Deflate(x)
				}
				hr, _, _ := spsim.Encode(spec.IdP.Route("slo"), x, spsim.Transport{Binding: "post", Plus: true, Encoding: enc, RelayState: "rs"}, nil)
				hr.BodyDelayMs = 5000
				rep := obs.Do(w.Handler, hr)
				elapsed := time.Since(now)
				d := obs.Decode(rep)
				r := obs.ReadResponse(d.Root())
				success := r != nil && r.Success()
				col.Case(true, ev.Fingerprint("slow-body", enc), []string{"slow-body", fmt.Sprintf("slow-body/success=%v", success)}, func() any {
					return map[string]any{"not_on_or_after_offset_s": 2, "body_delay_s": 5, "elapsed_s": elapsed.Seconds(), "success": success}
				})
				if success && elapsed >= 5*time.Second {
					fail(ev.V("C13/success-for-invalid-request:notonorafter-passed", "logout request whose body arrived 5 s after the request began, 3 s after its NotOnOrAfter: status Success (the validity window was judged against an earlier moment than the one the request could be known at)"), map[string]any{"request": hr})
				}
			}(k, enc)
		}
		wg.Wait()
	})
}
