package props

// C06 — Accepted AuthnRequests satisfy every validity condition.
//
// Oracle: "accepted" (a successful CreateAuthRequest in the storage log, or a redirect to the login) implies that the
// harness's own evaluation of the bytes that were sent (own parameter splitting, base64 / DEFLATE
// handling, strict XML reader, own timestamp parser, the SSO location the configuration must
// advertise for the issuer in effect) finds no violated condition.

import (
	"fmt"
	"strings"
	"testing"

	"pgregory.net/rapid"

	"verif/harness/ev"
	"verif/harness/obs"
	"verif/harness/spsim"
	"verif/harness/world"
)

const c06Rule = "rapid: a valid AuthnRequest (all optional parts on/off, four prefix styles, both bindings) with 0..2 defects injected from a catalogue of 45 (decode layers, root element, Issuer absent/empty/unregistered/look-alike, ID, Version, Destination differing in host/path/case/slash/scheme/prefix, Conditions offsets from 1 s to 10 years and garbage lexical forms, unknown SAMLEncoding, SigAlg without Signature, empty/missing SAMLRequest) or 1..3 byte-level mutations of the XML, in one case of three behind a valid request of the same provider with the same ID (accepted, or lost in a DEFLATE stream that delivered the whole document and then broke off), against IdP configurations with static / host-derived / Forwarded-derived issuers and default / custom-path / external-URL SSO endpoints. Oracle: accepted (a request persisted, or the user agent sent on to the login) => the harness's independent evaluation of the sent bytes finds no violated validity condition. Instants within 3 s of a boundary, lexical timestamp forms outside the UTC 'Z' form, duplicated Issuer/Conditions, empty Destination and URL-equivalent Destinations are executed and counted but not asserted. Non-trivial: one or two defects injected (or a byte mutation that leaves the message decodable). Distinct by (defect set, configuration vector, binding)."

func genC06Case(t *rapid.T) SSOCase {
	spec := genSSOWorld(t, worldOpts{minACS: 1, maxACS: 2, issuerModes: []string{"static", "static", "host", "forwarded"}, customSSO: true, maxSPs: 3, entityIDChars: true})
	spec.LenientLookup = rapid.Bool().Draw(t, "lenientlookup")
	c := SSOCase{Spec: spec, Host: rapid.SampledFrom(reqHosts).Draw(t, "host")}
	if spec.IdP.IssuerMode == "forwarded" && rapid.Bool().Draw(t, "fwd") {
		c.Headers = [][2]string{{"Forwarded", "for=192.0.2.60;host=" + rapid.SampledFrom([]string{"public.idp.example", "\"proxy.example:444\""}).Draw(t, "fwdhost") + ";proto=http"}}
	}
	host := effHost(c)
	c.Prelude = genPrelude(t, spec, host)
	c.Noise = rapid.IntRange(0, 2).Draw(t, "noise") == 0
	c.SP = rapid.IntRange(0, len(spec.SPs)-1).Draw(t, "sp")
	c.Req = genValidAuthn(t, spec, c.SP, host)
	maybePassive(t, &c.Req)
	c.Style = genXMLStyle(t)
	binding := rapid.SampledFrom([]string{"post", "redirect"}).Draw(t, "transport")
	c.Tr = genTransport(t, binding)
	if rapid.IntRange(0, 5).Draw(t, "keyfault") == 0 {
		// the IdP cannot read its own signing key while this request is served; the request is signed by its provider (an IdP
		// that cannot describe itself may insist on that) - no validity condition is waived by the IdP's own trouble
		c.KeyFault = rapid.SampledFrom([]string{"error", "nil", "nokey", "emptycert", "timeout"}).Draw(t, "keyfaultkind")
		c.Sign, c.RSign = signFor(t, spec, c.SP, binding)
	}
	switch mode := rapid.SampledFrom([]string{"defects", "defects", "defects", "bytes", "valid"}).Draw(t, "mode"); mode {
	case "defects":
		n := rapid.IntRange(1, 2).Draw(t, "ndefects")
		for i := 0; i < n; i++ {
			d := pick(t, "defect", c06Catalogue)
			if d.Name == "bad-deflate" && c.Tr.Binding != "redirect" {
				c.Tr.Binding = "redirect"
			}
			c.Defects = append(c.Defects, d)
			applyModelDefect(&c, d, host)
		}
		if rapid.IntRange(0, 2).Draw(t, "valid-before") == 0 {
			// a moment ago the same provider sent a valid request (with the same ID, when the defective one has one) - accepted, or
			// lost in a DEFLATE stream that broke off after the whole document: what was valid then lends nothing to this request
			c.Hist = &History{SP: c.SP, Warmups: rapid.SampledFrom([][]string{{"sso"}, {"sso-redirect"}, {"sso-broken-deflate"}, {"sso-redirect", "sso-broken-deflate"}, {"sso-broken-deflate", "metadata"}}).Draw(t, "valid-before-kind")}
			if c.Req.ID != A && c.Req.ID != "" {
				c.Hist.ReuseID = c.Req.ID
			}
		}
	case "valid":
		if rapid.Bool().Draw(t, "history") {
			// an otherwise valid request from a provider that used the IdP before and has since been deregistered (or re-registered)
			c.Hist = genHistory(t, spec, c.SP, func(e *world.SPSpec) {
				e.ACS = []world.ACSSpec{acs(world.BindPost, "https://earlier.example/acs/post", "0", A)}
			}, true)
		}
		if len(c.Prelude) > 0 && c.Spec.IdP.Endpoint("sso").URL == "" {
			d := Defect{Name: "dest-of-other-tenant", Param: c.Prelude[0]}
			c.Defects = append(c.Defects, d)
			applyModelDefect(&c, d, host)
		}
	case "bytes":
		n := rapid.IntRange(1, 3).Draw(t, "nmut")
		for i := 0; i < n; i++ {
			c.Defects = append(c.Defects, genByteMutation(t))
		}
	}
	return c
}

var c06Catalogue = append(append([]Defect(nil), c08DefectCatalogue...),
	Defect{Name: "nb-future", Param: "1"}, Defect{Name: "noa-past", Param: "1"}, Defect{Name: "nb-future", Param: "86400"}, Defect{Name: "noa-past", Param: "86400"},
	Defect{Name: "nb-garbage", Param: "lowerz"}, Defect{Name: "nb-garbage", Param: "offset"}, Defect{Name: "noa-garbage", Param: "nozone"}, Defect{Name: "noa-garbage", Param: "comma"}, Defect{Name: "noa-garbage", Param: "dateonly"},
	Defect{Name: "nb-garbage", Param: "fractext"}, Defect{Name: "noa-garbage", Param: "fraczz"}, Defect{Name: "noa-garbage", Param: "fracjunk"}, Defect{Name: "nb-garbage", Param: "fracjunk"},
	Defect{Name: "misnamespaced-child", Param: "Subject"}, Defect{Name: "misnamespaced-child", Param: "Conditions"}, Defect{Name: "misnamespaced-child", Param: "Issuer"},
	Defect{Name: "dup-issuer", Param: "https://unregistered.example/metadata"},
	Defect{Name: "issuer-other-ns", Param: "protocol"}, Defect{Name: "issuer-other-ns", Param: "foreign"},
)

func c06Oracle(c SSOCase, r *ssoRun) []*ev.Violation {
	okCalls, _ := createCalls(r.W)
	// accepted: a request was persisted for it, or the user agent was sent on to the login (whatever was or was not persisted)
	if len(okCalls) == 0 && obs.Decode(r.Rep).Kind != "login-redirect" {
		return nil
	}
	if len(r.Sent.Violated) > 0 && len(r.Sent.Ambiguous) == 0 {
		return []*ev.Violation{ev.V("C06/accepted:"+r.Sent.Violated[0], "request accepted although it violates: %v (defects injected: %v)", r.Sent.Violated, c.defectNames())}
	}
	return nil
}

// assertedDefect reports whether an injected defect must make the request invalid (as opposed to the unasserted boundary cases).
func assertedDefect(d Defect) bool {
	switch d.Name {
	case "mutate", "dup-issuer":
		return false
	case "nb-future", "noa-past":
		return d.Param != "1"
	case "nb-garbage", "noa-garbage":
		return d.Param != "offset" && d.Param != "nozone" && d.Param != "comma"
	}
	return true
}

func TestC06(t *testing.T) {
	col := ev.For("C06", "exploration", c06Rule)
	col.Assume("the wall clock read by the IdP and by the harness differ by far less than the 3 s margin")
	searchRapid(t, col, genC06Case, func(c SSOCase) []*ev.Violation {
		r, err := runSSO(c)
		if err != nil {
			panic("harness: " + err.Error())
		}
		// generator soundness: an asserted defect must be recognised by the evaluator
		for _, d := range c.Defects {
			if len(c.Defects) == 1 && assertedDefect(d) && len(r.Sent.Violated) == 0 && len(r.Sent.Ambiguous) == 0 {
				// a second defect can mask the first only by making things worse, never better
				panic(fmt.Sprintf("harness: defect %v injected but the evaluator finds the message valid: %s", d, short(string(r.Sent.XML), 300)))
			}
		}
		okCalls, _ := createCalls(r.W)
		accepted := len(okCalls) > 0
		nd := len(c.Defects)
		decodable := r.Sent.Doc != nil
		nontrivial := (nd >= 1 && nd <= 2 && !c.hasDefect("mutate")) || (c.hasDefect("mutate") && decodable)
		classes := []string{fmt.Sprintf("accepted=%v", accepted), fmt.Sprintf("prelude=%d", len(c.Prelude)), fmt.Sprintf("lenient-sp-lookup=%v", c.Spec.LenientLookup), "issuer/" + c.Spec.IdP.IssuerMode, "binding/" + c.Tr.Binding}
		for _, d := range c.Defects {
			classes = append(classes, "defect/"+d.Name)
		}
		if nd == 0 {
			classes = append(classes, "defect/none")
		}
		for _, v := range r.Sent.Violated {
			classes = append(classes, "violated/"+v)
		}
		if len(r.Sent.Unasserted) > 0 {
			classes = append(classes, "unasserted")
			if accepted && len(r.Sent.Violated) == 0 && nd > 0 {
				classes = append(classes, "unasserted-and-accepted")
			}
		}
		ep := c.Spec.IdP.Endpoint("sso")
		mutKinds := ""
		for _, d := range c.Defects {
			if d.Name == "mutate" {
				mutKinds += strings.SplitN(d.Param, ":", 2)[0] + ","
			}
		}
		fp := ev.Fingerprint(c.defectNames(), mutKinds, r.Sent.Violated, c.Spec.IdP.IssuerMode, ep.Path, ep.URL != "", c.Tr.Binding, c.Spec.IdP.Insecure)
		col.Case(nontrivial, fp, classes, func() any { return ssoSample(c, r) })
		return c06Oracle(c, r)
	})
}

var _ = world.Absent

// TestC06Matrix: every defect of the catalogue on its own, in both bindings, in an otherwise acceptable request of a provider
// that is asked for no signature - the one place where each validity condition alone decides. Deterministic and complete over
// (defect x binding x with / without the optional parts the defect lives in); the random search above mixes defects,
// configurations and styles around it.
func TestC06Matrix(t *testing.T) {
	col := ev.For("C06", "exploration", c06Rule)
	runPlain(t, col, "TestC06", func(fail func(*ev.Violation, any)) {
		n := 0
		for _, d := range c06Catalogue {
			for _, binding := range []string{"post", "redirect"} {
				for _, full := range []bool{false, true} {
					spec := stdSpec()
					c := SSOCase{Spec: spec, Host: defHost, SP: 0, Style: plainStyle, Tr: spsim.Transport{Binding: binding, Plus: true, Encoding: A, RelayState: "rs"}}
					c.Req = spsim.NewAuthnReq(fmt.Sprintf("_matrix-%d", n), spec.SPs[0].EntityID)
					c.Req.IssueInstant = spsim.Rel(-5, 0, "")
					if full {
						c.Req.Destination = spec.IdP.Advertised("sso", defHost)
						c.Req.Conditions = &spsim.Conditions{NotBefore: spsim.Rel(-60, 0, ""), NotOnOrAfter: spsim.Rel(300, 0, "")}
					}
					if d.Name == "bad-deflate" && binding != "redirect" {
						continue
					}
					c.Defects = []Defect{d}
					applyModelDefect(&c, d, defHost)
					r, err := runSSO(c)
					if err != nil {
						panic("harness: " + err.Error())
					}
					n++
					okCalls, _ := createCalls(r.W)
					accepted := len(okCalls) > 0
					recognised := len(r.Sent.Violated) > 0
					if assertedDefect(d) && !recognised && len(r.Sent.Ambiguous) == 0 && full {
						panic(fmt.Sprintf("harness: defect %v (%s) injected but the evaluator finds the message valid: %s", d, binding, short(string(r.Sent.XML), 300)))
					}
					col.Case(recognised, ev.Fingerprint("matrix", d.Name, d.Param, binding, full), []string{"matrix", fmt.Sprintf("matrix/recognised=%v/accepted=%v", recognised, accepted), "matrix/defect/" + d.Name}, func() any {
						return map[string]any{"defect": d, "binding": binding, "optional_parts": full, "violated": r.Sent.Violated, "accepted": accepted, "status": r.Rep.Status}
					})
					for _, v := range c06Oracle(c, r) {
						fail(v, c)
					}
				}
			}
		}
		col.SetExtra("single_defect_matrix_cases", n)
	})
}
