package props

// Native coverage-guided fuzz targets (thorough tiers only; `go test -fuzz` cannot be seeded, so a
// saved crasher under testdata/fuzz/<target>/ is the reproducible unit and is re-run by
// `go test -run <target>`). Every target carries its semantic oracle inside.

import (
	"encoding/base64"
	"strings"
	"sync"
	"testing"
	"time"

	sxml "github.com/zitadel/saml/pkg/provider/xml"

	"verif/harness/dsigref"
	"verif/harness/obs"
	"verif/harness/world"
)

var (
	fuzzWorldOnce sync.Once
	fuzzWorld     *world.World
	fuzzSpec      world.Spec
)

func fuzzSetup() *world.World {
	fuzzWorldOnce.Do(func() {
		fuzzSpec = c09Spec()
		fuzzWorld = mustBuild(fuzzSpec)
	})
	fuzzWorld.Store.ResetLog()
	return fuzzWorld
}

var fuzzRoutes = []string{"/SSO", "/SLO", "/login", "/attribute", "/metadata", "/certificate", "/ready", "/healthz"}
var fuzzMethods = []string{"GET", "POST", "PUT", "HEAD"}

// FuzzC09HTTP: no request makes a handler panic.
func FuzzC09HTTP(f *testing.F) {
	for i, v := range c09ValidMessages(c09Spec().IdP) {
		ep := uint8(0)
		switch {
		case strings.HasPrefix(v.name, "logout"):
			ep = 1
		case strings.HasPrefix(v.name, "attrquery"):
			ep = 3
		}
		m := uint8(0)
		if v.req.Method == "POST" {
			m = 1
		}
		f.Add(ep, m, v.req.RawQuery, v.req.Body, uint8(i%3))
	}
	f.Add(uint8(2), uint8(0), "id=req-done-post", "", uint8(0))
	f.Add(uint8(2), uint8(1), "", "id=req-pending", uint8(0))
	f.Add(uint8(0), uint8(0), "SAMLRequest=AAAA&SigAlg=http%3A%2F%2Fwww.w3.org%2F2000%2F09%2Fxmldsig%23dsa-sha1&Signature=MAYCAQUCAQc%3D", "", uint8(0))
	f.Add(uint8(4), uint8(0), "", "", uint8(1))
	f.Fuzz(func(t *testing.T, ep, method uint8, query, body string, ct uint8) {
		w := fuzzSetup()
		hr := obs.HTTPReq{Method: fuzzMethods[int(method)%len(fuzzMethods)], Path: fuzzRoutes[int(ep)%len(fuzzRoutes)], RawQuery: query, Body: body}
		switch ct % 3 {
		case 0:
			hr.ContentType = "application/x-www-form-urlencoded"
		case 1:
			hr.ContentType = "text/xml"
		}
		rep := obs.Do(w.Handler, hr)
		if rep.Panic != "" {
			t.Fatalf("C09 violation: handler panicked at %s: %s", rep.PanicSite(), rep.Panic)
		}
	})
}

// FuzzC09Meta: no byte string offered as SP metadata crashes registration or later use.
func FuzzC09Meta(f *testing.F) {
	f.Add(string(stdSP(0).MetadataXML()))
	f.Add(`<md:EntityDescriptor xmlns:md="urn:oasis:names:tc:SAML:2.0:metadata" entityID="x"/>`)
	f.Add(`<EntityDescriptor entityID="https://edited.example/sp"><SPSSODescriptor><KeyDescriptor><KeyInfo><X509Data><X509Certificate>AAAA</X509Certificate></X509Data></KeyInfo></KeyDescriptor></SPSSODescriptor></EntityDescriptor>`)
	f.Add("")
	uses := c09Uses(c09Spec().IdP)
	f.Fuzz(func(t *testing.T, meta string) {
		w := fuzzSetup()
		if _, v := c09Meta(w, []byte(meta), uses); v != nil {
			t.Fatalf("C09 violation: %s: %s", v.Key, v.What)
		}
	})
}

// FuzzC18Codec: DEFLATE+base64 round-trips every input; the decoders never panic.
func FuzzC18Codec(f *testing.F) {
	f.Add([]byte("hello"), "")
	f.Add([]byte{}, sxml.EncodingDeflate)
	f.Add([]byte(strings.Repeat("A", 100000)), "gzip")
	f.Add([]byte("<samlp:AuthnRequest xmlns:samlp=\"urn:oasis:names:tc:SAML:2.0:protocol\" ID=\"a\" Version=\"2.0\"/>"), strings.ToLower(sxml.EncodingDeflate))
	f.Fuzz(func(t *testing.T, data []byte, encID string) {
		c := C18Case{Kind: "codec", Data: base64.StdEncoding.EncodeToString(data)}
		for _, v := range c18Run(c) {
			if v != nil {
				t.Fatalf("C18 violation: %s: %s", v.Key, v.What)
			}
		}
		c = C18Case{Kind: "encoding-id", Data: base64.StdEncoding.EncodeToString(data), EncID: encID}
		for _, v := range c18Run(c) {
			if v != nil {
				t.Fatalf("C18 violation: %s: %s", v.Key, v.What)
			}
		}
		// decoders on arbitrary bytes: error or value, never a panic
		b64 := base64.StdEncoding.EncodeToString(data)
		func() {
			defer func() {
				if p := recover(); p != nil {
					t.Fatalf("C09 violation: decoder panicked: %v", p)
				}
			}()
			sxml.DecodeAuthNRequest("", b64)
			sxml.DecodeLogoutRequest("", b64)
			sxml.DecodeAttributeQuery(string(data))
			sxml.DecodeResponse("", true, b64)
			sxml.DecodeSignature("", true, b64)
			sxml.ParseMetadataXmlIntoStruct(data)
		}()
	})
}

// FuzzC18Struct: string fields of marshalled messages cannot restructure the document.
func FuzzC18Struct(f *testing.F) {
	f.Add(uint8(0), "a", "b<c>", "]]>", "\x00\xff")
	f.Add(uint8(3), "&amp;", "\"'", "\r\n\t", "𝄞")
	kinds := []string{"response", "logout-response", "soap", "metadata", "authn-request", "logout-request"}
	f.Fuzz(func(t *testing.T, k uint8, a, b, c, d string) {
		vals := make([]string, c18NValues)
		src := []string{a, b, c, d, "", "plain"}
		for i := range vals {
			vals[i] = src[(i*7+int(k))%len(src)]
		}
		for _, v := range c18Run(C18Case{Kind: kinds[int(k)%len(kinds)], Values: vals}) {
			if v != nil {
				t.Fatalf("C18 violation: %s: %s", v.Key, v.What)
			}
		}
	})
}

// FuzzC17: the three slots of both templates.
func FuzzC17(f *testing.F) {
	f.Add(false, "rs", "msg", "https://sp.example/acs")
	f.Add(true, "\"><script>", "'", "javascript:alert(1)")
	f.Add(false, "\x00", "</form>", " data:text/html,x")
	f.Fuzz(func(t *testing.T, logout bool, relay, msg, url string) {
		route := "direct-post"
		if logout {
			route = "direct-logout"
		}
		vs, _ := c17Run(C17Case{Route: route, RelayState: relay, Message: msg, URL: url})
		for _, v := range vs {
			if v != nil {
				t.Fatalf("C17 violation: %s: %s", v.Key, v.What)
			}
		}
	})
}

// FuzzC19: static issuer validation against the independent classification.
func FuzzC19(f *testing.F) {
	f.Add("https://idp.example/saml", false)
	f.Add("http://idp.example", true)
	f.Add("https://idp.example?&", false)
	f.Add("https:///path", false)
	f.Add("HTTPS://user@:8443#", true)
	f.Fuzz(func(t *testing.T, issuer string, insecure bool) {
		vs, _ := c19Run(C19Case{Kind: "static", Issuer: issuer, Insecure: insecure})
		for _, v := range vs {
			if v != nil {
				t.Fatalf("C19 violation: %s: %s", v.Key, v.What)
			}
		}
	})
}

// FuzzC05: under a signing requirement, whatever is accepted must verify under the registered key.
func FuzzC05(f *testing.F) {
	spec := stdSpec() // SP 1 requires signed requests
	for _, binding := range []string{"post", "redirect"} {
		c := C05Case{Spec: spec, Host: defHost, SP: 1, Style: plainStyle, Binding: binding, Alg: world.AlgRSASHA256, KeyName: spec.SPs[1].KeyNames[0], KeyInfo: true, Relay: "rs"}
		c.Orig = c09FullAuthn(spec.SPs[1].EntityID)
		c.Orig.Destination = A
		rd := c05Render(c, time.Now())
		f.Add(rd.HR.Method == "POST", rd.HR.RawQuery, rd.HR.Body)
	}
	f.Fuzz(func(t *testing.T, post bool, query, body string) {
		w := mustBuild(spec)
		hr := obs.HTTPReq{Method: "GET", Path: "/SSO", RawQuery: query}
		if post {
			hr = obs.HTTPReq{Method: "POST", Path: "/SSO", RawQuery: query, Body: body, ContentType: "application/x-www-form-urlencoded"}
		}
		rep := obs.Do(w.Handler, hr)
		if rep.Panic != "" {
			t.Fatalf("C09 violation: handler panicked: %s", rep.Panic)
		}
		okCalls, _ := createCalls(w)
		if len(okCalls) == 0 {
			return
		}
		sent := evalSent(spec, func(string) bool { return true }, defHost, hr, time.Now())
		required := sent.IssuerSP >= 0 && spec.SPs[sent.IssuerSP].RequiresSigned()
		if !required || sent.Doc == nil || len(sent.Ambiguous) > 0 {
			return
		}
		pub := &world.Key(spec.SPs[sent.IssuerSP].KeyNames[0]).RSA.PublicKey
		if sent.InQuery && hr.Body == "" {
			res := dsigref.VerifyRedirectOpt(hr.RawQuery, "SAMLRequest", pub, true)
			// the same decoded values in another percent-encoding are the same signed content
			p := sent.Params
			if !res.OK && !dsigref.VerifyRedirectValues("SAMLRequest", p["SAMLRequest"], p["RelayState"], true, p["SigAlg"], p["Signature"], pub) &&
				!dsigref.VerifyRedirectValues("SAMLRequest", p["SAMLRequest"], "", false, p["SigAlg"], p["Signature"], pub) {
				t.Fatalf("C05 violation: accepted under a signing requirement, reference redirect verifier says: %s", res.Reason)
			}
		} else if !sent.InQuery {
			root := sent.Doc.Root
			if res := dsigref.VerifyEnveloped(root, root.Child(world.NSDS, "Signature"), pub); !res.OK {
				t.Fatalf("C05 violation: accepted under a signing requirement, reference XML-DSig verifier says: %s", res.Reason)
			}
		}
	})
}
