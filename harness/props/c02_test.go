package props

// C02 — SAML responses are only ever delivered to registered endpoints.

import (
	"fmt"
	"net/url"
	"strings"
	"testing"
	"time"

	"pgregory.net/rapid"

	"verif/harness/ev"
	"verif/harness/obs"
	"verif/harness/spsim"
	"verif/harness/world"
	"verif/harness/xt"
)

const c02Rule = "rapid: (flow sso) AuthnRequests naming attacker-controlled URLs in AssertionConsumerServiceURL / Destination / RelayState / extra parameters, another SP's consumer URL, arbitrary AssertionConsumerServiceIndex and ProtocolBinding, bearing no enveloped signature, the provider's own or one by an unregistered key, valid or failing at one validation step, with a storage whose first persist attempt may fail, followed - when accepted - by login completion and the callback (again with attacker parameters); (flow logout) LogoutRequests likewise; (flow callback) callbacks on seeded stored requests whose persisted consumer URL carries query strings and special characters. SP metadata: 1..4 ACS entries (bindings, indexes, isDefault mixes, Locations with query strings, quotes, non-ASCII), 0..2 SLO entries. Oracle per reply: delivery target (form action from an HTML tokenizer / Location before the SAML parameters) equals, after lenient percent-decoding, the Location of one entry registered for the SP named by the request's Issuer whose Binding matches the delivery method (callback: the persisted pair; logout: the first SLO Location), Destination and Recipient inside the decoded message equal that URL exactly, the (acs, binding) arguments of CreateAuthRequest are one registered entry, and no target/Destination/Recipient contains an attacker marker. Non-trivial: the request names a foreign URL/index/binding and the reply has a delivery target. Distinct by (flow, attack channels, failing step, reply kind, metadata shape)."

const attackerMark = "attacker-7f3a"

var attackerURLs = []string{
	"https://" + attackerMark + ".example/collect",
	"https://" + attackerMark + ".example/collect?x=1",
	"//" + attackerMark + ".example/",
	"https://sp0.example." + attackerMark + ".example/acs/0",
	"javascript:alert('" + attackerMark + "')",
}

type C02Case struct {
	Flow     string             `json:"flow"` // sso | logout | callback
	SSO      SSOCase            `json:"sso"`
	Channels []string           `json:"channels,omitempty"`
	Logout   spsim.LogoutReq    `json:"logout"`
	LogoutTr spsim.Transport    `json:"logout_transport"`
	CBExtra  string             `json:"callback_extra,omitempty"`
	CBMethod string             `json:"callback_method,omitempty"`
	Seed     *world.RequestSpec `json:"seed,omitempty"`
	// CBTwin: the id presented at the callback instead of the seeded request's (which differs from it by '+' for blank, letter
	// case or surrounding blanks)
	CBTwin string `json:"callback_id_twin,omitempty"`
	// PersistFailsOnce: the first attempt to persist the request fails, any further one succeeds
	PersistFailsOnce bool `json:"persist_fails_once,omitempty"`
}

var seededACS = []string{
	"https://seed.example/acs?tenant=42&region=eu&copy=1", "https://seed.example/acs?x=&amp;lt;y",
	"https://seed.example/acs", "https://seed.example/acs?a=1&b=2", "https://seed.example/acs?q=\"x\"&r='y'", "https://seed.example/ä/ö?<tag>", "https://seed.example/acs#frag",
	"https://seed.example/a b", "https://seed.example/%41%2F?x=%26", "https://seed.example/app#/saml/acs?tenant=1", "https://seed.example/app?x=1#/route?y=2",
}

func genC02Case(t *rapid.T) C02Case {
	spec := genSSOWorld(t, worldOpts{bindings: []string{world.BindPost, world.BindRedirect, world.BindPost, world.BindRedirect, world.BindArtifact}, minACS: 1, maxACS: 4, maxSPs: 3, customSSO: true, issuerModes: []string{"static", "host"}, oddLocations: true})
	c := C02Case{Flow: rapid.SampledFrom([]string{"sso", "sso", "sso", "logout", "callback", "reregister"}).Draw(t, "flow")}
	s := SSOCase{Spec: spec, Host: rapid.SampledFrom(reqHosts).Draw(t, "host")}
	s.SP = rapid.IntRange(0, len(spec.SPs)-1).Draw(t, "sp")
	s.Style = genXMLStyle(t)
	// attacker URLs: foreign hosts, and pages on the *host* of one of the provider's own registered endpoints (a deep link
	// handed over as "where to return to": registered is a whole URL, never a host)
	ownHostURL := func(label string) string {
		sp := spec.SPs[s.SP]
		var locs []string
		for _, a := range sp.ACS {
			locs = append(locs, a.Location)
		}
		for _, l := range sp.SLO {
			locs = append(locs, l.Location)
		}
		if len(locs) == 0 {
			return attackerURLs[0]
		}
		u, err := url.Parse(rapid.SampledFrom(locs).Draw(t, label+"-own"))
		if err != nil || u.Host == "" {
			return attackerURLs[0]
		}
		return u.Scheme + "://" + u.Host + "/" + attackerMark + "/return-to?page=home"
	}
	att := func(label string) string {
		if rapid.IntRange(0, 3).Draw(t, label+"-ownhost") == 0 {
			return ownHostURL(label)
		}
		return rapid.SampledFrom(attackerURLs).Draw(t, label)
	}
	extra := func() string {
		var parts []string
		for _, name := range []string{"AssertionConsumerServiceURL", "acs", "Destination", "LogoutURL", "ReturnTo", "AcsUrl", "ProtocolBinding"} {
			if rapid.IntRange(0, 2).Draw(t, "extra-"+name) == 0 {
				parts = append(parts, name+"="+qesc(att("extraval")))
				c.Channels = append(c.Channels, "param:"+name)
			}
		}
		return strings.Join(parts, "&")
	}
	switch c.Flow {
	case "sso":
		s.Req = genValidAuthn(t, spec, s.SP, s.Host)
		maybePassive(t, &s.Req)
		switch rapid.IntRange(0, 4).Draw(t, "acsurl") {
		case 4:
			// a registered location with something appended: must not be taken for the registered one
			own := pick(t, "ownacs", spec.SPs[s.SP].ACS).Location
			s.Req.ACSURL = own + rapid.SampledFrom([]string{"/../../redirect?to=https://" + attackerMark + ".example", "." + attackerMark + ".example/acs", "@" + attackerMark + ".example/", "?next=" + attackerMark, "#" + attackerMark, "%2F..%2F" + attackerMark, "x" + attackerMark}).Draw(t, "acssuffix")
			c.Channels = append(c.Channels, "AssertionConsumerServiceURL=registered+suffix")
		case 0:
			s.Req.ACSURL = att("acsurl-att")
			c.Channels = append(c.Channels, "AssertionConsumerServiceURL")
		case 1:
			other := spec.SPs[(s.SP+1)%len(spec.SPs)]
			if len(other.ACS) > 0 && len(spec.SPs) > 1 {
				s.Req.ACSURL = other.ACS[0].Location
				c.Channels = append(c.Channels, "AssertionConsumerServiceURL=other-sp")
			}
		case 2:
			s.Req.ACSURL = pick(t, "ownacs", spec.SPs[s.SP].ACS).Location
		}
		s.Req.ACSIndex = rapid.SampledFrom([]string{A, "0", "1", "7", "99", "-1", "x"}).Draw(t, "acsindex")
		if s.Req.ACSIndex != A {
			c.Channels = append(c.Channels, "AssertionConsumerServiceIndex")
		}
		s.Req.ProtocolBinding = rapid.SampledFrom([]string{A, world.BindPost, world.BindRedirect, world.BindArtifact, "urn:example:unlisted", att("pb")}).Draw(t, "protocolbinding")
		if rapid.IntRange(0, 3).Draw(t, "destatt") == 0 {
			s.Req.Destination = att("dest")
			c.Channels = append(c.Channels, "Destination")
		}
		s.Tr = genTransport(t, rapid.SampledFrom([]string{"post", "redirect"}).Draw(t, "transport"))
		if rapid.Bool().Draw(t, "rsatt") {
			s.Tr.RelayState = att("rs")
			c.Channels = append(c.Channels, "RelayState")
		}
		s.Tr.Extra = extra()
		if rapid.IntRange(0, 3).Draw(t, "withdefect") == 0 {
			d := pick(t, "defect", c08DefectCatalogue)
			if d.Name == "bad-deflate" && s.Tr.Binding != "redirect" {
				s.Tr.Binding = "redirect"
			}
			s.Defects = []Defect{d}
			applyModelDefect(&s, d, s.Host)
		}
		s.PersistFault = rapid.IntRange(0, 9).Draw(t, "persistfault") == 0
		c.PersistFailsOnce = !s.PersistFault && rapid.IntRange(0, 7).Draw(t, "persistfailsonce") == 0
		if rapid.IntRange(0, 2).Draw(t, "bears-signature") == 0 {
			// the message bears an enveloped signature - the provider's own, or one made with a key nobody registered: signed or
			// not, verified or not, a URL named inside the message is not a registered endpoint
			key := "rogue"
			if ks := spec.SPs[s.SP].KeyNames; len(ks) > 0 && rapid.Bool().Draw(t, "own-key") {
				key = ks[0]
			}
			s.Sign = spsim.Signing{Alg: world.AlgRSASHA256, KeyName: key, KeyInfo: rapid.Bool().Draw(t, "sig-keyinfo"), CertLayout: "plain", DSPrefix: "ds"}
			c.Channels = append(c.Channels, "enveloped-signature:"+map[bool]string{true: "rogue", false: "own"}[key == "rogue"])
		}
		c.CBExtra = extra()
		c.CBMethod = rapid.SampledFrom([]string{"GET", "POST"}).Draw(t, "cbmethod")
	case "logout":
		l := spsim.NewLogoutReq(genID(t, "lid"), spec.SPs[s.SP].EntityID, "usermark0")
		l.IssueInstant = spsim.Rel(-rapid.IntRange(5, 60).Draw(t, "lissued"), 0, "")
		switch rapid.IntRange(0, 4).Draw(t, "lvariant") {
		case 0:
			l.Issuer = "https://unregistered.example/metadata"
		case 1:
			l.IssueInstant = spsim.Rel(3600, 0, "")
		case 2:
			l.NotOnOrAfter = spsim.Rel(-3600, 0, "")
		}
		// every place inside the message that can name a party: the NameID's qualifiers may name any registered SP
		if rapid.IntRange(0, 2).Draw(t, "lqualifier") == 0 {
			other := spec.SPs[rapid.IntRange(0, len(spec.SPs)-1).Draw(t, "lqualsp")].EntityID
			l.SPNameQualifier = other
			if rapid.Bool().Draw(t, "lnamequal") {
				l.NameQualifier = other
			}
		}
		if rapid.Bool().Draw(t, "ldest") {
			l.Destination = att("ldestv")
			c.Channels = append(c.Channels, "Destination")
		}
		c.Logout = l
		c.LogoutTr = spsim.Transport{Binding: "post", Plus: true, Encoding: A, RelayState: rapid.SampledFrom(relayStates).Draw(t, "lrs")}
		if rapid.Bool().Draw(t, "lrsatt") {
			c.LogoutTr.RelayState = att("lrsv")
			c.Channels = append(c.Channels, "RelayState")
		}
		if rapid.Bool().Draw(t, "lredirect") {
			c.LogoutTr.Binding = "redirect"
			c.LogoutTr.Encoding = spsim.EncodingDeflate
		}
		c.LogoutTr.Extra = extra()
	case "reregister":
		s.Req = genValidAuthn(t, spec, s.SP, s.Host)
		maybePassive(t, &s.Req)
		s.Tr = genTransport(t, rapid.SampledFrom([]string{"post", "redirect"}).Draw(t, "transport"))
		c.Channels = []string{"re-registration"}
	case "callback":
		seed := world.RequestSpec{
			ID: "seeded-1", AppID: spec.SPs[s.SP].AppID, RelayState: rapid.SampledFrom(relayStates[1:]).Draw(t, "srs"),
			ACS: rapid.SampledFrom(seededACS).Draw(t, "sacs"), Binding: rapid.SampledFrom([]string{world.BindPost, world.BindRedirect}).Draw(t, "sbinding"),
			AuthRequestID: genID(t, "sreqid"), UserID: rapid.SampledFrom([]string{"uid-0", "uid-0", "uid-big"}).Draw(t, "suser"), Done: rapid.IntRange(0, 3).Draw(t, "sdone") != 0,
		}
		if rapid.IntRange(0, 3).Draw(t, "cbtwin") == 0 {
			seed.ID = rapid.SampledFrom([]string{"q83vE+RWeJ+rze8S", "Seeded-Req-1", "seeded-1"}).Draw(t, "cbtwinid")
			c.CBTwin = map[string]string{"q83vE+RWeJ+rze8S": "q83vE RWeJ rze8S", "Seeded-Req-1": "seeded-req-1", "seeded-1": " seeded-1 "}[seed.ID]
		}
		c.Seed = &seed
		c.CBExtra = extra()
		c.CBMethod = rapid.SampledFrom([]string{"GET", "POST"}).Draw(t, "cbmethod")
	}
	s.Noise = rapid.IntRange(0, 2).Draw(t, "noise") == 0
	c.SSO = s
	return c
}

// lenientDecode percent-decodes valid %XX sequences and leaves everything else alone.
func lenientDecode(s string) string {
	var b strings.Builder
	for i := 0; i < len(s); i++ {
		if s[i] == '%' && i+2 < len(s) && isHex(s[i+1]) && isHex(s[i+2]) {
			b.WriteByte(unhex(s[i+1])<<4 | unhex(s[i+2]))
			i += 2
			continue
		}
		b.WriteByte(s[i])
	}
	return b.String()
}

func sameURL(a, b string) bool { return a == b || lenientDecode(a) == lenientDecode(b) }

type allowedTarget struct {
	URL     string
	Binding string // "" = any delivery method
}

// c02CheckReply checks one reply against the set of allowed (URL, binding) pairs.
func c02CheckReply(stage string, rep obs.Reply, allowed []allowedTarget, bodyAllowed bool) *ev.Violation {
	d := obs.Decode(rep)
	if rep.Panic != "" {
		return ev.V("C02/panic", "%s: handler panicked: %s", stage, short(rep.Panic, 100))
	}
	var method string
	switch d.Kind {
	case obs.KindPostForm:
		method = world.BindPost
	case obs.KindRedirectSAML:
		method = world.BindRedirect
	case obs.KindOther:
		// an HTML page with a form that is not a SAML post, or a 302 without SAMLResponse: still a delivery
		if len(d.Forms) > 0 {
			return ev.V("C02/unexpected-form", "%s: HTML form without SAMLResponse, action %q", stage, d.Forms[0].Action)
		}
		if rep.Status >= 300 && rep.Status < 400 {
			return ev.V("C02/unexpected-redirect", "%s: redirect to %q", stage, rep.Header.Get("Location"))
		}
		return nil
	default:
		// XML / HTTP error / login redirect: no delivery target; still no attacker URL may be named as destination
		if d.Doc != nil {
			if resp := obs.ReadResponse(obs.FindResponse(d.Root())); resp != nil {
				if strings.Contains(resp.Destination, attackerMark) {
					return ev.V("C02/attacker-destination", "%s: Destination %q in a reply without target", stage, resp.Destination)
				}
			}
		}
		return nil
	}
	if strings.Contains(d.Target, attackerMark) || strings.Contains(lenientDecode(d.Target), attackerMark) {
		return ev.V("C02/delivered-to-attacker", "%s: %s delivered to %q", stage, d.Kind, d.Target)
	}
	var hit *allowedTarget
	for i := range allowed {
		if sameURL(d.Target, allowed[i].URL) && (allowed[i].Binding == "" || allowed[i].Binding == method) {
			hit = &allowed[i]
			break
		}
	}
	if hit == nil && method == world.BindPost && d.Target == "#ZgotmplZ" {
		// html/template's inert placeholder: what a form action becomes when the registered URL has a scheme other than
		// http / https / mailto (C17). The page then posts nowhere; Destination and Recipient must still be the registered string.
		for i := range allowed {
			if sch, _, ok := strings.Cut(allowed[i].URL, ":"); ok && !strings.ContainsAny(sch, "/?#") && !strings.EqualFold(sch, "http") && !strings.EqualFold(sch, "https") && !strings.EqualFold(sch, "mailto") && (allowed[i].Binding == "" || allowed[i].Binding == method) {
				// several registered entries may have become the placeholder: the one the message names, if any
				if hit == nil {
					hit = &allowed[i]
				}
				if d.Doc != nil {
					if resp := obs.ReadResponse(obs.FindResponse(d.Root())); resp != nil && resp.Destination == allowed[i].URL {
						hit = &allowed[i]
						break
					}
				}
			}
		}
	}
	if hit == nil {
		urlOnly := false
		for _, a := range allowed {
			if sameURL(d.Target, a.URL) {
				urlOnly = true
			}
		}
		if urlOnly {
			return ev.V("C02/url-and-binding-from-different-entries", "%s: %s to %q, but no registered entry has that URL with binding %s", stage, d.Kind, d.Target, shortBinding(method))
		}
		return ev.V("C02/delivered-to-unregistered-url", "%s: %s delivered to %q; registered: %v", stage, d.Kind, d.Target, allowed)
	}
	if d.Doc == nil {
		return nil // C18's business
	}
	resp := obs.ReadResponse(obs.FindResponse(d.Root()))
	if resp == nil {
		return nil
	}
	if resp.HasDest && resp.Destination != hit.URL {
		key := "C02/destination-differs-from-target"
		if strings.Contains(resp.Destination, attackerMark) {
			key = "C02/attacker-destination"
		}
		return ev.V(key, "%s: delivered to %q but Destination is %q", stage, hit.URL, resp.Destination)
	}
	if !resp.HasDest {
		return ev.V("C02/destination-missing", "%s: delivered to %q without Destination", stage, hit.URL)
	}
	for _, a := range resp.Assertions {
		if a.Recipient != "" && a.Recipient != hit.URL {
			return ev.V("C02/recipient-differs-from-target", "%s: delivered to %q but Recipient is %q", stage, hit.URL, a.Recipient)
		}
		if resp.Success() && a.HasSubject && a.Recipient == "" {
			return ev.V("C02/recipient-missing", "%s: success assertion delivered to %q without Recipient", stage, hit.URL)
		}
	}
	return nil
}

func acsTargets(sp world.SPSpec) []allowedTarget {
	var out []allowedTarget
	for _, a := range sp.ACS {
		out = append(out, allowedTarget{a.Location, a.Binding})
	}
	return out
}

type c02Result struct {
	vs       []*ev.Violation
	kinds    []string
	targeted bool
	accepted bool
	violated []string
}

func c02Run(c C02Case) c02Result {
	var res c02Result
	s := c.SSO
	spec := s.Spec
	if c.Seed != nil {
		spec.Requests = append(append([]world.RequestSpec(nil), spec.Requests...), *c.Seed)
		big := stdUser(7)
		big.UserID, big.LoginName = "uid-big", "loginbig@users.example"
		big.Custom = append(big.Custom, world.CustomAttr{Name: "groups", Values: bigValues(900, "c02")})
		spec.Users = append(append([]world.UserSpec(nil), spec.Users...), big)
	}
	if s.PersistFault {
		spec.Faults = append(append([]world.Fault(nil), spec.Faults...), world.Fault{Op: "CreateAuthRequest", Kind: "error"})
	}
	if c.PersistFailsOnce {
		spec.Faults = append(append([]world.Fault(nil), spec.Faults...), world.Fault{Op: "CreateAuthRequest", Occurrence: 1, Kind: "error"})
	}
	if s.Noise {
		spec = withNoise(spec)
	}
	w := mustBuild(spec)
	if s.Noise {
		runNoise(w, spec)
	}
	now := time.Now()
	add := func(v *ev.Violation) {
		if v != nil {
			res.vs = append(res.vs, v)
		}
	}
	note := func(rep obs.Reply) {
		if s.Noise && noiseLeak(rep) {
			add(ev.V("C02/foreign-state-in-reply", "a reply carries data of an unrelated service provider / user that used the provider earlier"))
		}
		d := obs.Decode(rep)
		res.kinds = append(res.kinds, d.Kind)
		if d.Kind == obs.KindPostForm || d.Kind == obs.KindRedirectSAML {
			res.targeted = true
		}
	}
	callback := func(id string) obs.Reply {
		q := "id=" + qesc(id)
		if c.CBExtra != "" {
			q += "&" + c.CBExtra
		}
		r := obs.HTTPReq{Method: "GET", Path: spec.IdP.Route("callback"), RawQuery: q, Host: s.Host}
		if c.CBMethod == "POST" {
			r = obs.HTTPReq{Method: "POST", Path: spec.IdP.Route("callback"), ContentType: "application/x-www-form-urlencoded", Body: q, Host: s.Host}
		}
		return obs.Do(w.Handler, r)
	}
	switch c.Flow {
	case "sso":
		hr, _, err := ssoRender(s, now)
		if err != nil {
			panic("harness: " + err.Error())
		}
		rep := obs.Do(w.Handler, hr)
		note(rep)
		sent := evalSent(s.Spec, func(string) bool { return true }, effHost(s), hr, now)
		res.violated = sent.Violated
		var allowed []allowedTarget
		if sent.IssuerSP >= 0 {
			allowed = acsTargets(spec.SPs[sent.IssuerSP])
		}
		okCalls, _ := createCalls(w)
		add(c02CheckReply("sso", rep, allowed, true))
		for _, call := range okCalls {
			res.accepted = true
			acsURL, binding := call.Args[0], call.Args[1]
			found := false
			for _, a := range allowed {
				if a.URL == acsURL && a.Binding == binding {
					found = true
				}
			}
			if !found {
				key := "C02/persisted-pair-not-registered"
				if strings.Contains(acsURL, attackerMark) {
					key = "C02/persisted-attacker-url"
				}
				add(ev.V(key, "CreateAuthRequest(acs=%q, binding=%q) is not an entry registered for %q: %v", acsURL, binding, sent.Issuer, allowed))
			}
			// complete the login and come back through the callback
			id := call.Args[len(call.Args)-1]
			pending := callback(id)
			note(pending)
			add(c02CheckReply("callback-pending", pending, []allowedTarget{{acsURL, binding}}, false))
			w.Store.CompleteLogin(id, "uid-0")
			done := callback(id)
			note(done)
			add(c02CheckReply("callback-done", done, []allowedTarget{{acsURL, binding}}, false))
		}
	case "logout":
		x := xt.Write(c.Logout.Rendered(now).Tree(s.Style), s.Style.W)
		hr, _, err := spsim.Encode(spec.IdP.Route("slo"), x, c.LogoutTr, nil)
		if err != nil {
			panic("harness: " + err.Error())
		}
		hr.Host = s.Host
		rep := obs.Do(w.Handler, hr)
		note(rep)
		var allowed []allowedTarget
		for _, sp := range spec.SPs {
			if sp.EntityID == c.Logout.Issuer && len(sp.SLO) > 0 {
				allowed = []allowedTarget{{sp.SLO[0].Location, world.BindPost}}
			}
		}
		add(c02CheckReply("logout", rep, allowed, true))
	case "reregister":
		// 1. the SP is used once (whatever the IdP remembers about it is now warm)
		sp := spec.SPs[s.SP]
		logout := func() obs.Reply {
			l := spsim.NewLogoutReq("_c02-logout", sp.EntityID, "usermark0")
			hr, _, _ := spsim.Encode(spec.IdP.Route("slo"), xt.Write(l.Rendered(time.Now()).Tree(s.Style), s.Style.W), spsim.Transport{Binding: "post", Plus: true, Encoding: A, RelayState: "rs"}, nil)
			hr.Host = s.Host
			return obs.Do(w.Handler, hr)
		}
		sso := func() obs.Reply {
			hr, _, err := ssoRender(s, time.Now())
			if err != nil {
				panic("harness: " + err.Error())
			}
			return obs.Do(w.Handler, hr)
		}
		note(sso())
		note(logout())
		// 2. the SP re-registers with moved endpoints
		moved := sp
		moved.ACS = nil
		for i, a := range sp.ACS {
			moved.ACS = append(moved.ACS, world.ACSSpec{Binding: a.Binding, Location: fmt.Sprintf("https://sp%d.example/moved/acs/%d", s.SP, i), Index: a.Index, IsDefault: a.IsDefault})
		}
		moved.SLO = []world.SLOSpec{{Binding: world.BindPost, Location: fmt.Sprintf("https://sp%d.example/moved/slo", s.SP)}}
		if err := w.Store.ReplaceSP(moved); err != nil {
			panic("harness: " + err.Error())
		}
		w.Store.ResetLog()
		// 3. from now on only the new registration counts
		rep := sso()
		note(rep)
		allowed := acsTargets(moved)
		add(c02CheckReply("sso-after-reregistration", rep, allowed, true))
		okCalls, _ := createCalls(w)
		for _, call := range okCalls {
			res.accepted = true
			found := false
			for _, a := range allowed {
				if a.URL == call.Args[0] && a.Binding == call.Args[1] {
					found = true
				}
			}
			if !found {
				add(ev.V("C02/persisted-pair-not-registered", "after re-registration CreateAuthRequest(acs=%q, binding=%q) is not an entry of the current registration %v", call.Args[0], call.Args[1], allowed))
			}
		}
		lrep := logout()
		note(lrep)
		add(c02CheckReply("logout-after-reregistration", lrep, []allowedTarget{{moved.SLO[0].Location, world.BindPost}}, true))
	case "callback":
		if c.CBTwin != "" {
			// the id handed to the callback names no stored request; one that a lenient reading would take it for exists
			// (blank for '+', other letter case, surrounding blanks): nothing may be delivered anywhere
			rep := callback(c.CBTwin)
			note(rep)
			d := obs.Decode(rep)
			if d.Kind == obs.KindPostForm || d.Kind == obs.KindRedirectSAML {
				add(ev.V("C02/delivered-for-an-unknown-request", "callback id %q names no stored request (stored: %q); the reply was delivered to %q", c.CBTwin, c.Seed.ID, d.Target))
			}
			break
		}
		rep := callback(c.Seed.ID)
		note(rep)
		add(c02CheckReply("callback-seeded", rep, []allowedTarget{{c.Seed.ACS, c.Seed.Binding}}, false))
	}
	return res
}

func TestC02(t *testing.T) {
	col := ev.For("C02", "exploration", c02Rule)
	searchRapid(t, col, genC02Case, func(c C02Case) []*ev.Violation {
		res := c02Run(c)
		nontrivial := len(c.Channels) > 0 && res.targeted
		if c.Flow == "callback" {
			nontrivial = res.targeted && xt.HasSpecial(c.Seed.ACS+"?")
		}
		classes := []string{"flow/" + c.Flow, fmt.Sprintf("targeted=%v", res.targeted), "replies/" + strings.Join(res.kinds, "+")}
		for _, ch := range c.Channels {
			classes = append(classes, "channel/"+ch)
		}
		if c.Flow == "sso" {
			classes = append(classes, fmt.Sprintf("sso-accepted=%v", res.accepted))
		}
		fp := ev.Fingerprint(c.Flow, c.Channels, c.SSO.defectNames(), res.kinds, len(c.SSO.Spec.SPs[c.SSO.SP].ACS), len(c.SSO.Spec.SPs[c.SSO.SP].SLO), c.SSO.Req.ProtocolBinding)
		col.Case(nontrivial, fp, classes, func() any {
			return map[string]any{"flow": c.Flow, "channels": c.Channels, "sp_acs": c.SSO.Spec.SPs[c.SSO.SP].ACS, "sp_slo": c.SSO.Spec.SPs[c.SSO.SP].SLO,
				"acs_url_in_request": c.SSO.Req.ACSURL, "protocol_binding": c.SSO.Req.ProtocolBinding, "replies": res.kinds, "seed": c.Seed, "violated": res.violated}
		})
		return res.vs
	})
}
