package props

// C15 — Concurrent requests are isolated, race-free and get unique message IDs.
//
// A generated plan (N clients, each with its own service provider, user, Host header, RelayState
// and request IDs, all carrying the session token zzsess<i>sesszz) is executed by real goroutines against
// ONE provider in a binary built with -race. Schedules are sampled by the Go scheduler, not
// enumerated: this is the weakest check of the set and its evidence says so.

import (
	"bytes"
	"encoding/pem"
	"fmt"
	"os"
	"regexp"
	"runtime"
	"strings"
	"sync"
	"sync/atomic"
	"testing"
	"time"

	"pgregory.net/rapid"

	"verif/harness/ev"
	"verif/harness/obs"
	"verif/harness/spsim"
	"verif/harness/world"
	"verif/harness/xt"
)

const c15Rule = "rapid generates plans: N in {2..64} clients, each a sequence of 3..12 operations drawn from {sso, sso+login+callback (POST or Redirect delivery), logout, attribute query, metadata, certificate} for its own session (own SP, user, Host header under a host-derived issuer, RelayState, request IDs - every such string carries the token zzsess<i>sesszz), with generated yield points; every second plan is preceded by a storm (4..40 further sessions doing callbacks on completed requests and one other request each, concurrently, while one or two storage operations fail on every call - signing key that does not match its certificate, key errors, user lookup failures, ...), after which the storage is repaired; all clients start behind a barrier and run as goroutines against one provider in a -race build, under GOMAXPROCS drawn from {2, 4, 16}. Oracle: (1) the race detector stays silent (a report fails the binary and is turned into a violation by the driver); (2) every reply is checked against its own session with the sequential oracles of C03 / C13 / C12 / C11 (request ID, consumer URL, audience, issuer host, user attributes, RelayState) and every decoded layer of it is scanned for tokens of any other session; (3) all response, assertion, logout-response and metadata IDs collected from all goroutines are pairwise distinct NCNames; (4) the provider keeps serving: if no request at all has been answered for 15 s and every goroutine inside zitadel/saml is parked on a channel or lock in two stack dumps 3 s apart, the requests are blocked for good (a merely slow run is inconclusive, never a violation). Non-trivial: at least two requests of different sessions overlapped in time (entry/exit stamps). Distinct by plan shape. Interleavings are sampled, not enumerated."

type C15Case struct {
	N      int        `json:"clients"`
	Procs  int        `json:"gomaxprocs"`
	Ops    [][]string `json:"ops"` // per client
	Yields []int      `json:"yields"`
	// Storm, when set, precedes the plan: StormN further sessions use the provider at the same time while the storage
	// misbehaves in the stated way; then the storage is repaired. Whatever those requests were answered, the sessions of
	// the plan must afterwards be served as if nothing had happened.
	StormN      int           `json:"storm_clients,omitempty"`
	StormFaults []world.Fault `json:"storm_faults,omitempty"`
	// Forwarded: the provider sits behind proxies and derives its issuer from Forwarded headers; every request carries two
	// header lines - the outer proxy's (the same for everybody, no host) and the inner one's with the public host
	Forwarded bool `json:"forwarded,omitempty"`
}

var c15Ops = []string{"sso", "flow-post", "flow-post", "flow-redirect", "logout", "attrquery", "metadata", "certificate"}

func genC15Case(t *rapid.T) C15Case {
	c := C15Case{N: rapid.SampledFrom([]int{2, 3, 4, 8, 8, 16, 16, 32, 64}).Draw(t, "clients"), Procs: rapid.SampledFrom([]int{2, 4, 16}).Draw(t, "gomaxprocs")}
	for i := 0; i < c.N; i++ {
		n := rapid.IntRange(3, 12).Draw(t, "nops")
		var ops []string
		for k := 0; k < n; k++ {
			ops = append(ops, rapid.SampledFrom(c15Ops).Draw(t, "op"))
		}
		c.Ops = append(c.Ops, ops)
		c.Yields = append(c.Yields, rapid.IntRange(0, 3).Draw(t, "yield"))
	}
	c.Forwarded = rapid.IntRange(0, 2).Draw(t, "forwarded") == 0
	if rapid.Bool().Draw(t, "storm") {
		c.StormN = rapid.SampledFrom([]int{4, 17, 24, 40}).Draw(t, "stormclients")
		c.StormFaults = []world.Fault{rapid.SampledFrom(c15StormFaults).Draw(t, "stormfault")}
		if rapid.IntRange(0, 2).Draw(t, "stormfault2") == 0 {
			c.StormFaults = append(c.StormFaults, rapid.SampledFrom(c15StormFaults).Draw(t, "stormfaultb"))
		}
	}
	return c
}

// every call of the operation fails in the stated way while the storm lasts
var c15StormFaults = []world.Fault{
	{Op: "GetResponseSigningKey", Kind: "mismatch"}, {Op: "GetResponseSigningKey", Kind: "mismatch"}, {Op: "GetResponseSigningKey", Kind: "mismatch"},
	{Op: "GetResponseSigningKey", Kind: "error"}, {Op: "GetResponseSigningKey", Kind: "nokey"}, {Op: "GetResponseSigningKey", Kind: "garbagecert"},
	{Op: "GetMetadataSigningKey", Kind: "mismatch"}, {Op: "GetMetadataSigningKey", Kind: "error"},
	{Op: "SetUserinfoWithUserID", Kind: "error"}, {Op: "SetUserinfoWithUserID", Kind: "partial"}, {Op: "SetUserinfoWithLoginName", Kind: "error"},
	{Op: "GetEntityIDByAppID", Kind: "error"}, {Op: "AuthRequestByID", Kind: "error"}, {Op: "GetEntityByID", Kind: "error"}, {Op: "CreateAuthRequest", Kind: "error"},
}

// c15Tok is the token every string of session i carries. It is long on purpose: replies contain kilobytes of base64 (signature
// values, certificates), and a short token such as zz91zz turns up in random base64 often enough to raise a false alarm in a
// run of some ten thousand replies (it did, once, in the thorough tier).
func c15Tok(i int) string { return fmt.Sprintf("zzsess%dsesszz", i) }

func c15Spec(n int) world.Spec {
	// ErrorURL is configured as a path (emitted verbatim: the same for every tenant)
	spec := world.Spec{IdP: world.IdPConfig{IssuerMode: "host", IssuerPath: "/saml", SignatureAlgorithm: world.AlgRSASHA256, MetadataSigAlg: world.AlgRSASHA256, ErrorURL: "/ui/error"}, KeysPerIssuer: true}
	for i := 0; i < n; i++ {
		tk := c15Tok(i)
		sp := world.SPSpec{
			AppID: "app-" + tk, EntityID: "https://sp" + tk + ".example/metadata", AuthnRequestsSigned: A, KeyNames: []string{world.RSAKeyNames[i%len(world.RSAKeyNames)]},
			// not in index order, two entries of one binding: document order and index order disagree
			ACS: []world.ACSSpec{acs(world.BindPost, "https://sp"+tk+".example/acs/post-first", "5", A), acs(world.BindRedirect, "https://sp"+tk+".example/acs/redirect", "2", A), acs(world.BindPost, "https://sp"+tk+".example/acs/post", "1", A)},
			SLO: []world.SLOSpec{{Binding: world.BindPost, Location: "https://sp" + tk + ".example/slo"}},
		}
		spec.SPs = append(spec.SPs, sp)
		u := world.UserSpec{
			UserID: "uid-" + tk, LoginName: "login" + tk + "@users.example", Email: "mail" + tk + "@users.example", FullName: "Full " + tk, GivenName: "Given" + tk,
			Surname: "Sur" + tk, Username: "user" + tk, UserIDAttr: "id" + tk,
			Custom: []world.CustomAttr{{Name: "custom", FriendlyName: "Custom", NameFormat: "urn:oasis:names:tc:SAML:2.0:attrname-format:basic", Values: []string{"cv1" + tk, "cv2" + tk}}},
		}
		// records differ in shape, not only in values: what one user's record has and another's lacks is where a value left over
		// from another session shows
		switch i % 3 {
		case 1:
			u.Custom, u.Email, u.FullName = nil, "", ""
		case 2:
			u.Custom = []world.CustomAttr{{Name: "department-" + tk, NameFormat: "urn:oasis:names:tc:SAML:2.0:attrname-format:basic", Values: []string{"dept" + tk}}, {Name: "roles-" + tk, Values: []string{"r1" + tk, "r2" + tk, "r3" + tk}}}
			u.Surname = ""
		}
		spec.Users = append(spec.Users, u)
	}
	return spec
}

// c15Seed adds, for each of the n sessions, three stored requests: login completed with POST delivery, completed with Redirect
// delivery, and not completed. With sharedIDs every session's service provider happened to choose the same AuthnRequest ID.
func c15Seed(spec *world.Spec, n int, sharedIDs bool) {
	for i := 0; i < n; i++ {
		tk := c15Tok(i)
		sp, u := spec.SPs[i], spec.Users[i]
		rid := func(kind string) string {
			if sharedIDs {
				return "_id-chosen-by-several-providers"
			}
			return "_seed" + kind + tk
		}
		spec.Requests = append(spec.Requests,
			world.RequestSpec{ID: "seed-done-post-" + tk, AppID: sp.AppID, RelayState: "rs-dp-" + tk, ACS: sp.ACS[0].Location, Binding: sp.ACS[0].Binding, AuthRequestID: rid("dp"), UserID: u.UserID, Done: true},
			world.RequestSpec{ID: "seed-done-redirect-" + tk, AppID: sp.AppID, RelayState: "rs-dr-" + tk, ACS: sp.ACS[1].Location, Binding: sp.ACS[1].Binding, AuthRequestID: rid("dr"), UserID: u.UserID, Done: true},
			world.RequestSpec{ID: "seed-done-body-" + tk, AppID: sp.AppID, RelayState: "rs-db-" + tk, ACS: "", Binding: world.BindPost, AuthRequestID: rid("db"), UserID: u.UserID, Done: true},
			world.RequestSpec{ID: "seed-pending-" + tk, AppID: sp.AppID, RelayState: "rs-p-" + tk, ACS: sp.ACS[0].Location, Binding: sp.ACS[0].Binding, AuthRequestID: rid("p"), UserID: u.UserID})
	}
}

// c15VerifyAssertion: an assertion that left under concurrency verifies like any other (own verifier and goxmldsig agree).
func c15VerifyAssertion(cc *c15Collect, i int, op string, d *obs.Decoded, a *obs.AssertionInfo, key *world.KeyPair) {
	if a == nil || a.Node == nil || a.Node.Child(world.NSDS, "Signature") == nil {
		return // unsigned assertions are C04's (redirect replies sign the query string)
	}
	stats := map[string]int{}
	if v := verifyEnvelopedOnWire("assertion under concurrency", d.XML, a.Node, key.CertB64(), stats); v != nil {
		cc.add(ev.V("C15/assertion-signature-does-not-verify", "client %d %s: %s", i, op, v.What))
	}
}

var reTok = regexp.MustCompile(`zzsess(\d+)sesszz`)

type c15Collect struct {
	mu       sync.Mutex
	vs       []*ev.Violation
	ids      map[string]string // id -> where
	requests int
	overlaps int64
	inflight int64
	finished int64 // requests answered so far (progress signal of the watchdog)
	byOp     map[string]int
	// sameHost: all sessions reach the provider under one host name (users of one tenant) instead of one host each
	sameHost bool
	// sameSP: all clients are users' browsers of one service provider and one user account (session 0's)
	sameSP bool
	// forwarded: requests reach the provider through proxies (see C15Case.Forwarded)
	forwarded bool
	// sharedReqIDs: the AuthnRequests of all sessions carry the same message IDs (IDs are chosen by each provider on its own)
	sharedReqIDs bool
}

func (cc *c15Collect) add(v *ev.Violation) {
	cc.mu.Lock()
	if len(cc.vs) < 5 {
		cc.vs = append(cc.vs, v)
	}
	cc.mu.Unlock()
}

func (cc *c15Collect) id(id, where string) {
	if !xt.IsNCName(id) {
		cc.add(ev.V("C15/id-not-ncname", "%s ID %q is not a legal xs:ID", where, id))
		return
	}
	cc.mu.Lock()
	prev, dup := cc.ids[id]
	cc.ids[id] = where
	cc.mu.Unlock()
	if dup {
		cc.add(ev.V("C15/duplicate-id", "ID %q used by %s and by %s", id, prev, where))
	}
}

// c15Do returns the function that sends one request of session i and applies the isolation oracle to the reply.
func c15Do(w *world.World, cc *c15Collect, i int, host string, yield int) func(op string, hr obs.HTTPReq) (obs.Reply, time.Time, time.Time) {
	return c15DoOpt(w, cc, i, host, yield, nil)
}

// c15DoOpt: mk, when set, supplies the context and write hook of each request (the scheduled runs).
func c15DoOpt(w *world.World, cc *c15Collect, i int, host string, yield int, mk func() obs.Opt) func(op string, hr obs.HTTPReq) (obs.Reply, time.Time, time.Time) {
	return func(op string, hr obs.HTTPReq) (obs.Reply, time.Time, time.Time) {
		hr.Host = host
		if cc.forwarded {
			hr.Host = "internal-proxy.local"
			hr.Headers = append(hr.Headers, [2]string{"Forwarded", "for=192.0.2.7;proto=https"}, [2]string{"Forwarded", "for=10.0.0.7;host=" + host})
		}
		for k := 0; k < yield; k++ {
			runtime.Gosched()
		}
		if atomic.AddInt64(&cc.inflight, 1) > 1 {
			atomic.AddInt64(&cc.overlaps, 1)
		}
		t0 := time.Now()
		var o obs.Opt
		if mk != nil {
			o = mk()
		}
		rep := obs.DoOpt(w.Handler, hr, o)
		t1 := time.Now()
		atomic.AddInt64(&cc.inflight, -1)
		atomic.AddInt64(&cc.finished, 1)
		cc.mu.Lock()
		cc.requests++
		cc.byOp[op]++
		cc.mu.Unlock()
		if rep.Panic != "" {
			cc.add(ev.V("C15/panic", "client %d %s: handler panicked: %s", i, op, short(rep.Panic, 100)))
		}
		// isolation: no token of another session in any decoded layer
		d := obs.Decode(rep)
		for _, text := range append(replyTexts(rep, d), lenientDecode(rep.Header.Get("Location"))) {
			for _, m := range reTok.FindAllStringSubmatch(text, -1) {
				if m[1] != fmt.Sprint(i) {
					cc.add(ev.V("C15/foreign-session-data", "client %d %s: reply contains %q, data of session %s", i, op, m[0], m[1]))
					return rep, t0, t1
				}
			}
		}
		return rep, t0, t1
	}
}

// c15Client runs the operations of client i.
func c15Client(w *world.World, spec world.Spec, i int, ops []string, yield int, cc *c15Collect) {
	c15ClientOpt(w, spec, i, ops, yield, cc, nil)
}

func c15ClientOpt(w *world.World, spec world.Spec, i int, ops []string, yield int, cc *c15Collect, mk func() obs.Opt) {
	sess := i
	if cc.sameSP {
		sess = 0
	}
	tk := c15Tok(sess)
	host := "tenant" + tk + ".idp.example"
	if cc.sameHost {
		host = "one-tenant.idp.example"
	}
	sp := spec.SPs[sess]
	user := spec.Users[sess]
	entity := spec.IdP.EntityID(host)
	do := c15DoOpt(w, cc, sess, host, yield, mk)
	// the storage keeps one response-signing key per issuer: what this session sees signed and published is its own issuer's
	ownKey := world.Key("idp-response")
	if spec.KeysPerIssuer {
		ownKey = world.Key(world.ResponseKeyFor(spec.IdP.ExpectedIssuer(host)))
	}
	wr := func(n *xt.Node) []byte { return xt.Write(n, plainStyle.W) }
	for k, op := range ops {
		reqID := fmt.Sprintf("_req%s-%d", tk, k)
		relay := fmt.Sprintf("rs-%s-%d", tk, k)
		if cc.sameSP {
			reqID, relay = fmt.Sprintf("_req%s-c%d-%d", tk, i, k), fmt.Sprintf("rs-%s-c%d-%d", tk, i, k)
		} else if cc.sharedReqIDs {
			reqID = fmt.Sprintf("_id-chosen-by-several-providers-%d", k)
		}
		switch op {
		case "sso", "flow-post", "flow-redirect":
			a := spsim.NewAuthnReq(reqID, sp.EntityID)
			a.Destination = spec.IdP.Advertised("sso", host)
			switch {
			case op == "flow-redirect":
				a.ProtocolBinding = world.BindRedirect
			case k%3 == 1:
				a.ProtocolBinding = world.BindPost
			case k%3 == 2:
				a.ProtocolBinding = "urn:example:unlisted"
			}
			binding := []string{"post", "redirect"}[k%2]
			hr, _, _ := spsim.Encode(spec.IdP.Route("sso"), wr(a.Tree(plainStyle)), spsim.Transport{Binding: binding, Plus: true, Encoding: A, RelayState: relay}, nil)
			rep, _, _ := do(op+"/sso", hr)
			if rep.Status != 303 {
				cc.add(ev.V("C15/sso-not-accepted", "client %d: valid request got status %d: %s", i, rep.Status, short(string(rep.Body), 150)))
				continue
			}
			loc := rep.Header.Get("Location")
			_, id, _ := strings.Cut(loc, "authRequestID=")
			stored := w.Store.Request(id)
			if stored == nil {
				cc.add(ev.V("C15/login-redirect-unknown-id", "client %d: redirected to %q, no such stored request", i, loc))
				continue
			}
			wantACS := refSelect(sp, a.ProtocolBinding)
			if a.ProtocolBinding == A {
				wantACS = refSelect(sp, "")
			}
			if len(wantACS) == 0 || stored.S.ACS != wantACS[0].Location || stored.S.Binding != wantACS[0].Binding {
				cc.add(ev.V("C15/consumer-endpoint-depends-on-history", "client %d: request %s (ProtocolBinding %q) persisted with (%q, %q); the registration says %v", i, reqID, a.ProtocolBinding, stored.S.ACS, stored.S.Binding, wantACS))
				continue
			}
			if stored.S.AppID != sp.AppID || stored.S.RelayState != relay || stored.S.AuthRequestID != reqID || !strings.Contains(stored.S.ACS, tk) {
				cc.add(ev.V("C15/stored-request-mixed-up", "client %d: stored request %+v does not belong to this session (app %s, relay %s, request %s)", i, stored.S, sp.AppID, relay, reqID))
				continue
			}
			if op == "sso" {
				continue
			}
			w.Store.CompleteLogin(id, user.UserID)
			rep2, t0, t1 := do(op+"/callback", callbackReq(spec.IdP, id))
			want := stored.S
			want.Done, want.UserID = true, user.UserID
			s2 := spec
			s2.Apps = map[string]string{sp.AppID: sp.EntityID}
			vs, d := c03Compare(s2, host, want, user, rep2, t0, t1)
			for _, v := range vs {
				if v.Key == "C03/id-reused" {
					v.Key = "C15/duplicate-id"
				} else {
					v.Key = "C15/callback-" + strings.TrimPrefix(v.Key, "C03/")
				}
				v.What = fmt.Sprintf("client %d: %s", i, v.What)
				cc.add(v)
			}
			_ = d
		case "cb-done-body", "sso-refused-body":
			// replies that are written into the HTTP body as they are (no consumer URL is known): a stored request without one,
			// and a request of an issuer nobody registered
			var rep obs.Reply
			wantID := ""
			if op == "cb-done-body" {
				rep, _, _ = do(op, callbackReq(spec.IdP, "seed-done-body-"+tk))
				wantID = w.Store.Request("seed-done-body-" + tk).S.AuthRequestID
			} else {
				a := spsim.NewAuthnReq(reqID, "https://unregistered-"+tk+".example/metadata")
				hr, _, _ := spsim.Encode(spec.IdP.Route("sso"), wr(a.Tree(plainStyle)), spsim.Transport{Binding: "post", Plus: true, Encoding: A, RelayState: relay}, nil)
				rep, _, _ = do(op, hr)
				wantID = reqID
			}
			d := obs.Decode(rep)
			r := obs.ReadResponse(obs.FindResponse(d.Root()))
			switch {
			case r == nil:
				cc.add(ev.V("C15/body-reply", "client %d %s: status %d, no SAML Response in the body: %s", i, op, rep.Status, short(string(rep.Body), 100)))
			case r.InResponseTo != wantID || r.Issuer != entity:
				cc.add(ev.V("C15/body-reply-mixed-up", "client %d %s: InResponseTo %q Issuer %q, own: %q %q", i, op, r.InResponseTo, r.Issuer, wantID, entity))
			case op == "cb-done-body" && (!r.Success() || len(r.Assertions) != 1 || r.Assertions[0].NameID != user.Username):
				cc.add(ev.V("C15/body-reply-mixed-up", "client %d %s: status %s, not the assertion about %q", i, op, r.Status, user.Username))
			}
		case "cb-done-post", "cb-done-redirect", "cb-pending":
			// callbacks on requests seeded for this session (see c15Seed)
			id := "seed-" + strings.TrimPrefix(op, "cb-") + "-" + tk
			stored := w.Store.Request(id)
			if stored == nil {
				panic("harness: no seeded request " + id)
			}
			rep2, t0, t1 := do(op, callbackReq(spec.IdP, id))
			if op == "cb-pending" {
				d := obs.Decode(rep2)
				if r := obs.ReadResponse(obs.FindResponse(d.Root())); r != nil && r.Success() {
					cc.add(ev.V("C15/success-for-pending-request", "client %d: callback on its own request whose login is not completed was answered with Success (InResponseTo %q)", i, r.InResponseTo))
				}
				for _, text := range replyTexts(rep2, d) {
					if strings.Contains(text, "user"+tk) || strings.Contains(text, "mail"+tk) {
						cc.add(ev.V("C15/user-data-for-pending-request", "client %d: reply to the callback on a pending request carries the user's data", i))
						break
					}
				}
				continue
			}
			s2 := spec
			s2.Apps = map[string]string{sp.AppID: sp.EntityID}
			vs, d3 := c03Compare(s2, host, stored.S, user, rep2, t0, t1)
			for _, v := range vs {
				if v.Key == "C03/id-reused" {
					v.Key = "C15/duplicate-id"
				} else {
					v.Key = "C15/callback-" + strings.TrimPrefix(v.Key, "C03/")
				}
				v.What = fmt.Sprintf("client %d: %s", i, v.What)
				cc.add(v)
			}
			if len(vs) == 0 && d3 != nil && d3.Doc != nil {
				if r3 := obs.ReadResponse(obs.FindResponse(d3.Root())); r3 != nil && r3.Success() && len(r3.Assertions) == 1 {
					c15VerifyAssertion(cc, i, op, d3, r3.Assertions[0], ownKey)
				}
			}
		case "logout":
			l := spsim.NewLogoutReq(reqID, sp.EntityID, user.Username)
			l.IssueInstant = spsim.Instant(time.Now().Add(-10*time.Second), 0)
			hr, _, _ := spsim.Encode(spec.IdP.Route("slo"), wr(l.Tree(plainStyle)), spsim.Transport{Binding: "post", Plus: true, Encoding: A, RelayState: relay}, nil)
			rep, _, _ := do(op, hr)
			d := obs.Decode(rep)
			if d.Doc == nil || d.Root().Local != "LogoutResponse" {
				cc.add(ev.V("C15/logout-reply", "client %d: %s status %d", i, d.Kind, rep.Status))
				continue
			}
			r := obs.ReadResponse(d.Root())
			cc.id(r.ID, fmt.Sprintf("LogoutResponse of client %d", i))
			if !r.Success() || r.InResponseTo != reqID || r.Issuer != entity || d.Target != sp.SLO[0].Location || d.RelayState != relay {
				cc.add(ev.V("C15/logout-response-mixed-up", "client %d: status %s InResponseTo %q Issuer %q target %q RelayState %q; own: %q %q %q %q", i, r.Status, r.InResponseTo, r.Issuer, d.Target, d.RelayState, reqID, entity, sp.SLO[0].Location, relay))
			}
		case "attrquery":
			q := spsim.NewAttrQuery(reqID, sp.EntityID, user.LoginName)
			if (i+k)%2 == 1 {
				// all attributes by name, one of them with the values the requester is interested in (the answer is by name)
				for _, e := range expectedAttrs(user) {
					qa := spsim.QAttr{Name: e.Name, NameFormat: e.NameFormat, FriendlyName: A}
					if len(e.Values) > 1 {
						qa.Values = e.Values[:1]
					}
					q.Attrs = append(q.Attrs, qa)
				}
			}
			hr, _, _ := spsim.Encode(spec.IdP.Route("attribute"), wr(spsim.Envelope(q.QueryTree(plainStyle), "soap")), spsim.Transport{Binding: "soap"}, nil)
			rep, _, _ := do(op, hr)
			d := obs.Decode(rep)
			r := obs.ReadResponse(obs.FindResponse(d.Root()))
			if r == nil || !r.Success() || len(r.Assertions) != 1 {
				cc.add(ev.V("C15/attrquery-reply", "client %d: status %d %s", i, rep.Status, short(string(rep.Body), 120)))
				continue
			}
			a := r.Assertions[0]
			cc.id(r.ID, fmt.Sprintf("attribute-query Response of client %d", i))
			cc.id(a.ID, fmt.Sprintf("attribute-query Assertion of client %d", i))
			if r.InResponseTo != reqID || r.Issuer != entity || a.NameID != user.Username || len(a.Audiences) != 1 || a.Audiences[0] != sp.EntityID || attrMultisetDiff(expectedAttrs(user), a.Attrs) != "" {
				cc.add(ev.V("C15/attrquery-response-mixed-up", "client %d: InResponseTo %q Issuer %q NameID %q Audience %v", i, r.InResponseTo, r.Issuer, a.NameID, a.Audiences))
			}
			c15VerifyAssertion(cc, i, op, d, r.Assertions[0], ownKey)
		case "metadata":
			rep, _, _ := do(op, obs.HTTPReq{Method: "GET", Path: spec.IdP.Route("metadata")})
			doc, err := xt.Parse(rep.Body)
			if err != nil || rep.Status != 200 {
				cc.add(ev.V("C15/metadata-reply", "client %d: status %d %v", i, rep.Status, err))
				continue
			}
			if id := doc.Root.AttrV("entityID"); id != entity {
				cc.add(ev.V("C15/metadata-issuer-mixed-up", "client %d: entityID %q, own %q", i, id, entity))
			}
			for _, kd := range doc.Root.FindAll(world.NSMD, "KeyDescriptor") {
				if u := kd.AttrV("use"); u == "signing" || u == "" {
					for _, x := range kd.FindAll(world.NSDS, "X509Certificate") {
						if strings.Join(strings.Fields(x.Text()), "") != ownKey.CertB64() {
							cc.add(ev.V("C15/metadata-announces-another-issuers-key", "client %d: the metadata for %s announces a signing certificate that is not the one of this issuer's key", i, host))
						}
					}
				}
			}
			doc.Root.Walk(func(n *xt.Node) {
				if n.Space == world.NSMD {
					if id, ok := n.Attr("ID"); ok {
						cc.id(id, fmt.Sprintf("metadata %s of client %d", n.Local, i))
					}
				}
			})
		case "certificate":
			rep, _, _ := do(op, obs.HTTPReq{Method: "GET", Path: spec.IdP.Route("certificate")})
			if blk, _ := pem.Decode(rep.Body); obs.Decode(rep).Kind != obs.KindPEM || blk == nil || !bytes.Equal(blk.Bytes, ownKey.CertDER) {
				cc.add(ev.V("C15/certificate-reply", "client %d: status %d, body is not the PEM of the response-signing certificate: %s", i, rep.Status, short(string(rep.Body), 80)))
			}
		}
	}
}

// c15Storm is one session of the storm: a callback on its own completed request, then one request to another endpoint,
// all while the storage misbehaves. The replies are only held to the isolation oracle (what a failing storage must be
// answered with is C10's subject).
func c15Storm(w *world.World, spec world.Spec, i int, cc *c15Collect) {
	tk := c15Tok(i)
	host := "tenant" + tk + ".idp.example"
	sp, user := spec.SPs[i], spec.Users[i]
	do := c15Do(w, cc, i, host, i%3)
	wr := func(n *xt.Node) []byte { return xt.Write(n, plainStyle.W) }
	do("storm/callback", callbackReq(spec.IdP, "storm-"+tk))
	switch i % 5 {
	case 0:
		q := spsim.NewAttrQuery("_storm"+tk, sp.EntityID, user.LoginName)
		hr, _, _ := spsim.Encode(spec.IdP.Route("attribute"), wr(spsim.Envelope(q.QueryTree(plainStyle), "soap")), spsim.Transport{Binding: "soap"}, nil)
		do("storm/attrquery", hr)
	case 1:
		do("storm/metadata", obs.HTTPReq{Method: "GET", Path: spec.IdP.Route("metadata")})
	case 2:
		a := spsim.NewAuthnReq("_storm"+tk, sp.EntityID)
		hr, _, _ := spsim.Encode(spec.IdP.Route("sso"), wr(a.Tree(plainStyle)), spsim.Transport{Binding: "post", Plus: true, Encoding: A, RelayState: "rs-" + tk}, nil)
		do("storm/sso", hr)
	case 3:
		l := spsim.NewLogoutReq("_storm"+tk, sp.EntityID, user.Username)
		l.IssueInstant = spsim.Instant(time.Now().Add(-10*time.Second), 0)
		hr, _, _ := spsim.Encode(spec.IdP.Route("slo"), wr(l.Tree(plainStyle)), spsim.Transport{Binding: "post", Plus: true, Encoding: A, RelayState: "rs-" + tk}, nil)
		do("storm/logout", hr)
	case 4:
		do("storm/callback-again", callbackReq(spec.IdP, "storm-"+tk))
	}
}

var reGoroutine = regexp.MustCompile(`(?m)^goroutine (\d+) \[([^\],]+)`)

// c15Blocked inspects a dump of all goroutine stacks: it returns the goroutines that are inside zitadel/saml, and whether
// every one of them is parked on a synchronisation primitive (channel operation, lock, condition, wait group).
func c15Blocked() (inside map[string]string, allParked bool, sample string) {
	buf := make([]byte, 8<<20)
	buf = buf[:runtime.Stack(buf, true)]
	inside = map[string]string{}
	allParked = true
	for _, g := range strings.Split(string(buf), "\n\n") {
		if !strings.Contains(g, "github.com/zitadel/saml/pkg/") {
			continue
		}
		m := reGoroutine.FindStringSubmatch(g)
		if m == nil {
			continue
		}
		inside[m[1]] = m[2]
		switch m[2] {
		case "chan send", "chan receive", "select", "select (no cases)", "semacquire", "sync.Mutex.Lock", "sync.RWMutex.Lock", "sync.RWMutex.RLock", "sync.Cond.Wait", "sync.WaitGroup.Wait", "chan send (nil chan)", "chan receive (nil chan)":
			if sample == "" {
				var frames []string
				for _, line := range strings.Split(g, "\n") {
					if strings.HasPrefix(line, "github.com/zitadel/saml/") {
						frames = append(frames, strings.TrimPrefix(line[:strings.LastIndex(line, "(")], "github.com/zitadel/saml/pkg/"))
					}
					if len(frames) == 3 {
						break
					}
				}
				sample = m[2] + " in " + strings.Join(frames, " < ")
			}
		default:
			allParked = false
		}
	}
	return
}

// c15Await waits for the clients. No request normally takes longer than a few milliseconds; when not a single request of
// any client has been answered for 12 s, the goroutines are inspected: if all that are inside zitadel/saml are parked on
// a channel or lock, and are the same ones in the same state 3 s later, nothing in the process can ever release them -
// the requests are blocked for good, which is a violation (the provider no longer serves). Anything else that is slow is
// a harness matter (exit 2).
func c15Await(wg *sync.WaitGroup, cc *c15Collect, what string) *ev.Violation {
	done := make(chan struct{})
	go func() { wg.Wait(); close(done) }()
	last, lastChange := atomic.LoadInt64(&cc.finished), time.Now()
	begin := time.Now()
	for {
		select {
		case <-done:
			return nil
		case <-time.After(500 * time.Millisecond):
		}
		if n := atomic.LoadInt64(&cc.finished); n != last {
			last, lastChange = n, time.Now()
		}
		if time.Since(lastChange) > 12*time.Second {
			g1, parked1, sample := c15Blocked()
			time.Sleep(3 * time.Second)
			g2, parked2, _ := c15Blocked()
			same := len(g1) == len(g2) && len(g1) > 0
			for id, st := range g1 {
				if g2[id] != st {
					same = false
				}
			}
			if parked1 && parked2 && same && atomic.LoadInt64(&cc.finished) == last {
				return ev.V("C15/requests-blocked-forever", "%s: %d requests are inside the provider and none has been answered for 15 s; every one of them is parked (%s) and nothing is running that could release them", what, len(g1), sample)
			}
			if time.Since(lastChange) > 100*time.Second {
				fmt.Printf("HARNESS-FAILURE property=C15 %s made no progress for 100s and the goroutines are not all parked (inconclusive)\n", what)
				os.Exit(2)
			}
		}
		if time.Since(begin) > 300*time.Second {
			fmt.Printf("HARNESS-FAILURE property=C15 %s did not finish within 300s (inconclusive)\n", what)
			os.Exit(2)
		}
	}
}

func c15Run(c C15Case) ([]*ev.Violation, *c15Collect) {
	spec := c15Spec(c.N + c.StormN)
	if c.Forwarded {
		spec.IdP.IssuerMode = "forwarded"
	}
	for j := 0; j < c.StormN; j++ {
		i := c.N + j
		tk := c15Tok(i)
		acsE := spec.SPs[i].ACS[j%2] // POST and Redirect delivery alternate
		spec.Requests = append(spec.Requests, world.RequestSpec{ID: "storm-" + tk, AppID: spec.SPs[i].AppID, RelayState: "rs-" + tk, ACS: acsE.Location, Binding: acsE.Binding,
			AuthRequestID: "_stormreq" + tk, UserID: spec.Users[i].UserID, Done: true})
	}
	w := mustBuild(spec)
	cc := &c15Collect{ids: map[string]string{}, byOp: map[string]int{}, forwarded: c.Forwarded}
	old := runtime.GOMAXPROCS(c.Procs)
	defer runtime.GOMAXPROCS(old)
	if c.StormN > 0 {
		var faults []world.Fault
		for _, f := range c.StormFaults {
			f.Occurrence = 0
			faults = append(faults, f)
		}
		w.Store.SetFaults(faults)
		var swg sync.WaitGroup
		for j := 0; j < c.StormN; j++ {
			swg.Add(1)
			go func(i int) {
				defer swg.Done()
				c15Storm(w, spec, i, cc)
			}(c.N + j)
		}
		if v := c15Await(&swg, cc, "storm"); v != nil {
			return []*ev.Violation{v}, cc
		}
		w.Store.SetFaults(nil)
	}
	var wg sync.WaitGroup
	start := make(chan struct{})
	for i := 0; i < c.N; i++ {
		wg.Add(1)
		go func(i int) {
			defer wg.Done()
			<-start
			c15Client(w, spec, i, c.Ops[i], c.Yields[i], cc)
		}(i)
	}
	close(start)
	what := "plan"
	if c.StormN > 0 {
		what = fmt.Sprintf("plan after a storm of %d sessions under %v", c.StormN, c.StormFaults)
	}
	if v := c15Await(&wg, cc, what); v != nil {
		cc.add(v)
	}
	// IDs recorded by c03Compare's freshness set are process-wide; the local map covers the rest
	cc.mu.Lock()
	defer cc.mu.Unlock()
	return append([]*ev.Violation(nil), cc.vs...), cc
}

func TestC15(t *testing.T) {
	col := ev.For("C15", "exploration", c15Rule)
	col.Assume("interleavings are whatever the Go scheduler produces for the generated plan: sampled, not enumerated; the race detector only sees races that happen")
	raceOn := raceEnabled
	col.SetExtra("race_detector", raceOn)
	searchRapid(t, col, genC15Case, func(c C15Case) []*ev.Violation {
		reps := 1
		if os.Getenv("VERIF_REPLAY") != "" {
			reps = 200
		}
		var vs []*ev.Violation
		var cc *c15Collect
		for r := 0; r < reps && len(vs) == 0; r++ {
			vs, cc = c15Run(c)
		}
		shape := map[string]int{}
		for _, ops := range c.Ops {
			for _, o := range ops {
				shape[o]++
			}
		}
		col.Count("requests", cc.requests)
		col.Count("overlapping-request-starts", int(cc.overlaps))
		col.Count("ids-collected", len(cc.ids))
		stormClass := "storm/none"
		if c.StormN > 0 {
			stormClass = fmt.Sprintf("storm/%02d-sessions/%s", c.StormN, c.StormFaults[0])
		}
		col.Case(cc.overlaps >= 1, ev.Fingerprint(c.N, c.Procs, shape, c.StormN, c.StormFaults), []string{fmt.Sprintf("clients/%02d", c.N), fmt.Sprintf("gomaxprocs/%d", c.Procs), stormClass}, func() any {
			return map[string]any{"clients": c.N, "gomaxprocs": c.Procs, "storm_clients": c.StormN, "storm_faults": c.StormFaults, "ops_of_client_0": c.Ops[0], "requests": cc.requests, "overlapping_request_starts": cc.overlaps, "ids_collected": len(cc.ids)}
		})
		return vs
	})
}
