package props

// C15 — Concurrent requests are isolated, race-free and get unique message IDs.
//
// A generated plan (N clients, each with its own service provider, user, Host header, RelayState
// and request IDs, all carrying the session token zz<i>zz) is executed by real goroutines against
// ONE provider in a binary built with -race. Schedules are sampled by the Go scheduler, not
// enumerated: this is the weakest check of the set and its evidence says so.

import (
	"fmt"
	"os"
	"regexp"
	"runtime"
	"strings"
	"sync"
	"sync/atomic"
	"testing"
	"time"

	"pgregory.net/rapid"

	"verif/harness/ev"
	"verif/harness/obs"
	"verif/harness/spsim"
	"verif/harness/world"
	"verif/harness/xt"
)

const c15Rule = "rapid generates plans: N in {2..64} clients, each a sequence of 3..12 operations drawn from {sso, sso+login+callback (POST or Redirect delivery), logout, attribute query, metadata, certificate} for its own session (own SP, user, Host header under a host-derived issuer, RelayState, request IDs - every such string carries the token zz<i>zz), with generated yield points; all clients start behind a barrier and run as goroutines against one provider in a -race build, under GOMAXPROCS drawn from {2, 4, 16}. Oracle: (1) the race detector stays silent (a report fails the binary and is turned into a violation by the driver); (2) every reply is checked against its own session with the sequential oracles of C03 / C13 / C12 / C11 (request ID, consumer URL, audience, issuer host, user attributes, RelayState) and every decoded layer of it is scanned for tokens of any other session; (3) all response, assertion, logout-response and metadata IDs collected from all goroutines are pairwise distinct NCNames. Non-trivial: at least two requests of different sessions overlapped in time (entry/exit stamps). Distinct by plan shape. Interleavings are sampled, not enumerated."

type C15Case struct {
	N      int        `json:"clients"`
	Procs  int        `json:"gomaxprocs"`
	Ops    [][]string `json:"ops"` // per client
	Yields []int      `json:"yields"`
}

var c15Ops = []string{"sso", "flow-post", "flow-post", "flow-redirect", "logout", "attrquery", "metadata", "certificate"}

func genC15Case(t *rapid.T) C15Case {
	c := C15Case{N: rapid.SampledFrom([]int{2, 3, 4, 8, 8, 16, 16, 32, 64}).Draw(t, "clients"), Procs: rapid.SampledFrom([]int{2, 4, 16}).Draw(t, "gomaxprocs")}
	for i := 0; i < c.N; i++ {
		n := rapid.IntRange(3, 12).Draw(t, "nops")
		var ops []string
		for k := 0; k < n; k++ {
			ops = append(ops, rapid.SampledFrom(c15Ops).Draw(t, "op"))
		}
		c.Ops = append(c.Ops, ops)
		c.Yields = append(c.Yields, rapid.IntRange(0, 3).Draw(t, "yield"))
	}
	return c
}

func c15Tok(i int) string { return fmt.Sprintf("zz%dzz", i) }

func c15Spec(n int) world.Spec {
	spec := world.Spec{IdP: world.IdPConfig{IssuerMode: "host", IssuerPath: "/saml", SignatureAlgorithm: world.AlgRSASHA256, MetadataSigAlg: world.AlgRSASHA256}}
	for i := 0; i < n; i++ {
		tk := c15Tok(i)
		sp := world.SPSpec{
			AppID: "app-" + tk, EntityID: "https://sp" + tk + ".example/metadata", AuthnRequestsSigned: A, KeyNames: []string{world.RSAKeyNames[i%len(world.RSAKeyNames)]},
			// not in index order, two entries of one binding: document order and index order disagree
			ACS: []world.ACSSpec{acs(world.BindPost, "https://sp"+tk+".example/acs/post-first", "5", A), acs(world.BindRedirect, "https://sp"+tk+".example/acs/redirect", "2", A), acs(world.BindPost, "https://sp"+tk+".example/acs/post", "1", A)},
			SLO: []world.SLOSpec{{Binding: world.BindPost, Location: "https://sp" + tk + ".example/slo"}},
		}
		spec.SPs = append(spec.SPs, sp)
		spec.Users = append(spec.Users, world.UserSpec{
			UserID: "uid-" + tk, LoginName: "login" + tk + "@users.example", Email: "mail" + tk + "@users.example", FullName: "Full " + tk, GivenName: "Given" + tk,
			Surname: "Sur" + tk, Username: "user" + tk, UserIDAttr: "id" + tk,
			Custom: []world.CustomAttr{{Name: "custom", FriendlyName: "Custom", NameFormat: "urn:oasis:names:tc:SAML:2.0:attrname-format:basic", Values: []string{"cv1" + tk, "cv2" + tk}}},
		})
	}
	return spec
}

var reTok = regexp.MustCompile(`zz(\d+)zz`)

type c15Collect struct {
	mu       sync.Mutex
	vs       []*ev.Violation
	ids      map[string]string // id -> where
	requests int
	overlaps int64
	inflight int64
	byOp     map[string]int
}

func (cc *c15Collect) add(v *ev.Violation) {
	cc.mu.Lock()
	if len(cc.vs) < 5 {
		cc.vs = append(cc.vs, v)
	}
	cc.mu.Unlock()
}

func (cc *c15Collect) id(id, where string) {
	if !xt.IsNCName(id) {
		cc.add(ev.V("C15/id-not-ncname", "%s ID %q is not a legal xs:ID", where, id))
		return
	}
	cc.mu.Lock()
	prev, dup := cc.ids[id]
	cc.ids[id] = where
	cc.mu.Unlock()
	if dup {
		cc.add(ev.V("C15/duplicate-id", "ID %q used by %s and by %s", id, prev, where))
	}
}

// c15Client runs the operations of client i.
func c15Client(w *world.World, spec world.Spec, i int, ops []string, yield int, cc *c15Collect) {
	tk := c15Tok(i)
	host := "tenant" + tk + ".idp.example"
	sp := spec.SPs[i]
	user := spec.Users[i]
	entity := spec.IdP.EntityID(host)
	do := func(op string, hr obs.HTTPReq) (obs.Reply, time.Time, time.Time) {
		hr.Host = host
		for k := 0; k < yield; k++ {
			runtime.Gosched()
		}
		if atomic.AddInt64(&cc.inflight, 1) > 1 {
			atomic.AddInt64(&cc.overlaps, 1)
		}
		t0 := time.Now()
		rep := obs.Do(w.Handler, hr)
		t1 := time.Now()
		atomic.AddInt64(&cc.inflight, -1)
		cc.mu.Lock()
		cc.requests++
		cc.byOp[op]++
		cc.mu.Unlock()
		if rep.Panic != "" {
			cc.add(ev.V("C15/panic", "client %d %s: handler panicked: %s", i, op, short(rep.Panic, 100)))
		}
		// isolation: no token of another session in any decoded layer
		d := obs.Decode(rep)
		for _, text := range append(replyTexts(rep, d), lenientDecode(rep.Header.Get("Location"))) {
			for _, m := range reTok.FindAllStringSubmatch(text, -1) {
				if m[1] != fmt.Sprint(i) {
					cc.add(ev.V("C15/foreign-session-data", "client %d %s: reply contains %q, data of session %s", i, op, m[0], m[1]))
					return rep, t0, t1
				}
			}
		}
		return rep, t0, t1
	}
	wr := func(n *xt.Node) []byte { return xt.Write(n, plainStyle.W) }
	for k, op := range ops {
		reqID := fmt.Sprintf("_req%s-%d", tk, k)
		relay := fmt.Sprintf("rs-%s-%d", tk, k)
		switch op {
		case "sso", "flow-post", "flow-redirect":
			a := spsim.NewAuthnReq(reqID, sp.EntityID)
			a.Destination = spec.IdP.Advertised("sso", host)
			switch {
			case op == "flow-redirect":
				a.ProtocolBinding = world.BindRedirect
			case k%3 == 1:
				a.ProtocolBinding = world.BindPost
			case k%3 == 2:
				a.ProtocolBinding = "urn:example:unlisted"
			}
			binding := []string{"post", "redirect"}[k%2]
			hr, _, _ := spsim.Encode(spec.IdP.Route("sso"), wr(a.Tree(plainStyle)), spsim.Transport{Binding: binding, Plus: true, Encoding: A, RelayState: relay}, nil)
			rep, _, _ := do(op+"/sso", hr)
			if rep.Status != 303 {
				cc.add(ev.V("C15/sso-not-accepted", "client %d: valid request got status %d: %s", i, rep.Status, short(string(rep.Body), 150)))
				continue
			}
			loc := rep.Header.Get("Location")
			_, id, _ := strings.Cut(loc, "authRequestID=")
			stored := w.Store.Request(id)
			if stored == nil {
				cc.add(ev.V("C15/login-redirect-unknown-id", "client %d: redirected to %q, no such stored request", i, loc))
				continue
			}
			wantACS := refSelect(sp, a.ProtocolBinding)
			if a.ProtocolBinding == A {
				wantACS = refSelect(sp, "")
			}
			if len(wantACS) == 0 || stored.S.ACS != wantACS[0].Location || stored.S.Binding != wantACS[0].Binding {
				cc.add(ev.V("C15/consumer-endpoint-depends-on-history", "client %d: request %s (ProtocolBinding %q) persisted with (%q, %q); the registration says %v", i, reqID, a.ProtocolBinding, stored.S.ACS, stored.S.Binding, wantACS))
				continue
			}
			if stored.S.AppID != sp.AppID || stored.S.RelayState != relay || stored.S.AuthRequestID != reqID || !strings.Contains(stored.S.ACS, tk) {
				cc.add(ev.V("C15/stored-request-mixed-up", "client %d: stored request %+v does not belong to this session (app %s, relay %s, request %s)", i, stored.S, sp.AppID, relay, reqID))
				continue
			}
			if op == "sso" {
				continue
			}
			w.Store.CompleteLogin(id, user.UserID)
			rep2, t0, t1 := do(op+"/callback", callbackReq(spec.IdP, id))
			want := stored.S
			want.Done, want.UserID = true, user.UserID
			s2 := spec
			s2.Apps = map[string]string{sp.AppID: sp.EntityID}
			vs, d := c03Compare(s2, host, want, user, rep2, t0, t1)
			for _, v := range vs {
				if v.Key == "C03/id-reused" {
					v.Key = "C15/duplicate-id"
				} else {
					v.Key = "C15/callback-" + strings.TrimPrefix(v.Key, "C03/")
				}
				v.What = fmt.Sprintf("client %d: %s", i, v.What)
				cc.add(v)
			}
			_ = d
		case "logout":
			l := spsim.NewLogoutReq(reqID, sp.EntityID, user.Username)
			l.IssueInstant = spsim.Instant(time.Now().Add(-10*time.Second), 0)
			hr, _, _ := spsim.Encode(spec.IdP.Route("slo"), wr(l.Tree(plainStyle)), spsim.Transport{Binding: "post", Plus: true, Encoding: A, RelayState: relay}, nil)
			rep, _, _ := do(op, hr)
			d := obs.Decode(rep)
			if d.Doc == nil || d.Root().Local != "LogoutResponse" {
				cc.add(ev.V("C15/logout-reply", "client %d: %s status %d", i, d.Kind, rep.Status))
				continue
			}
			r := obs.ReadResponse(d.Root())
			cc.id(r.ID, fmt.Sprintf("LogoutResponse of client %d", i))
			if !r.Success() || r.InResponseTo != reqID || r.Issuer != entity || d.Target != sp.SLO[0].Location || d.RelayState != relay {
				cc.add(ev.V("C15/logout-response-mixed-up", "client %d: status %s InResponseTo %q Issuer %q target %q RelayState %q; own: %q %q %q %q", i, r.Status, r.InResponseTo, r.Issuer, d.Target, d.RelayState, reqID, entity, sp.SLO[0].Location, relay))
			}
		case "attrquery":
			q := spsim.NewAttrQuery(reqID, sp.EntityID, user.LoginName)
			hr, _, _ := spsim.Encode(spec.IdP.Route("attribute"), wr(spsim.Envelope(q.QueryTree(plainStyle), "soap")), spsim.Transport{Binding: "soap"}, nil)
			rep, _, _ := do(op, hr)
			d := obs.Decode(rep)
			r := obs.ReadResponse(obs.FindResponse(d.Root()))
			if r == nil || !r.Success() || len(r.Assertions) != 1 {
				cc.add(ev.V("C15/attrquery-reply", "client %d: status %d %s", i, rep.Status, short(string(rep.Body), 120)))
				continue
			}
			a := r.Assertions[0]
			cc.id(r.ID, fmt.Sprintf("attribute-query Response of client %d", i))
			cc.id(a.ID, fmt.Sprintf("attribute-query Assertion of client %d", i))
			if r.InResponseTo != reqID || r.Issuer != entity || a.NameID != user.Username || len(a.Audiences) != 1 || a.Audiences[0] != sp.EntityID || attrMultisetDiff(expectedAttrs(user), a.Attrs) != "" {
				cc.add(ev.V("C15/attrquery-response-mixed-up", "client %d: InResponseTo %q Issuer %q NameID %q Audience %v", i, r.InResponseTo, r.Issuer, a.NameID, a.Audiences))
			}
		case "metadata":
			rep, _, _ := do(op, obs.HTTPReq{Method: "GET", Path: spec.IdP.Route("metadata")})
			doc, err := xt.Parse(rep.Body)
			if err != nil || rep.Status != 200 {
				cc.add(ev.V("C15/metadata-reply", "client %d: status %d %v", i, rep.Status, err))
				continue
			}
			if id := doc.Root.AttrV("entityID"); id != entity {
				cc.add(ev.V("C15/metadata-issuer-mixed-up", "client %d: entityID %q, own %q", i, id, entity))
			}
			doc.Root.Walk(func(n *xt.Node) {
				if n.Space == world.NSMD {
					if id, ok := n.Attr("ID"); ok {
						cc.id(id, fmt.Sprintf("metadata %s of client %d", n.Local, i))
					}
				}
			})
		case "certificate":
			rep, _, _ := do(op, obs.HTTPReq{Method: "GET", Path: spec.IdP.Route("certificate")})
			if obs.Decode(rep).Kind != obs.KindPEM {
				cc.add(ev.V("C15/certificate-reply", "client %d: status %d", i, rep.Status))
			}
		}
	}
}

func c15Run(c C15Case) ([]*ev.Violation, *c15Collect) {
	spec := c15Spec(c.N)
	w := mustBuild(spec)
	cc := &c15Collect{ids: map[string]string{}, byOp: map[string]int{}}
	old := runtime.GOMAXPROCS(c.Procs)
	defer runtime.GOMAXPROCS(old)
	var wg sync.WaitGroup
	start := make(chan struct{})
	for i := 0; i < c.N; i++ {
		wg.Add(1)
		go func(i int) {
			defer wg.Done()
			<-start
			c15Client(w, spec, i, c.Ops[i], c.Yields[i], cc)
		}(i)
	}
	close(start)
	done := make(chan struct{})
	go func() { wg.Wait(); close(done) }()
	select {
	case <-done:
	case <-time.After(120 * time.Second):
		fmt.Println("HARNESS-FAILURE property=C15 plan did not finish within 120s (inconclusive)")
		os.Exit(2)
	}
	// IDs recorded by c03Compare's freshness set are process-wide; the local map covers the rest
	return cc.vs, cc
}

func TestC15(t *testing.T) {
	col := ev.For("C15", "exploration", c15Rule)
	col.Assume("interleavings are whatever the Go scheduler produces for the generated plan: sampled, not enumerated; the race detector only sees races that happen")
	raceOn := raceEnabled
	col.SetExtra("race_detector", raceOn)
	searchRapid(t, col, genC15Case, func(c C15Case) []*ev.Violation {
		reps := 1
		if os.Getenv("VERIF_REPLAY") != "" {
			reps = 200
		}
		var vs []*ev.Violation
		var cc *c15Collect
		for r := 0; r < reps && len(vs) == 0; r++ {
			vs, cc = c15Run(c)
		}
		shape := map[string]int{}
		for _, ops := range c.Ops {
			for _, o := range ops {
				shape[o]++
			}
		}
		col.Count("requests", cc.requests)
		col.Count("overlapping-request-starts", int(cc.overlaps))
		col.Count("ids-collected", len(cc.ids))
		col.Case(cc.overlaps >= 1, ev.Fingerprint(c.N, c.Procs, shape), []string{fmt.Sprintf("clients/%02d", c.N), fmt.Sprintf("gomaxprocs/%d", c.Procs)}, func() any {
			return map[string]any{"clients": c.N, "gomaxprocs": c.Procs, "ops_of_client_0": c.Ops[0], "requests": cc.requests, "overlapping_request_starts": cc.overlaps, "ids_collected": len(cc.ids)}
		})
		return vs
	})
}
