package props

// Shared fixtures and generators for the world-based checks.

import (
	"bytes"
	"compress/flate"
	"context"
	"encoding/base64"
	"fmt"
	"io"
	"net/http"
	"net/url"
	"strings"
	"time"

	"github.com/zitadel/saml/pkg/provider"
	sxmlpkg "github.com/zitadel/saml/pkg/provider/xml"
	"pgregory.net/rapid"

	"verif/harness/obs"
	"verif/harness/spsim"
	"verif/harness/world"
	"verif/harness/xt"
)

const (
	defHost = "idp.example"
	A       = world.Absent
)

// acs builds one AssertionConsumerService entry.
func acs(binding, loc, index, isDefault string) world.ACSSpec {
	return world.ACSSpec{Binding: binding, Location: loc, Index: index, IsDefault: isDefault}
}

// stdSP returns a plain service provider n (n = 0..): POST ACS first, Redirect ACS second, one SLO.
func stdSP(n int) world.SPSpec {
	return world.SPSpec{
		AppID:               fmt.Sprintf("app-%d", n),
		EntityID:            fmt.Sprintf("https://sp%d.example/metadata", n),
		AuthnRequestsSigned: A,
		KeyNames:            []string{world.RSAKeyNames[n%len(world.RSAKeyNames)]},
		ACS: []world.ACSSpec{
			acs(world.BindPost, fmt.Sprintf("https://sp%d.example/acs/post", n), "1", A),
			acs(world.BindRedirect, fmt.Sprintf("https://sp%d.example/acs/redirect", n), "2", A),
		},
		SLO: []world.SLOSpec{{Binding: world.BindPost, Location: fmt.Sprintf("https://sp%d.example/slo", n)}},
	}
}

func stdUser(n int) world.UserSpec {
	return world.UserSpec{
		UserID: fmt.Sprintf("uid-%d", n), LoginName: fmt.Sprintf("login%d@users.example", n),
		Email: fmt.Sprintf("mailmark%d@users.example", n), FullName: fmt.Sprintf("Fullmark%d Name", n), GivenName: fmt.Sprintf("Givenmark%d", n),
		Surname: fmt.Sprintf("Surmark%d", n), Username: fmt.Sprintf("usermark%d", n), UserIDAttr: fmt.Sprintf("idmark%d", n),
		Custom: []world.CustomAttr{{Name: fmt.Sprintf("custom%d", n), FriendlyName: "Custom", NameFormat: "urn:oasis:names:tc:SAML:2.0:attrname-format:basic", Values: []string{fmt.Sprintf("cvalmark%d-a", n), fmt.Sprintf("cvalmark%d-b", n)}}},
	}
}

// userMarkers lists every value of a user record that must never leak.
func userMarkers(u world.UserSpec) []string {
	var out []string
	for _, s := range []string{u.Email, u.FullName, u.GivenName, u.Surname, u.Username, u.UserIDAttr} {
		if len(s) >= 6 {
			out = append(out, s)
		}
	}
	for _, c := range u.Custom {
		for _, v := range c.Values {
			if len(v) >= 6 {
				out = append(out, v)
			}
		}
	}
	return out
}

// stdSpec: default IdP, 3 SPs (0 plain, 1 requires signed requests, 2 without certificate), 2 users.
func stdSpec() world.Spec {
	sp1 := stdSP(1)
	sp1.AuthnRequestsSigned = "true"
	sp2 := stdSP(2)
	sp2.KeyNames = nil
	return world.Spec{
		IdP:   world.DefaultIdP(),
		SPs:   []world.SPSpec{stdSP(0), sp1, sp2},
		Users: []world.UserSpec{stdUser(0), stdUser(1)},
	}
}

func mustBuild(spec world.Spec) *world.World {
	w, err := world.Build(spec)
	if err != nil {
		panic("harness: cannot build world: " + err.Error())
	}
	return w
}

// now-relative instants.
func instant(offset time.Duration, frac int) string {
	return spsim.Instant(time.Now().Add(offset), frac)
}

// ssoPath etc. for the default configuration.
func route(c world.IdPConfig, name string) string { return c.Route(name) }

// plainStyle is the serialisation the repo's fixtures use.
var plainStyle = spsim.XMLStyle{Prefixes: "std", W: xt.Style{Decl: "std", SelfClose: true}}

// genXMLStyle draws a serialisation style.
func genXMLStyle(t *rapid.T) spsim.XMLStyle {
	return spsim.XMLStyle{
		Prefixes: rapid.SampledFrom([]string{"std", "default", "odd", "local"}).Draw(t, "prefixes"),
		Indent:   rapid.Bool().Draw(t, "indent"),
		Comments: rapid.IntRange(0, 3).Draw(t, "comments") == 0,
		W:        xt.GenStyle(t),
	}
}

// callbackReq builds a callback request for a stored request id.
func callbackReq(c world.IdPConfig, id string) obs.HTTPReq {
	return obs.HTTPReq{Method: "GET", Path: route(c, "callback"), RawQuery: "id=" + qesc(id)}
}

func qesc(s string) string {
	const hex = "0123456789ABCDEF"
	var b strings.Builder
	for i := 0; i < len(s); i++ {
		c := s[i]
		if (c >= 'A' && c <= 'Z') || (c >= 'a' && c <= 'z') || (c >= '0' && c <= '9') || c == '-' || c == '_' || c == '.' || c == '~' {
			b.WriteByte(c)
		} else {
			b.WriteByte('%')
			b.WriteByte(hex[c>>4])
			b.WriteByte(hex[c&15])
		}
	}
	return b.String()
}

// contains reports whether any marker occurs in any of the haystacks.
func containsAny(markers []string, hay ...string) (string, bool) {
	for _, m := range markers {
		if m == "" {
			continue
		}
		for _, h := range hay {
			if strings.Contains(h, m) {
				return m, true
			}
		}
	}
	return "", false
}

// replyTexts returns every decoded layer of a reply in which a marker could hide.
func replyTexts(rep obs.Reply, d *obs.Decoded) []string {
	out := []string{string(rep.Body), rep.Header.Get("Location")}
	if d != nil {
		out = append(out, string(d.XML), d.RelayState)
	}
	return out
}

func short(s string, n int) string {
	if len(s) <= n {
		return s
	}
	return s[:n] + "…"
}

// pick draws an element with a flatter distribution than rapid.SampledFrom (whose integer
// generator favours small indexes); shrinking still moves towards the first element.
func pick[T any](t *rapid.T, label string, xs []T) T {
	return xs[int(rapid.Uint64().Draw(t, label)%uint64(len(xs)))]
}

// inflateAll is the harness's own raw-DEFLATE reader.
func inflateAll(b []byte) ([]byte, error) {
	r := flate.NewReader(bytes.NewReader(b))
	defer r.Close()
	return io.ReadAll(r)
}

// ---- background traffic ----------------------------------------------------------------------
// A provider instance serves many tenants, service providers and users over its lifetime. Checks
// that build one world per case would never see state that survives a request (caches keyed too
// coarsely, pooled objects that are not reset, lists reordered in place). withNoise adds an
// unrelated service provider, user and completed request to a spec; runNoise serves a round of
// valid requests for them (under another Host) before the request under test. Everything that
// belongs to the noise actors carries noiseMark, so a reply to the request under test that
// contains it has leaked foreign state.

const noiseMark = "noisemark9q"

func withNoise(spec world.Spec) world.Spec {
	sp := world.SPSpec{
		AppID: "app-" + noiseMark, EntityID: "https://" + noiseMark + "-sp.example/metadata", AuthnRequestsSigned: A, KeyNames: []string{"sp-c"},
		ACS: []world.ACSSpec{acs(world.BindRedirect, "https://"+noiseMark+"-sp.example/acs/redirect", "5", A), acs(world.BindPost, "https://"+noiseMark+"-sp.example/acs/post", "3", A)},
		SLO: []world.SLOSpec{{Binding: world.BindPost, Location: "https://" + noiseMark + "-sp.example/slo"}},
	}
	u := world.UserSpec{UserID: "uid-" + noiseMark, LoginName: "login-" + noiseMark + "@users.example", Email: noiseMark + "@mail.example", FullName: "Full " + noiseMark, GivenName: "G" + noiseMark,
		Surname: "S" + noiseMark, Username: "user-" + noiseMark, UserIDAttr: "id-" + noiseMark,
		Custom: []world.CustomAttr{{Name: "custom-" + noiseMark, FriendlyName: "f-" + noiseMark, NameFormat: "urn:" + noiseMark, Values: []string{"v1-" + noiseMark, "v2-" + noiseMark}}}}
	out := spec
	out.SPs = append(append([]world.SPSpec(nil), spec.SPs...), sp)
	out.Users = append(append([]world.UserSpec(nil), spec.Users...), u)
	out.Requests = append(append([]world.RequestSpec(nil), spec.Requests...),
		world.RequestSpec{ID: "req-" + noiseMark + "-post", AppID: sp.AppID, RelayState: "rs-" + noiseMark, ACS: sp.ACS[1].Location, Binding: world.BindPost, AuthRequestID: "_a-" + noiseMark, UserID: u.UserID, Done: true},
		world.RequestSpec{ID: "req-" + noiseMark + "-redirect", AppID: sp.AppID, RelayState: "rs2-" + noiseMark, ACS: sp.ACS[0].Location, Binding: world.BindRedirect, AuthRequestID: "_b-" + noiseMark, UserID: u.UserID, Done: true},
		world.RequestSpec{ID: "req-" + noiseMark + "-pending", AppID: sp.AppID, RelayState: "rs3-" + noiseMark, ACS: sp.ACS[1].Location, Binding: world.BindPost, AuthRequestID: "_c-" + noiseMark, UserID: u.UserID})
	if out.Apps != nil {
		apps := map[string]string{}
		for k, v := range out.Apps {
			apps[k] = v
		}
		apps[sp.AppID] = sp.EntityID
		out.Apps = apps
	}
	return out
}

// runNoise serves one round of requests of the noise actors. The spec must come from withNoise.
func runNoise(w *world.World, spec world.Spec) {
	host := noiseMark + ".idp.example"
	do := func(r obs.HTTPReq) { r.Host = host; obs.Do(w.Handler, r) }
	var sp world.SPSpec
	for _, s := range spec.SPs {
		if strings.Contains(s.EntityID, noiseMark) {
			sp = s
		}
	}
	if sp.EntityID == "" {
		return
	}
	wr := func(n *xt.Node) []byte { return xt.Write(n, plainStyle.W) }
	do(obs.HTTPReq{Method: "GET", Path: spec.IdP.Route("metadata")})
	a := spsim.NewAuthnReq("_n1-"+noiseMark, sp.EntityID)
	hr, _, _ := spsim.Encode(spec.IdP.Route("sso"), wr(a.Tree(plainStyle)), spsim.Transport{Binding: "redirect", Plus: true, Encoding: A, RelayState: "rs-" + noiseMark}, nil)
	do(hr)
	a2 := spsim.NewAuthnReq("_n2-"+noiseMark, sp.EntityID)
	a2.ProtocolBinding = "urn:example:unlisted"
	hr, _, _ = spsim.Encode(spec.IdP.Route("sso"), wr(a2.Tree(plainStyle)), spsim.Transport{Binding: "post", Plus: true, Encoding: A, RelayState: A}, nil)
	do(hr)
	do(callbackReq(spec.IdP, "req-"+noiseMark+"-redirect"))
	do(callbackReq(spec.IdP, "req-"+noiseMark+"-post"))
	do(callbackReq(spec.IdP, "req-"+noiseMark+"-pending"))
	l := spsim.NewLogoutReq("_n3-"+noiseMark, sp.EntityID, "user-"+noiseMark)
	hr, _, _ = spsim.Encode(spec.IdP.Route("slo"), wr(l.Tree(plainStyle)), spsim.Transport{Binding: "post", Plus: true, Encoding: A, RelayState: "rs-" + noiseMark}, nil)
	do(hr)
	q := spsim.NewAttrQuery("_n4-"+noiseMark, sp.EntityID, "login-"+noiseMark+"@users.example")
	hr, _, _ = spsim.Encode(spec.IdP.Route("attribute"), wr(spsim.Envelope(q.QueryTree(plainStyle), "soap")), spsim.Transport{Binding: "soap"}, nil)
	do(hr)
	do(obs.HTTPReq{Method: "GET", Path: spec.IdP.Route("certificate")})
	w.Store.ResetLog()
}

// noiseLeak reports whether a reply to the request under test carries data of the noise actors.
func noiseLeak(rep obs.Reply) bool {
	d := obs.Decode(rep)
	for _, t := range append(replyTexts(rep, d), lenientDecode(rep.Header.Get("Location"))) {
		if strings.Contains(t, noiseMark) {
			return true
		}
	}
	return false
}

// bigValues returns n poorly compressible values (a response that carries them does not fit a redirect URL of a few kilobytes).
func bigValues(n int, tag string) []string {
	out := make([]string, n)
	x := uint64(88172645463325252)
	for i := range out {
		x ^= x << 13
		x ^= x >> 7
		x ^= x << 17
		out[i] = fmt.Sprintf("grp-%s-%016x", tag, x)
	}
	return out
}

// bigString returns a string of n bytes that does not compress well.
func bigString(n int, tag string) string {
	var b strings.Builder
	b.WriteString(tag)
	x := uint64(2463534242)
	for b.Len() < n {
		x ^= x << 13
		x ^= x >> 7
		x ^= x << 17
		fmt.Fprintf(&b, "%x.", x)
	}
	return b.String()[:n]
}

// History is what happened on the provider instance before the request under test: the service provider SP of the case was
// registered differently at first (Earlier; the case's spec holds the registration in force now), used the IdP successfully
// (Warmups), and was then re-registered - or deregistered (Removed). Whatever the IdP remembers from the warm-up, only the
// storage's current content counts for the request under test.
type History struct {
	SP      int           `json:"sp"`
	Earlier *world.SPSpec `json:"earlier_registration,omitempty"`
	Removed bool          `json:"deregistered_afterwards,omitempty"`
	Warmups []string      `json:"warmups,omitempty"` // sso | attrquery | logout | metadata
	// ReuseID: the warm-up AuthnRequests carry this ID (the one of the request under test: IDs are chosen by service providers,
	// nothing makes them unique across providers or over time); WarmupByOther: they are sent by the next service provider.
	ReuseID       string `json:"reuse_id,omitempty"`
	WarmupByOther bool   `json:"warmup_by_other_sp,omitempty"`
	// BrokenAfter > 0: the user agents of the warm-up requests went away while their replies were being written: every
	// warm-up reply breaks after that many body bytes.
	BrokenAfter int `json:"warmup_replies_break_after,omitempty"`
}

// buildWithHistory builds the world of spec and plays the history on it.
func buildWithHistory(spec world.Spec, h *History, host string) *world.World {
	if h == nil {
		return mustBuild(spec)
	}
	first := spec
	first.SPs = append([]world.SPSpec(nil), spec.SPs...)
	if h.Earlier != nil {
		first.SPs[h.SP] = *h.Earlier
	}
	w := mustBuild(first)
	by := h.SP
	if h.WarmupByOther {
		by = (h.SP + 1) % len(first.SPs)
	}
	playWarmups(w, first, by, host, h.Warmups, h.ReuseID, h.BrokenAfter)
	switch {
	case h.Removed:
		w.Store.RemoveSP(spec.SPs[h.SP].EntityID)
	case h.Earlier != nil:
		if err := w.Store.ReplaceSP(spec.SPs[h.SP]); err != nil {
			panic("harness: re-registration failed: " + err.Error())
		}
	}
	w.Store.ResetLog()
	return w
}

// playWarmups sends valid requests of service provider sp (signed with its registered key when the configuration asks for it).
func playWarmups(w *world.World, spec world.Spec, sp int, host string, kinds []string, reuseID string, brokenAfter int) {
	s := spec.SPs[sp]
	wr := func(n *xt.Node) []byte { return xt.Write(n, plainStyle.W) }
	for i, k := range kinds {
		var hr obs.HTTPReq
		switch k {
		case "sso":
			id := fmt.Sprintf("_warmup-%d", i)
			if reuseID != "" {
				id = reuseID
			}
			a := spsim.NewAuthnReq(id, s.EntityID)
			tree := a.Tree(plainStyle)
			if signingRequired(spec, sp) && len(s.KeyNames) > 0 {
				if err := spsim.SignTree(tree, spsim.Signing{Alg: world.AlgRSASHA256, KeyName: s.KeyNames[0], KeyInfo: true, CertLayout: "plain", DSPrefix: "ds"}); err != nil {
					panic(err)
				}
			}
			hr, _, _ = spsim.Encode(spec.IdP.Route("sso"), wr(tree), spsim.Transport{Binding: "post", Plus: true, Encoding: A, RelayState: "warmup"}, nil)
		case "sso-redirect", "sso-broken-deflate":
			// the same valid request through the redirect binding - whole, or in a DEFLATE stream that delivers the whole document
			// and then breaks off (flushed, never finished): what was inflated for a request that failed is nobody's document
			id := fmt.Sprintf("_warmup-%d", i)
			if reuseID != "" {
				id = reuseID
			}
			doc := wr(spsim.NewAuthnReq(id, s.EntityID).Tree(plainStyle))
			if k == "sso-redirect" {
				var rs *spsim.Signing
				if signingRequired(spec, sp) && len(s.KeyNames) > 0 {
					rs = &spsim.Signing{Alg: world.AlgRSASHA256, KeyName: s.KeyNames[0]}
				}
				hr, _, _ = spsim.Encode(spec.IdP.Route("sso"), doc, spsim.Transport{Binding: "redirect", Plus: true, Encoding: A, RelayState: "warmup"}, rs)
			} else {
				hr = obs.HTTPReq{Method: "GET", Path: spec.IdP.Route("sso"), RawQuery: "SAMLRequest=" + qesc(base64.StdEncoding.EncodeToString(spsim.DeflateBroken(doc))) + "&RelayState=warmup"}
			}
		case "sso-unknown", "logout-unknown", "attrquery-unknown":
			// requests of somebody the storage has never heard of (scanners, a provider not yet registered)
			unknown := fmt.Sprintf("https://never-registered-%d.example/metadata", i)
			switch k {
			case "sso-unknown":
				// ... with every optional part a message can carry, filled with values nobody else uses
				ua := spsim.NewAuthnReq(fmt.Sprintf("_unknown-%d", i), unknown)
				ua.NameIDPolicy = &spsim.NameIDPolicy{Format: "urn:example:nameid-format:left-behind", SPNameQualifier: "https://left-behind.example/qualifier", AllowCreate: "true"}
				ua.ProviderName, ua.ForceAuthn, ua.ACSURL, ua.ProtocolBinding = "left-behind provider", "true", "https://left-behind.example/acs", world.BindPost
				ua.Conditions = &spsim.Conditions{NotBefore: spsim.Rel(-60, 0, ""), NotOnOrAfter: spsim.Rel(300, 0, "")}
				hr, _, _ = spsim.Encode(spec.IdP.Route("sso"), wr(ua.Rendered(time.Now()).Tree(plainStyle)), spsim.Transport{Binding: "post", Plus: true, Encoding: A, RelayState: "x"}, nil)
			case "logout-unknown":
				hr, _, _ = spsim.Encode(spec.IdP.Route("slo"), wr(spsim.NewLogoutReq(fmt.Sprintf("_unknown-%d", i), unknown, "x").Tree(plainStyle)), spsim.Transport{Binding: "post", Plus: true, Encoding: A, RelayState: "x"}, nil)
			default:
				q := spsim.NewAttrQuery(fmt.Sprintf("_unknown-%d", i), unknown, "login0@users.example")
				hr, _, _ = spsim.Encode(spec.IdP.Route("attribute"), wr(spsim.Envelope(q.QueryTree(plainStyle), "soap")), spsim.Transport{Binding: "soap"}, nil)
			}
		case "sso-refused":
			// refused after the consumer service was selected: the failure reply is a page / redirect for the registered endpoint
			a := spsim.NewAuthnReq(fmt.Sprintf("_warmupr-%d", i), s.EntityID)
			a.Destination = "https://elsewhere.example/not-this-idp"
			a.ProtocolBinding = world.BindPost
			hr, _, _ = spsim.Encode(spec.IdP.Route("sso"), wr(a.Tree(plainStyle)), spsim.Transport{Binding: "post", Plus: true, Encoding: A, RelayState: "warmup-relaystate-" + strings.Repeat("w", 300)}, nil)
		case "attrquery":
			q := spsim.NewAttrQuery(fmt.Sprintf("_warmupq-%d", i), s.EntityID, "login0@users.example")
			hr, _, _ = spsim.Encode(spec.IdP.Route("attribute"), wr(spsim.Envelope(q.QueryTree(plainStyle), "soap")), spsim.Transport{Binding: "soap"}, nil)
		case "logout":
			l := spsim.NewLogoutReq(fmt.Sprintf("_warmupl-%d", i), s.EntityID, "usermark0")
			hr, _, _ = spsim.Encode(spec.IdP.Route("slo"), wr(l.Tree(plainStyle)), spsim.Transport{Binding: "post", Plus: true, Encoding: A, RelayState: "warmup"}, nil)
		default:
			hr = obs.HTTPReq{Method: "GET", Path: spec.IdP.Route("metadata")}
		}
		hr.Host = host
		hr.FailWriteAfter = brokenAfter
		obs.Do(w.Handler, hr)
	}
}

// genHistory draws a history for service provider sp of spec: an earlier registration that differs in what the caller's
// tweak changes, or a later deregistration.
func genHistory(t *rapid.T, spec world.Spec, sp int, tweak func(*world.SPSpec), allowRemoved bool) *History {
	h := &History{SP: sp}
	n := rapid.IntRange(1, 3).Draw(t, "nwarmups")
	for i := 0; i < n; i++ {
		h.Warmups = append(h.Warmups, rapid.SampledFrom([]string{"sso", "sso", "attrquery", "logout", "metadata"}).Draw(t, "warmup"))
	}
	switch mode := rapid.IntRange(0, 2).Draw(t, "historymode"); {
	case mode == 0 && allowRemoved:
		h.Removed = true
		return h
	case mode == 1:
		// the registration never changed: the provider (the same object in the storage) simply used the IdP before
		h.Warmups = append(h.Warmups, "sso", "sso-refused")
		return h
	}
	e := spec.SPs[sp]
	e.ACS = append([]world.ACSSpec(nil), e.ACS...)
	e.KeyNames = append([]string(nil), e.KeyNames...)
	tweak(&e)
	h.Earlier = &e
	return h
}

// apiCallback does what an application with its own login UI does instead of sending the browser to the callback endpoint: it
// reads the stored request, fills a provider.Response from it and asks Provider.AuthCallbackResponse for the SAML response
// (or AuthCallbackErrorResponse when that fails). The result comes back as a reply whose body is the marshalled message, so the
// oracles written for the HTTP endpoint apply unchanged; for the redirect binding the signature the library put into the
// Response value travels in the X-Api-Signature / X-Api-SigAlg headers.
func apiCallback(w *world.World, host, id string) (rep obs.Reply) {
	defer func() {
		if p := recover(); p != nil {
			rep.Panic = fmt.Sprint(p)
		}
	}()
	rep.Header = http.Header{}
	hr := &http.Request{Method: "GET", Host: host, Header: http.Header{}, URL: &url.URL{Path: "/"}}
	ctx := provider.ContextWithIssuer(context.Background(), w.Provider.IssuerFromRequest(hr))
	ar, err := w.Store.AuthRequestByID(ctx, id)
	if err != nil {
		rep.Status, rep.Body = 500, []byte("failed to get request: "+err.Error())
		return rep
	}
	resp := &provider.Response{ProtocolBinding: ar.GetBindingType(), RelayState: ar.GetRelayState(), AcsUrl: ar.GetAccessConsumerServiceURL(), RequestID: ar.GetAuthRequestID(),
		Issuer: w.Provider.GetEntityID(ctx), ErrorFunc: func(error) {}}
	entity, err := w.Store.GetEntityIDByAppID(ctx, ar.GetApplicationID())
	if err != nil {
		rep.Status, rep.Body = 500, []byte("failed to get entityID: "+err.Error())
		return rep
	}
	resp.Audience = entity
	msg, err := w.Provider.AuthCallbackResponse(ctx, ar, resp)
	if err != nil {
		msg = w.Provider.AuthCallbackErrorResponse(resp, err.Error(), "failed to create response")
	}
	b, merr := sxmlMarshal(msg)
	if merr != nil {
		rep.Status, rep.Body = 500, []byte("marshal: "+merr.Error())
		return rep
	}
	rep.Status, rep.Body = 200, b
	rep.Header.Set("Content-Type", "text/xml")
	rep.Header.Set("X-Api-Signature", resp.Signature)
	rep.Header.Set("X-Api-SigAlg", resp.SigAlg)
	return rep
}

func sxmlMarshal(v any) ([]byte, error) { return sxmlpkg.Marshal(v) }
