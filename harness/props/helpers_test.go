package props

// Shared fixtures and generators for the world-based checks.

import (
	"bytes"
	"compress/flate"
	"fmt"
	"io"
	"strings"
	"time"

	"pgregory.net/rapid"

	"verif/harness/obs"
	"verif/harness/spsim"
	"verif/harness/world"
	"verif/harness/xt"
)

const (
	defHost = "idp.example"
	A       = world.Absent
)

// acs builds one AssertionConsumerService entry.
func acs(binding, loc, index, isDefault string) world.ACSSpec {
	return world.ACSSpec{Binding: binding, Location: loc, Index: index, IsDefault: isDefault}
}

// stdSP returns a plain service provider n (n = 0..): POST ACS first, Redirect ACS second, one SLO.
func stdSP(n int) world.SPSpec {
	return world.SPSpec{
		AppID:               fmt.Sprintf("app-%d", n),
		EntityID:            fmt.Sprintf("https://sp%d.example/metadata", n),
		AuthnRequestsSigned: A,
		KeyNames:            []string{world.RSAKeyNames[n%len(world.RSAKeyNames)]},
		ACS: []world.ACSSpec{
			acs(world.BindPost, fmt.Sprintf("https://sp%d.example/acs/post", n), "1", A),
			acs(world.BindRedirect, fmt.Sprintf("https://sp%d.example/acs/redirect", n), "2", A),
		},
		SLO: []world.SLOSpec{{Binding: world.BindPost, Location: fmt.Sprintf("https://sp%d.example/slo", n)}},
	}
}

func stdUser(n int) world.UserSpec {
	return world.UserSpec{
		UserID: fmt.Sprintf("uid-%d", n), LoginName: fmt.Sprintf("login%d@users.example", n),
		Email: fmt.Sprintf("mailmark%d@users.example", n), FullName: fmt.Sprintf("Fullmark%d Name", n), GivenName: fmt.Sprintf("Givenmark%d", n),
		Surname: fmt.Sprintf("Surmark%d", n), Username: fmt.Sprintf("usermark%d", n), UserIDAttr: fmt.Sprintf("idmark%d", n),
		Custom: []world.CustomAttr{{Name: fmt.Sprintf("custom%d", n), FriendlyName: "Custom", NameFormat: "urn:oasis:names:tc:SAML:2.0:attrname-format:basic", Values: []string{fmt.Sprintf("cvalmark%d-a", n), fmt.Sprintf("cvalmark%d-b", n)}}},
	}
}

// userMarkers lists every value of a user record that must never leak.
func userMarkers(u world.UserSpec) []string {
	var out []string
	for _, s := range []string{u.Email, u.FullName, u.GivenName, u.Surname, u.Username, u.UserIDAttr} {
		if len(s) >= 6 {
			out = append(out, s)
		}
	}
	for _, c := range u.Custom {
		for _, v := range c.Values {
			if len(v) >= 6 {
				out = append(out, v)
			}
		}
	}
	return out
}

// stdSpec: default IdP, 3 SPs (0 plain, 1 requires signed requests, 2 without certificate), 2 users.
func stdSpec() world.Spec {
	sp1 := stdSP(1)
	sp1.AuthnRequestsSigned = "true"
	sp2 := stdSP(2)
	sp2.KeyNames = nil
	return world.Spec{
		IdP:   world.DefaultIdP(),
		SPs:   []world.SPSpec{stdSP(0), sp1, sp2},
		Users: []world.UserSpec{stdUser(0), stdUser(1)},
	}
}

func mustBuild(spec world.Spec) *world.World {
	w, err := world.Build(spec)
	if err != nil {
		panic("harness: cannot build world: " + err.Error())
	}
	return w
}

// now-relative instants.
func instant(offset time.Duration, frac int) string {
	return spsim.Instant(time.Now().Add(offset), frac)
}

// ssoPath etc. for the default configuration.
func route(c world.IdPConfig, name string) string { return c.Route(name) }

// plainStyle is the serialisation the repo's fixtures use.
var plainStyle = spsim.XMLStyle{Prefixes: "std", W: xt.Style{Decl: "std", SelfClose: true}}

// genXMLStyle draws a serialisation style.
func genXMLStyle(t *rapid.T) spsim.XMLStyle {
	return spsim.XMLStyle{
		Prefixes: rapid.SampledFrom([]string{"std", "default", "odd", "local"}).Draw(t, "prefixes"),
		Indent:   rapid.Bool().Draw(t, "indent"),
		Comments: rapid.IntRange(0, 3).Draw(t, "comments") == 0,
		W:        xt.GenStyle(t),
	}
}

// callbackReq builds a callback request for a stored request id.
func callbackReq(c world.IdPConfig, id string) obs.HTTPReq {
	return obs.HTTPReq{Method: "GET", Path: route(c, "callback"), RawQuery: "id=" + qesc(id)}
}

func qesc(s string) string {
	const hex = "0123456789ABCDEF"
	var b strings.Builder
	for i := 0; i < len(s); i++ {
		c := s[i]
		if (c >= 'A' && c <= 'Z') || (c >= 'a' && c <= 'z') || (c >= '0' && c <= '9') || c == '-' || c == '_' || c == '.' || c == '~' {
			b.WriteByte(c)
		} else {
			b.WriteByte('%')
			b.WriteByte(hex[c>>4])
			b.WriteByte(hex[c&15])
		}
	}
	return b.String()
}

// contains reports whether any marker occurs in any of the haystacks.
func containsAny(markers []string, hay ...string) (string, bool) {
	for _, m := range markers {
		if m == "" {
			continue
		}
		for _, h := range hay {
			if strings.Contains(h, m) {
				return m, true
			}
		}
	}
	return "", false
}

// replyTexts returns every decoded layer of a reply in which a marker could hide.
func replyTexts(rep obs.Reply, d *obs.Decoded) []string {
	out := []string{string(rep.Body), rep.Header.Get("Location")}
	if d != nil {
		out = append(out, string(d.XML), d.RelayState)
	}
	return out
}

func short(s string, n int) string {
	if len(s) <= n {
		return s
	}
	return s[:n] + "…"
}

// pick draws an element with a flatter distribution than rapid.SampledFrom (whose integer
// generator favours small indexes); shrinking still moves towards the first element.
func pick[T any](t *rapid.T, label string, xs []T) T {
	return xs[int(rapid.Uint64().Draw(t, label)%uint64(len(xs)))]
}

// inflateAll is the harness's own raw-DEFLATE reader.
func inflateAll(b []byte) ([]byte, error) {
	r := flate.NewReader(bytes.NewReader(b))
	defer r.Close()
	return io.ReadAll(r)
}
