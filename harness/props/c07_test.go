package props

// C07 — Conformant requests from registered service providers are accepted.

import (
	"fmt"
	"strings"
	"testing"
	"time"

	"pgregory.net/rapid"

	"verif/harness/ev"
	"verif/harness/obs"
	"verif/harness/spsim"
	"verif/harness/world"
	"verif/harness/xt"
)

const c07Rule = "rapid: schema-valid AuthnRequest / LogoutRequest / AttributeQuery messages built by the simulated SP (every optional part on/off, prefix styles std/default/odd/local, indentation, comments, quoting, XML declaration, character references, ID and RelayState alphabets, timestamps with 0-9 fractional digits) sent through every binding the IdP advertises for the endpoint (SSO and SLO: Redirect, POST; attribute service: SOAP), unsigned where nothing requires a signature or correctly signed (rsa-sha1 / rsa-sha256, sha1 / sha256 digests, KeyInfo present or absent, certificate text plain / wrapped at 64 or 76 columns / padded - in the request and in the registered metadata -, ds: / dsig: / default prefix; Redirect: query-string signature over the octets as sent) with percent-encoding in upper- or lower-case hex, '+' or %20, minimal or exhaustive escaping, addressed to the advertised location and inside the validity window (>= 5 s margin). Oracle: AuthnRequest => exactly one successful CreateAuthRequest and 303 to the login URL; LogoutRequest => LogoutResponse with status Success; AttributeQuery => SOAP Response with status Success. Non-trivial: differs from the repository's fixtures in at least one style dimension. Distinct by the style vector."

type C07Case struct {
	// BOM: the XML text starts with a UTF-8 byte order mark; Chunked: the HTTP body is sent without announced length
	BOM     bool            `json:"bom,omitempty"`
	Chunked bool            `json:"chunked,omitempty"`
	Kind    string          `json:"kind"` // authn | logout | attrquery
	SSO     SSOCase         `json:"sso"`  // Spec, Host, SP, Style, Sign, RSign, Tr (+ Req for authn)
	Logout  spsim.LogoutReq `json:"logout"`
	Query   spsim.AttrQuery `json:"query"`
	Soap    string          `json:"soap_prefix"`
	CData   bool            `json:"issuer_as_cdata,omitempty"`
	// Again: the very same request was presented that many times before (a reload of the redirect URL, a resubmitted form);
	// a conformant request stays one while its validity window is open.
	Again int `json:"presented_before,omitempty"`
	// HoistNS (attribute queries): the namespace prefixes the query uses are declared on the SOAP envelope, not on the query
	HoistNS bool `json:"namespaces_on_envelope,omitempty"`
}

func genC07Case(t *rapid.T) C07Case {
	spec := genSSOWorld(t, worldOpts{minACS: 1, maxACS: 4, signingFlags: true, issuerModes: []string{"static", "static", "host"}, customSSO: true, maxSPs: 3, entityIDChars: true,
		bindings: []string{world.BindPost, world.BindRedirect, world.BindPost, world.BindRedirect, world.BindArtifact}})
	for i := range spec.SPs {
		spec.SPs[i].CertLayout = rapid.SampledFrom([]string{"plain", "plain", "wrapped64", "wrapped76", "padded", "indented"}).Draw(t, "mdcertlayout")
		if len(spec.SPs[i].KeyNames) > 0 && rapid.IntRange(0, 3).Draw(t, "enckeyfirst") == 0 {
			// a separate encryption certificate, listed before the signing one
			spec.SPs[i].EncKeyFirst = "sp-2048"
			if spec.SPs[i].KeyNames[0] == "sp-2048" {
				spec.SPs[i].EncKeyFirst = "sp-c"
			}
			spec.SPs[i].KeyUse = rapid.SampledFrom([]string{"signing", ""}).Draw(t, "keyuse")
		}
		if len(spec.SPs[i].SLO) == 0 && rapid.Bool().Draw(t, "addslo") {
			spec.SPs[i].SLO = []world.SLOSpec{{Binding: world.BindPost, Location: fmt.Sprintf("https://sp%d.example/slo", i)}}
		}
	}
	if rapid.IntRange(0, 3).Draw(t, "request-scope") == 0 {
		// the application's interceptor puts a value into the request context and the storage resolves its tenant from it:
		// every storage call made for a request has to carry that request's context
		spec.IdP.InterceptorNeutral, spec.RequireRequestScope = true, true
	}
	// the layout the IdP writes its own timestamps with is its own business: what it accepts from others is xs:dateTime
	spec.IdP.TimeFormat = rapid.SampledFrom([]string{"", "", "", time.RFC3339, "2006-01-02T15:04:05.000Z", "2006-01-02T15:04:05Z"}).Draw(t, "idptimeformat")
	c := C07Case{Kind: rapid.SampledFrom([]string{"authn", "authn", "authn", "logout", "attrquery"}).Draw(t, "kind"), BOM: rapid.IntRange(0, 4).Draw(t, "bom") == 0, Chunked: rapid.IntRange(0, 3).Draw(t, "chunked") == 0}
	s := SSOCase{Spec: spec, Host: rapid.SampledFrom(reqHosts).Draw(t, "host")}
	// a conformant SP that must sign has a registered certificate
	var candidates []int
	for i, sp := range spec.SPs {
		if len(sp.KeyNames) > 0 || !(signingRequired(spec, i)) || c.Kind != "authn" {
			candidates = append(candidates, i)
		}
	}
	if len(candidates) == 0 {
		spec.SPs[0].KeyNames = []string{world.RSAKeyNames[0]}
		candidates = []int{0}
	}
	s.SP = rapid.SampledFrom(candidates).Draw(t, "sp")
	s.Prelude = genPrelude(t, spec, s.Host)
	s.Noise = rapid.IntRange(0, 2).Draw(t, "noise") == 0
	if rapid.IntRange(0, 5).Draw(t, "strangers") == 0 {
		// a burst of requests from parties the storage does not know came first (3..8 of them, on any endpoint)
		h := &History{SP: s.SP}
		for i := rapid.IntRange(3, 8).Draw(t, "nstrangers"); i > 0; i-- {
			h.Warmups = append(h.Warmups, rapid.SampledFrom([]string{"sso-unknown", "sso-unknown", "logout-unknown", "attrquery-unknown"}).Draw(t, "stranger"))
		}
		s.Hist = h
	}
	sp := spec.SPs[s.SP]
	s.Style = genXMLStyle(t)
	c.CData = rapid.IntRange(0, 4).Draw(t, "cdata") == 0
	binding := rapid.SampledFrom([]string{"post", "redirect"}).Draw(t, "transport")
	if c.Kind == "attrquery" {
		binding = "soap"
	}
	s.Tr = spsim.Transport{Binding: binding, Encoding: A, RelayState: rapid.SampledFrom(relayStates).Draw(t, "relaystate"),
		LowerHex: rapid.Bool().Draw(t, "lowerhex"), Plus: rapid.Bool().Draw(t, "plus"), EncodeAll: rapid.IntRange(0, 3).Draw(t, "encodeall") == 0,
		RelayFirst: rapid.IntRange(0, 3).Draw(t, "relayfirst") == 0}
	if binding == "redirect" && rapid.Bool().Draw(t, "explicitenc") {
		s.Tr.Encoding = spsim.EncodingDeflate
	}
	if binding == "post" && rapid.IntRange(0, 3).Draw(t, "b64wrap") == 0 {
		s.Tr.B64Wrap = rapid.SampledFrom([]int{76, 64, 60, 4}).Draw(t, "b64cols")
		s.Tr.B64EOL = rapid.SampledFrom([]string{"\r\n", "\n"}).Draw(t, "b64eol")
		s.Tr.B64Trail = rapid.Bool().Draw(t, "b64trail")
	}
	wantSign := false
	switch c.Kind {
	case "authn":
		wantSign = signingRequired(spec, s.SP) || (len(sp.KeyNames) > 0 && rapid.IntRange(0, 2).Draw(t, "optsign") == 0)
	default:
		wantSign = len(sp.KeyNames) > 0 && rapid.IntRange(0, 2).Draw(t, "optsign") == 0
	}
	if wantSign && len(sp.KeyNames) > 0 {
		alg := rapid.SampledFrom([]string{world.AlgRSASHA1, world.AlgRSASHA256}).Draw(t, "sigalg")
		if binding == "redirect" {
			s.RSign = &spsim.Signing{Alg: alg, KeyName: sp.KeyNames[0]}
		} else {
			s.Sign = spsim.Signing{Alg: alg, KeyName: sp.KeyNames[0], KeyInfo: rapid.IntRange(0, 3).Draw(t, "keyinfo") != 0,
				CertLayout: rapid.SampledFrom([]string{"plain", "wrapped64", "wrapped76", "padded", "indented"}).Draw(t, "certlayout"),
				DSPrefix:   rapid.SampledFrom([]string{"ds", "dsig", ""}).Draw(t, "dsprefix"),
				Digest:     rapid.SampledFrom([]string{"", "http://www.w3.org/2000/09/xmldsig#sha1"}).Draw(t, "digest")}
		}
	}
	switch c.Kind {
	case "authn":
		s.Req = genValidAuthn(t, spec, s.SP, s.Host)
		switch rapid.IntRange(0, 9).Draw(t, "idhistory") {
		case 0:
			c.Again = rapid.IntRange(1, 2).Draw(t, "again")
		case 1:
			if s.Hist == nil && len(spec.SPs) > 1 {
				// message IDs are chosen by each service provider: another provider used the same ID a moment ago
				s.Hist = &History{SP: s.SP, Warmups: []string{"sso"}, ReuseID: s.Req.ID, WarmupByOther: true}
			}
		}
		s.Req.ProtocolBinding = rapid.SampledFrom([]string{A, world.BindPost, world.BindRedirect}).Draw(t, "protocolbinding")
		if rapid.IntRange(0, 3).Draw(t, "ownacs") == 0 {
			a := pick(t, "acsentry", sp.ACS)
			s.Req.ACSURL = a.Location
			s.Req.ProtocolBinding = a.Binding
		}
		// A service provider may register endpoints the IdP cannot answer (HTTP-Artifact); the request is one the IdP has to
		// accept only if the documented selection (C16) lands on an answerable entry - by construction: entries the selection
		// may land on are given the POST binding.
		for round := 0; round < 5; round++ {
			pb := s.Req.ProtocolBinding
			if pb == A {
				pb = ""
			}
			changed := false
			for _, chosen := range refSelect(spec.SPs[s.SP], pb) {
				if chosen.Binding != world.BindPost && chosen.Binding != world.BindRedirect {
					for k := range spec.SPs[s.SP].ACS {
						if spec.SPs[s.SP].ACS[k].Location == chosen.Location && spec.SPs[s.SP].ACS[k].Index == chosen.Index {
							spec.SPs[s.SP].ACS[k].Binding = world.BindPost
							changed = true
						}
					}
				}
			}
			if !changed {
				break
			}
		}
		s.Spec = spec
	case "logout":
		l := spsim.NewLogoutReq(genID(t, "id"), sp.EntityID, "usermark0")
		// a conformant SP stamps the request "now": it is handled later, hence never before its IssueInstant
		l.IssueInstant = spsim.Rel(-rapid.SampledFrom([]int{0, 0, 0, 1, 5, 60, 600}).Draw(t, "issued"), rapid.IntRange(0, 9).Draw(t, "frac"), "")
		if rapid.Bool().Draw(t, "dest") {
			l.Destination = spec.IdP.Advertised("slo", s.Host)
		}
		if rapid.Bool().Draw(t, "noa") {
			l.NotOnOrAfter = spsim.Rel(rapid.SampledFrom([]int{60, 300, 86400}).Draw(t, "noaoff"), rapid.IntRange(0, 9).Draw(t, "noafrac"), "")
		}
		if rapid.Bool().Draw(t, "reason") {
			l.Reason = "urn:oasis:names:tc:SAML:2.0:logout:user"
		}
		if rapid.Bool().Draw(t, "nidfmt") {
			l.NameIDFormat = "urn:oasis:names:tc:SAML:1.1:nameid-format:emailAddress"
		}
		for i := 0; i < rapid.IntRange(0, 2).Draw(t, "nsess"); i++ {
			l.SessionIndex = append(l.SessionIndex, fmt.Sprintf("_session-%d", i))
		}
		c.Logout = l
	case "attrquery":
		q := spsim.NewAttrQuery(genID(t, "id"), sp.EntityID, rapid.SampledFrom([]string{"login0@users.example", "login1@users.example"}).Draw(t, "subject"))
		q.IssueInstant = spsim.Rel(-rapid.IntRange(0, 60).Draw(t, "issued"), rapid.IntRange(0, 9).Draw(t, "frac"), "")
		if rapid.Bool().Draw(t, "dest") {
			q.Destination = spec.IdP.Advertised("attribute", s.Host)
		}
		for i := 0; i < rapid.IntRange(0, 3).Draw(t, "nattrs"); i++ {
			q.Attrs = append(q.Attrs, spsim.QAttr{
				Name:         rapid.SampledFrom([]string{"Email", "UserName", "custom0", "custom1", "Other"}).Draw(t, "aname"),
				NameFormat:   rapid.SampledFrom([]string{"urn:oasis:names:tc:SAML:2.0:attrname-format:basic", A, "urn:oasis:names:tc:SAML:2.0:attrname-format:uri"}).Draw(t, "afmt"),
				FriendlyName: rapid.SampledFrom([]string{A, "friendly"}).Draw(t, "afriendly"),
			})
		}
		c.Query = q
		c.Soap = rapid.SampledFrom([]string{"soap", "soapenv", "S", "env"}).Draw(t, "soapprefix")
		c.HoistNS = rapid.Bool().Draw(t, "hoistns")
	}
	c.SSO = s
	return c
}

func issuerAsCDATA(root *xt.Node) {
	if is := root.Child(world.NSSAML, "Issuer"); is != nil {
		for _, ch := range is.Children {
			if ch.Kind == xt.KindText {
				ch.Style = "cdata"
			}
		}
	}
}

// c07Render builds the HTTP request of a case.
func c07Render(c C07Case, now time.Time) (obs.HTTPReq, error) {
	s := c.SSO
	var tree *xt.Node
	path := ""
	switch c.Kind {
	case "authn":
		tree = s.Req.Rendered(now).Tree(s.Style)
		path = s.Spec.IdP.Route("sso")
	case "logout":
		tree = c.Logout.Rendered(now).Tree(s.Style)
		path = s.Spec.IdP.Route("slo")
	case "attrquery":
		tree = c.Query.Rendered(now).QueryTree(s.Style)
		path = s.Spec.IdP.Route("attribute")
	}
	if c.CData {
		issuerAsCDATA(tree)
	}
	if err := spsim.SignTree(tree, s.Sign); err != nil {
		return obs.HTTPReq{}, err
	}
	if c.Kind == "attrquery" {
		tree = spsim.Envelope(tree, c.Soap)
		if c.HoistNS {
			spsim.HoistNS(tree)
		}
	}
	x := xt.Write(tree, s.Style.W)
	if c.BOM {
		x = append([]byte("\xef\xbb\xbf"), x...) // a UTF-8 byte order mark in front of the document is legal XML
	}
	hr, _, err := spsim.Encode(path, x, s.Tr, s.RSign)
	hr.Host = s.Host
	hr.Chunked = c.Chunked && hr.Body != ""
	return hr, err
}

// c07Accepted runs the case and reports whether it was accepted, with a reason if not.
func c07Accepted(c C07Case) (bool, string, obs.HTTPReq) {
	wspec := c.SSO.Spec
	if c.SSO.Noise {
		wspec = withNoise(wspec)
	}
	w := buildWithHistory(wspec, c.SSO.Hist, c.SSO.Host)
	if c.SSO.Noise {
		runNoise(w, wspec)
	}
	runPrelude(w, c.SSO.Spec, c.SSO.Prelude)
	now := time.Now()
	hr, err := c07Render(c, now)
	if err != nil {
		panic("harness: " + err.Error())
	}
	for i := 0; i < c.Again; i++ {
		obs.Do(w.Handler, hr)
		w.Store.ResetLog()
	}
	rep := obs.Do(w.Handler, hr)
	if rep.Panic != "" {
		return false, "panic: " + rep.Panic, hr
	}
	d := obs.Decode(rep)
	describe := func() string {
		msg := ""
		if d.Doc != nil {
			if r := obs.ReadResponse(obs.FindResponse(d.Root())); r != nil {
				msg = r.Status + " " + r.StatusMessage
			}
		}
		if msg == "" {
			msg = short(strings.TrimSpace(string(rep.Body)), 200)
		}
		return fmt.Sprintf("status %d, %s: %s", rep.Status, d.Kind, msg)
	}
	switch c.Kind {
	case "authn":
		okCalls, _ := createCalls(w)
		if len(okCalls) == 1 && rep.Status == 303 {
			return true, "", hr
		}
		return false, describe(), hr
	default:
		if d.Doc != nil {
			if r := obs.ReadResponse(obs.FindResponse(d.Root())); r != nil && r.Success() {
				return true, "", hr
			}
		}
		return false, describe(), hr
	}
}

func c07Canonical(tr spsim.Transport) bool {
	return !tr.LowerHex && tr.Plus && !tr.EncodeAll && tr.RelayState != ""
}

func c07Oracle(c C07Case) (*ev.Violation, bool, obs.HTTPReq) {
	ok, why, hr := c07Accepted(c)
	if ok {
		return nil, true, hr
	}
	s := c.SSO
	key := "C07/rejected:" + c.Kind
	// root-cause keys of the defects this check has established (see known_findings.json)
	switch {
	case c.Kind == "attrquery" && s.Sign.Alg != "":
		// root cause: the SOAP text is base64-decoded before signature validation. Narrow test: the unsigned twin is accepted.
		twin := c
		twin.SSO.Sign = spsim.Signing{}
		if ok2, _, _ := c07Accepted(twin); ok2 {
			key = "C07/signed-attribute-query-rejected"
		}
	case c.Kind == "authn" && s.RSign != nil && !c07Canonical(s.Tr):
		// root cause: the signed octets are rebuilt with url.QueryEscape from decoded values. Narrow test: the twin in Go's own escaping style is accepted.
		twin := c
		twin.SSO.Tr.LowerHex, twin.SSO.Tr.Plus, twin.SSO.Tr.EncodeAll = false, true, false
		if twin.SSO.Tr.RelayState == "" {
			twin.SSO.Tr.RelayState = A
		}
		if ok2, _, _ := c07Accepted(twin); ok2 {
			key = "C07/signed-redirect-octets-rebuilt-not-raw"
		}
	}
	return ev.V(key, "conformant %s rejected: %s", c.Kind, why), false, hr
}

func TestC07(t *testing.T) {
	col := ev.For("C07", "exploration", c07Rule)
	col.Assume("the default timestamp format is configured (custom layouts are a configuration choice outside the statement)")
	searchRapid(t, col, genC07Case, func(c C07Case) []*ev.Violation {
		v, ok, hr := c07Oracle(c)
		s := c.SSO
		signed := "unsigned"
		if s.Sign.Alg != "" {
			signed = fmt.Sprintf("dsig/%s/keyinfo=%v/%s/%q", shortBinding(s.Sign.Alg), s.Sign.KeyInfo, s.Sign.CertLayout, s.Sign.DSPrefix)
		}
		if s.RSign != nil {
			signed = "query-signature/" + shortBinding(s.RSign.Alg)
		}
		style := fmt.Sprintf("%s/indent=%v/comments=%v/sq=%v/decl=%s/charref=%v/cdata=%v", s.Style.Prefixes, s.Style.Indent, s.Style.Comments, s.Style.W.SingleQuote, s.Style.W.Decl, s.Style.W.CharRefText, c.CData)
		enc := fmt.Sprintf("lower=%v/plus=%v/all=%v/relayfirst=%v", s.Tr.LowerHex, s.Tr.Plus, s.Tr.EncodeAll, s.Tr.RelayFirst)
		fixtureLike := s.Style.Prefixes == "std" && !s.Style.Indent && !s.Style.Comments && !s.Style.W.SingleQuote && !c.CData && c07Canonical(s.Tr) && (s.Sign.Alg == "" || (s.Sign.KeyInfo && s.Sign.CertLayout == "plain"))
		classes := []string{"kind/" + c.Kind, "binding/" + s.Tr.Binding, "signed/" + strings.SplitN(signed, "/", 2)[0], fmt.Sprintf("accepted=%v", ok), "prefixes/" + s.Style.Prefixes}
		if s.Sign.Alg != "" {
			classes = append(classes, "certlayout/"+s.Sign.CertLayout, fmt.Sprintf("keyinfo=%v", s.Sign.KeyInfo))
		}
		col.Case(!fixtureLike, ev.Fingerprint(c.Kind, s.Tr.Binding, signed, style, enc, signingRequired(s.Spec, s.SP)), classes, func() any {
			return map[string]any{"kind": c.Kind, "binding": s.Tr.Binding, "signed": signed, "style": style, "encoding": enc, "query": short(hr.RawQuery, 300), "body": short(hr.Body, 300)}
		})
		return []*ev.Violation{v}
	})
}
