package props

// C14 — Decompression of request payloads is bounded.

import (
	"bytes"
	"compress/flate"
	"compress/gzip"
	"compress/zlib"
	"encoding/base64"
	"fmt"
	"io"
	"runtime"
	"strings"
	"sync"
	"testing"
	"time"

	"pgregory.net/rapid"

	"verif/harness/ev"
	"verif/harness/obs"
	"verif/harness/spsim"
	"verif/harness/world"
	"verif/harness/xt"
)

const c14Rule = "rapid over (endpoint: SSO via query, SSO via form with SAMLEncoding=DEFLATE, logout via form, logout via query) x (inflated size S from 1 MiB to 256 MiB in the quick tier, to 1 GiB in the thorough tier) x (padding placed in a comment, in element text, in an attribute value, or after the document element) x (padding byte) x (wrapper otherwise valid / issuer unregistered): a DEFLATE stream of about S/1000 bytes is sent as one request, alone, on one goroutine; runtime.MemStats.TotalAlloc is read before and after ServeHTTP. x (compression level: fastest, about 800:1, or best, about 1030:1 - the format's maximum) x (one DEFLATE stream, or the message cut into 4 / 9 / 40 streams each finished on its own) x (padding of one repeated byte, or - on the form endpoints - text that compresses only 10:1, so that the payload itself is megabytes): Oracle: the allocation during the call is at most 160 MiB plus six times the bytes on the wire whatever S is, and a request with S >= 32 MiB (half an order of magnitude above the 10 MB the statement names) is not accepted (no CreateAuthRequest, no Success). Sizes below 32 MiB are executed and reported, not asserted (the statement fixes only the order of magnitude of the cap). A message may be wrapped in up to 25 layers of DEFLATE (each inflating to the next, never accepted), and may arrive right after an accepted message of 8 MiB that compressed a thousandfold. The message parameter may occur up to 40 times, every occurrence spelled differently and inflating to the case's size. Non-trivial (sizes summed over occurrences): S >= 32 MiB with a compressed size below 1 MiB. Distinct by (endpoint, placement, size, wrapper validity)."

type C14Case struct {
	Endpoint  string `json:"endpoint"` // sso-query | sso-form | slo-form | slo-query
	SizeMiB   int    `json:"size_mib"`
	Placement string `json:"placement"` // comment | text | attribute | after-root
	Pad       string `json:"pad_byte"`
	Valid     bool   `json:"valid_wrapper"`
	Container string `json:"container,omitempty"` // "" raw DEFLATE (what the binding prescribes) | zlib (RFC 1950) | gzip
	Best      bool   `json:"best_compression,omitempty"`
	// Streams > 1: the message is cut into that many DEFLATE streams, each finished on its own, sent back to back.
	Streams int `json:"streams,omitempty"`
	// Repeat > 1: the SAMLRequest parameter occurs that many times, every occurrence spelled differently (base64 line breaks at
	// different places) and every one inflating to SizeMiB: what a request may make the IdP inflate is bounded, not what one value may.
	Repeat int `json:"repeat,omitempty"`
	// Simultaneous > 1: that many oversized messages (one per inflating endpoint, in turn) are served at the same moment
	Simultaneous int `json:"simultaneous,omitempty"`
	// Layers > 1: the message is wrapped that many times: each DEFLATE stream inflates to the next one (stored blocks, SizeMiB
	// each), the innermost to the padded document. A reader inflates once and finds no XML.
	Layers int `json:"layers,omitempty"`
	// Warm: a moment ago the same provider accepted a message of 8 MiB that compressed a thousandfold (whatever it learned
	// from that, the next message is bounded like any other)
	Warm bool `json:"after_an_accepted_highly_compressed_message,omitempty"`
}

// c14Layered wraps the inflated form of the case's message (SizeMiB of padding) into Layers-1 stored-block DEFLATE streams and
// compresses the outermost for real.
func c14Layered(c C14Case, spec world.Spec, now time.Time) []byte {
	inner := c
	inner.Layers = 0
	data, err := inflateAll(c14Payload(inner, spec, now))
	if err != nil {
		panic("harness: " + err.Error())
	}
	for i := 1; i < c.Layers; i++ {
		var buf bytes.Buffer
		w, _ := flate.NewWriter(&buf, flate.NoCompression)
		w.Write(data)
		w.Close()
		data = buf.Bytes()
	}
	var out bytes.Buffer
	w, _ := flate.NewWriter(&out, flate.BestSpeed)
	w.Write(data)
	w.Close()
	return out.Bytes()
}

var (
	c14Mu    sync.Mutex
	c14Cache = map[string][]byte{}
)

// c14Payload returns the DEFLATE stream of a request whose padding inflates to sizeMiB, produced without materialising the inflated text.
func c14Payload(c C14Case, spec world.Spec, now time.Time) []byte {
	ek := c.Endpoint[:3]
	if strings.HasSuffix(c.Endpoint, "-http-encoded") {
		ek = c.Endpoint
	}
	key := fmt.Sprintf("%s/%d/%s/%s/%v/%s/%v/%d", ek, c.SizeMiB, c.Placement, c.Pad, c.Valid, c.Container, c.Best, c.Streams)
	c14Mu.Lock()
	defer c14Mu.Unlock()
	if b, ok := c14Cache[key]; ok {
		return b
	}
	issuer := spec.SPs[0].EntityID
	if !c.Valid {
		issuer = "https://unregistered.example/metadata"
	}
	const marker = "PADDINGGOESHERE"
	var x string
	switch {
	case c.Endpoint == "attr-http-encoded":
		q := spsim.NewAttrQuery("_c14", issuer, "login0@users.example")
		q.IssueInstant = spsim.Instant(now, 0)
		x = string(xt.Write(spsim.Envelope(q.QueryTree(plainStyle), "soap"), plainStyle.W))
		i := strings.Index(x, "<soap:Body")
		if i < 0 {
			i = strings.Index(x, ">") + 1
		}
		x = x[:i] + "<!--" + marker + "-->" + x[i:]
	case strings.HasSuffix(c.Endpoint, "-http-encoded"):
		var inner string
		if strings.HasPrefix(c.Endpoint, "sso") {
			a := spsim.NewAuthnReq("_c14", issuer)
			a.IssueInstant = spsim.Instant(now, 0)
			inner = string(xt.Write(a.Tree(plainStyle), plainStyle.W))
		} else {
			l := spsim.NewLogoutReq("_c14", issuer, "usermark0")
			l.IssueInstant = spsim.Instant(now.Add(-10*time.Second), 0)
			inner = string(xt.Write(l.Tree(plainStyle), plainStyle.W))
		}
		x = "SAMLRequest=" + qesc(base64.StdEncoding.EncodeToString([]byte(inner))) + "&RelayState=" + marker
	}
	if x != "" {
		// built above: padding placement is fixed for these endpoints
	} else if strings.HasPrefix(c.Endpoint, "sso") {
		a := spsim.NewAuthnReq("_c14", issuer)
		a.IssueInstant = spsim.Instant(now, 0)
		switch c.Placement {
		case "attribute":
			a.ProviderName = marker
		case "text":
			a.Subject = marker
		}
		x = string(xt.Write(a.Tree(plainStyle), plainStyle.W))
	} else {
		l := spsim.NewLogoutReq("_c14", issuer, "usermark0")
		l.IssueInstant = spsim.Instant(now.Add(-10*time.Second), 0)
		switch c.Placement {
		case "attribute":
			l.Reason = marker
		case "text":
			l.SessionIndex = []string{marker}
		}
		x = string(xt.Write(l.Tree(plainStyle), plainStyle.W))
	}
	placement := c.Placement
	if strings.HasSuffix(c.Endpoint, "-http-encoded") {
		placement = "fixed"
	}
	switch placement {
	case "comment":
		i := strings.Index(x, ">") + 1
		if strings.HasPrefix(x, "<?xml") {
			i += strings.Index(x[i:], ">") + 1
		}
		x = x[:i] + "<!--" + marker + "-->" + x[i:]
	case "after-root":
		x = x + "<!--" + marker + "-->"
	case "xmldecl":
		// blanks inside the XML declaration, before its closing ?>
		if strings.HasPrefix(x, "<?xml") {
			i := strings.Index(x, "?>")
			x = x[:i] + marker + x[i:]
		} else {
			x = "<?xml version=\"1.0\"" + marker + "?>" + x
		}
	}
	pre, post, _ := strings.Cut(x, marker)
	var buf bytes.Buffer
	var w io.WriteCloser
	level := flate.BestSpeed
	if c.Best {
		level = flate.BestCompression
	}
	open := func() {
		switch c.Container {
		case "zlib":
			w, _ = zlib.NewWriterLevel(&buf, level)
		case "gzip":
			w, _ = gzip.NewWriterLevel(&buf, level)
		default:
			w, _ = flate.NewWriter(&buf, level)
		}
	}
	open()
	w.Write([]byte(pre))
	pad := c.Pad
	if c.Placement == "xmldecl" {
		pad = " " // only white space is well-formed there
	}
	chunk := bytes.Repeat([]byte(pad), 1<<20)
	if c.Pad == "noise" {
		// text that compresses about 10:1 only: words from a small vocabulary in pseudo-random order
		chunk = c14Noise(1 << 20)
	}
	every := 0
	if c.Streams > 1 {
		every = (c.SizeMiB + c.Streams - 1) / c.Streams
	}
	for i := 0; i < c.SizeMiB; i++ {
		if every > 0 && i > 0 && i%every == 0 {
			w.Close()
			open()
		}
		w.Write(chunk)
	}
	w.Write([]byte(post))
	w.Close()
	out := append([]byte(nil), buf.Bytes()...)
	c14Cache[key] = out
	return out
}

// c14Noise returns n bytes of XML-safe text that compresses about 10:1 (deterministic): blocks of 6 unpredictable characters
// followed by 58 equal ones.
func c14Noise(n int) []byte {
	out := make([]byte, 0, n)
	x := uint64(0x9E3779B97F4A7C15)
	const alphabet = "abcdefghijklmnopqrstuvwxyzABCDEFGHIJKLMNOPQRSTUVWXYZ0123456789 ._"
	for len(out) < n {
		x ^= x << 13
		x ^= x >> 7
		x ^= x << 17
		for k := 0; k < 6 && len(out) < n; k++ {
			out = append(out, alphabet[(x>>(8*uint(k)))&63])
		}
		for k := 0; k < 58 && len(out) < n; k++ {
			out = append(out, 'A')
		}
	}
	return out
}

func genC14Case(t *rapid.T) C14Case {
	sizes := []int{1, 2, 8, 12, 20, 32, 32, 36, 40, 48, 64, 64, 96, 128, 128, 256, 256}
	if ev.Tier() == "thorough" {
		sizes = append(sizes, 384, 512, 768, 1024, 1024)
	}
	c := C14Case{
		Endpoint:  rapid.SampledFrom([]string{"sso-query", "sso-form", "slo-form", "slo-query", "sso-query", "sso-form", "slo-form", "slo-query", "attr-http-encoded", "sso-http-encoded", "slo-http-encoded"}).Draw(t, "endpoint"),
		SizeMiB:   pick(t, "size", sizes),
		Placement: rapid.SampledFrom([]string{"comment", "text", "attribute", "after-root", "xmldecl"}).Draw(t, "placement"),
		Pad:       rapid.SampledFrom([]string{"A", " ", "A"}).Draw(t, "pad"),
		Valid:     rapid.IntRange(0, 3).Draw(t, "valid") != 0,
		Container: rapid.SampledFrom([]string{"", "", "", "zlib", "gzip"}).Draw(t, "container"),
		Best:      rapid.Bool().Draw(t, "best"),
		Streams:   rapid.SampledFrom([]int{0, 0, 0, 4, 9, 40}).Draw(t, "streams"),
		Repeat:    rapid.SampledFrom([]int{0, 0, 0, 0, 6, 40}).Draw(t, "repeat"),
		Warm:      rapid.IntRange(0, 2).Draw(t, "warm") == 0,
	}
	if rapid.IntRange(0, 5).Draw(t, "layered") == 0 && !strings.HasSuffix(c.Endpoint, "-http-encoded") {
		c.Layers, c.SizeMiB, c.Streams, c.Container, c.Repeat = rapid.SampledFrom([]int{2, 6, 25}).Draw(t, "layers"), rapid.SampledFrom([]int{1, 8, 9}).Draw(t, "layersize"), 0, "", 0
	}
	return c
}

const c14AllocLimit = 160 << 20

// c14AcceptLimitMiB: "of the order of the 10 MB cap" is read as within half an order of magnitude (x3.16): a message that
// inflates to 32 MiB or more must not be accepted whatever cap an implementation chooses.
const c14AcceptLimitMiB = 32

func c14Run(c C14Case) (vs []*ev.Violation, alloc uint64, compressed int, accepted bool) {
	if c.Simultaneous > 1 {
		return c14RunConcurrent(c, nil), 0, 0, false
	}
	spec := stdSpec()
	now := time.Now()
	payload := c14Payload(c, spec, now)
	if c.Layers > 1 && !strings.HasSuffix(c.Endpoint, "-http-encoded") {
		payload = c14Layered(c, spec, now)
	}
	compressed = len(payload)
	b64 := base64.StdEncoding.EncodeToString(payload)
	msg := qesc(b64)
	if c.Repeat > 1 && !strings.HasSuffix(c.Endpoint, "-http-encoded") {
		var parts []string
		for i := 0; i < c.Repeat; i++ {
			cut := 4 * (i + 1)
			if cut > len(b64) {
				cut = len(b64)
			}
			parts = append(parts, qesc(b64[:cut]+"\n"+b64[cut:]))
		}
		msg = strings.Join(parts, "&SAMLRequest=")
	}
	var hr obs.HTTPReq
	route := spec.IdP.Route("sso")
	if strings.HasPrefix(c.Endpoint, "slo") {
		route = spec.IdP.Route("slo")
	}
	switch {
	case strings.HasSuffix(c.Endpoint, "-http-encoded"):
		// compression at the HTTP layer: the body itself is the DEFLATE (or gzip) stream, announced by Content-Encoding
		ce := map[string]string{"": "deflate", "zlib": "deflate", "gzip": "gzip"}[c.Container]
		switch c.Endpoint {
		case "attr-http-encoded":
			hr = obs.HTTPReq{Method: "POST", Path: spec.IdP.Route("attribute"), ContentType: "text/xml; charset=utf-8", Body: string(payload), Headers: [][2]string{{"Content-Encoding", ce}}}
		default:
			hr = obs.HTTPReq{Method: "POST", Path: route, ContentType: "application/x-www-form-urlencoded", Body: string(payload), Headers: [][2]string{{"Content-Encoding", ce}}}
		}
	case strings.HasSuffix(c.Endpoint, "query"):
		hr = obs.HTTPReq{Method: "GET", Path: route, RawQuery: "SAMLRequest=" + msg + "&RelayState=rs"}
	default:
		hr = obs.HTTPReq{Method: "POST", Path: route, ContentType: "application/x-www-form-urlencoded", Body: "SAMLRequest=" + msg + "&RelayState=rs&SAMLEncoding=" + qesc(spsim.EncodingDeflate)}
	}
	w := mustBuild(spec)
	if c.Warm {
		wc := C14Case{Endpoint: "sso-form", SizeMiB: 8, Placement: "comment", Pad: "A", Valid: true, Best: true}
		wp := c14Payload(wc, spec, now)
		obs.Do(w.Handler, obs.HTTPReq{Method: "POST", Path: spec.IdP.Route("sso"), ContentType: "application/x-www-form-urlencoded",
			Body: "SAMLRequest=" + qesc(base64.StdEncoding.EncodeToString(wp)) + "&RelayState=rs&SAMLEncoding=" + qesc(spsim.EncodingDeflate)})
		if ok, _ := createCalls(w); len(ok) != 1 {
			panic("harness: the warm-up message of 8 MiB was not accepted")
		}
		w.Store.ResetLog()
	}
	runtime.GC()
	var m0, m1 runtime.MemStats
	runtime.ReadMemStats(&m0)
	rep := obs.Do(w.Handler, hr)
	runtime.ReadMemStats(&m1)
	alloc = m1.TotalAlloc - m0.TotalAlloc
	if rep.Panic != "" {
		vs = append(vs, ev.V("C14/panic", "handler panicked: %s", short(rep.Panic, 100)))
		return
	}
	okCalls, _ := createCalls(w)
	d := obs.Decode(rep)
	success := false
	if d.Doc != nil {
		if r := obs.ReadResponse(d.Root()); r != nil && r.Success() {
			success = true
		}
	}
	accepted = len(okCalls) > 0 || success
	// what arrives on the wire is paid for several times over by form parsing whatever it inflates to (a query of 50 MB is
	// parsed anew by every r.URL.Query()): the bound is fixed in the inflated size, not in the size of the request itself
	limit := uint64(c14AllocLimit) + 6*uint64(len(hr.RawQuery)+len(hr.Body))
	if alloc > limit {
		vs = append(vs, ev.V("C14/allocation-proportional-to-inflated-size", "%s, %d MiB inflated (%d KiB compressed, %d KiB on the wire, padding in %s): %d MiB allocated while serving the request (limit %d MiB)", c.Endpoint, c.SizeMiB, compressed>>10, (len(hr.RawQuery)+len(hr.Body))>>10, c.Placement, alloc>>20, limit>>20))
	}
	// With several streams only the first one is the message for an inflater that follows the format (what comes after the
	// final block is trailing data it never looks at): the acceptance clause is then about the size of that first stream.
	effective := c.SizeMiB
	if c.Layers > 1 {
		// what inflates to another DEFLATE stream is no message at all
		effective = c14AcceptLimitMiB
	}
	if c.Streams > 1 {
		effective = (c.SizeMiB + c.Streams - 1) / c.Streams
	}
	if effective >= c14AcceptLimitMiB && accepted {
		vs = append(vs, ev.V("C14/oversized-request-accepted", "%s, %d MiB inflated (%d KiB compressed, padding in %s) was accepted", c.Endpoint, c.SizeMiB, compressed>>10, c.Placement))
	}
	return
}

func TestC14(t *testing.T) {
	col := ev.For("C14", "exploration", c14Rule)
	col.Assume("one request at a time on one goroutine: TotalAlloc deltas are attributable to the request (the harness allocates the request itself before the measurement)")
	var maxAlloc uint64
	searchRapid(t, col, genC14Case, func(c C14Case) []*ev.Violation {
		vs, alloc, compressed, accepted := c14Run(c)
		if alloc > maxAlloc {
			maxAlloc = alloc
			col.SetExtra("max_alloc_mib_during_one_request", int(maxAlloc>>20))
		}
		nt := c.SizeMiB*maxInt(1, c.Repeat) >= c14AcceptLimitMiB && compressed < 1<<20
		bucket := "<=64MiB"
		if alloc > 64<<20 {
			bucket = ">64MiB"
		}
		col.Case(nt, ev.Fingerprint(c.Endpoint, c.Placement, c.SizeMiB, c.Valid, c.Container, c.Best, c.Streams, c.Repeat), []string{"endpoint/" + c.Endpoint, "placement/" + c.Placement, fmt.Sprintf("streams/%d", c.Streams), fmt.Sprintf("size/%04dMiB", c.SizeMiB), fmt.Sprintf("accepted=%v", accepted), "alloc" + bucket}, func() any {
			return map[string]any{"case": c, "compressed_bytes": compressed, "allocated_mib": alloc >> 20, "accepted": accepted}
		})
		return vs
	})
}

// TestC14Ladder walks the sizes around the acceptance limit deterministically (every endpoint x size x compression level,
// raw DEFLATE, padding in a comment): the region between an implementation's cap and the limit is where a cap that depends
// on the compressed length or on the compression ratio shows.
func TestC14Ladder(t *testing.T) {
	col := ev.For("C14", "exploration", c14Rule)
	runPlain(t, col, "TestC14", func(fail func(*ev.Violation, any)) {
		var cases []C14Case
		for _, ep := range []string{"sso-query", "sso-form", "slo-form", "slo-query"} {
			for _, size := range []int{4, 9, 10, 11, 16, 24, 32, 33, 36, 40, 41, 44, 64} {
				for _, best := range []bool{false, true} {
					cases = append(cases, C14Case{Endpoint: ep, SizeMiB: size, Placement: "comment", Pad: "A", Valid: true, Best: best})
				}
			}
			// the other places a decoder may stop looking, and other ways to pack the same amount
			for _, size := range []int{32, 128} {
				for _, pl := range []string{"after-root", "text", "attribute", "xmldecl"} {
					cases = append(cases, C14Case{Endpoint: ep, SizeMiB: size, Placement: pl, Pad: "A", Valid: true, Best: true})
				}
				for _, streams := range []int{4, 9} {
					cases = append(cases, C14Case{Endpoint: ep, SizeMiB: size, Placement: "comment", Pad: "A", Valid: true, Streams: streams})
					cases = append(cases, C14Case{Endpoint: ep, SizeMiB: size, Placement: "after-root", Pad: " ", Valid: true, Streams: streams})
				}
			}
		}
		// compression announced at the HTTP layer (Content-Encoding) instead of by SAMLEncoding
		for _, ep := range []string{"attr-http-encoded", "sso-http-encoded", "slo-http-encoded"} {
			for _, size := range []int{32, 256} {
				for _, cont := range []string{"", "gzip"} {
					cases = append(cases, C14Case{Endpoint: ep, SizeMiB: size, Placement: "comment", Pad: "A", Valid: true, Container: cont, Best: true})
				}
			}
		}
		// the same amount in the containers inflaters are often lenient about (RFC 1950 zlib, gzip) on the SAML endpoints themselves
		for _, ep := range []string{"sso-query", "sso-form", "slo-form", "slo-query"} {
			for _, cont := range []string{"zlib", "gzip"} {
				cases = append(cases, C14Case{Endpoint: ep, SizeMiB: 64, Placement: "comment", Pad: "A", Valid: true, Container: cont, Best: true})
			}
		}
		// the message parameter many times over, each occurrence below any cap on one value
		for _, ep := range []string{"sso-query", "sso-form", "slo-form", "slo-query"} {
			for _, size := range []int{8, 9} {
				cases = append(cases, C14Case{Endpoint: ep, SizeMiB: size, Placement: "comment", Pad: "A", Valid: true, Best: true, Repeat: 40})
			}
		}
		// messages wrapped in layers of DEFLATE, and oversized messages right after an accepted one that compressed a thousandfold
		for _, ep := range []string{"sso-query", "sso-form", "slo-form", "slo-query"} {
			cases = append(cases, C14Case{Endpoint: ep, SizeMiB: 9, Placement: "comment", Pad: "A", Valid: true, Layers: 25},
				C14Case{Endpoint: ep, SizeMiB: 256, Placement: "comment", Pad: "A", Valid: true, Best: true, Warm: true},
				C14Case{Endpoint: ep, SizeMiB: 256, Placement: "after-root", Pad: " ", Valid: false, Warm: true})
		}
		// low compression ratio: the payload itself is megabytes (only a form body carries that much)
		for _, ep := range []string{"sso-form", "slo-form"} {
			for _, size := range []int{32, 48} {
				cases = append(cases, C14Case{Endpoint: ep, SizeMiB: size, Placement: "comment", Pad: "noise", Valid: true})
			}
		}
		for _, c := range cases {
			ep, size := c.Endpoint, c.SizeMiB
			vs, alloc, compressed, accepted := c14Run(c)
			bucket := "<=64MiB"
			if alloc > 64<<20 {
				bucket = ">64MiB"
			}
			col.Case(size*maxInt(1, c.Repeat) >= c14AcceptLimitMiB && compressed < 1<<20, ev.Fingerprint(c.Endpoint, c.Placement, c.SizeMiB, c.Valid, c.Container, c.Best, c.Streams, c.Pad, c.Repeat), []string{"ladder/endpoint/" + ep, fmt.Sprintf("ladder/size/%04dMiB", size), fmt.Sprintf("ladder/accepted=%v", accepted), "ladder/alloc" + bucket, "ladder/placement/" + c.Placement, fmt.Sprintf("ladder/streams/%d", c.Streams), "ladder/pad/" + map[bool]string{true: "noise", false: "constant"}[c.Pad == "noise"]}, func() any {
				return map[string]any{"case": c, "compressed_bytes": compressed, "allocated_mib": alloc >> 20, "accepted": accepted}
			})
			for _, v := range vs {
				fail(v, c)
			}
		}
	})
}


// TestC14Concurrent: the bound holds per request also when requests arrive together - four oversized messages on four inflating
// endpoints released from one barrier, three rounds. The allocation of the whole round must stay below four times the
// single-request limit; nobody may be accepted.
func TestC14Concurrent(t *testing.T) {
	col := ev.For("C14", "exploration", c14Rule)
	runPlain(t, col, "TestC14", func(fail func(*ev.Violation, any)) {
		c := C14Case{Endpoint: "four-endpoints", SizeMiB: 128, Placement: "comment", Pad: "A", Valid: true, Best: true, Simultaneous: 4}
		for _, v := range c14RunConcurrent(c, col) {
			fail(v, c)
		}
	})
}

// c14RunConcurrent serves c.Simultaneous oversized messages (one per inflating endpoint, in turn) released from one barrier,
// three rounds on one provider.
func c14RunConcurrent(c C14Case, col *ev.Collector) (vs []*ev.Violation) {
	spec := stdSpec()
	now := time.Now()
	eps := []C14Case{
		{Endpoint: "sso-query", SizeMiB: c.SizeMiB, Placement: "comment", Pad: "A", Valid: true, Best: true},
		{Endpoint: "sso-form", SizeMiB: c.SizeMiB, Placement: "after-root", Pad: "A", Valid: true, Best: true},
		{Endpoint: "slo-query", SizeMiB: c.SizeMiB, Placement: "comment", Pad: "A", Valid: true, Best: true},
		{Endpoint: "slo-form", SizeMiB: c.SizeMiB, Placement: "text", Pad: "A", Valid: true, Best: true},
	}
	var reqs []obs.HTTPReq
	for i := 0; i < c.Simultaneous; i++ {
		e := eps[i%len(eps)]
		msg := qesc(base64.StdEncoding.EncodeToString(c14Payload(e, spec, now)))
		route := spec.IdP.Route("sso")
		if strings.HasPrefix(e.Endpoint, "slo") {
			route = spec.IdP.Route("slo")
		}
		if strings.HasSuffix(e.Endpoint, "query") {
			reqs = append(reqs, obs.HTTPReq{Method: "GET", Path: route, RawQuery: "SAMLRequest=" + msg + "&RelayState=rs"})
		} else {
			reqs = append(reqs, obs.HTTPReq{Method: "POST", Path: route, ContentType: "application/x-www-form-urlencoded", Body: "SAMLRequest=" + msg + "&RelayState=rs&SAMLEncoding=" + qesc(spsim.EncodingDeflate)})
		}
	}
	w := mustBuild(spec)
	for round := 0; round < 3; round++ {
		runtime.GC()
		var m0, m1 runtime.MemStats
		runtime.ReadMemStats(&m0)
		start := make(chan struct{})
		var wg sync.WaitGroup
		reps := make([]obs.Reply, len(reqs))
		for i := range reqs {
			wg.Add(1)
			go func(i int) {
				defer wg.Done()
				<-start
				reps[i] = obs.Do(w.Handler, reqs[i])
			}(i)
		}
		close(start)
		wg.Wait()
		runtime.ReadMemStats(&m1)
		alloc := m1.TotalAlloc - m0.TotalAlloc
		okCalls, _ := createCalls(w)
		if col != nil {
			col.Case(true, ev.Fingerprint("concurrent", round), []string{"concurrent-round"}, func() any {
				return map[string]any{"simultaneous_requests": len(reqs), "inflated_mib_each": c.SizeMiB, "allocated_mib_round": alloc >> 20, "accepted": len(okCalls)}
			})
		}
		if alloc > uint64(len(reqs))*c14AllocLimit {
			vs = append(vs, ev.V("C14/allocation-proportional-to-inflated-size", "%d simultaneous requests inflating to %d MiB each: %d MiB allocated in the round (limit %d x %d MiB)", len(reqs), c.SizeMiB, alloc>>20, len(reqs), c14AllocLimit>>20))
		}
		if len(okCalls) > 0 && c.SizeMiB >= c14AcceptLimitMiB {
			vs = append(vs, ev.V("C14/oversized-request-accepted", "one of %d simultaneous %d MiB requests was accepted", len(reqs), c.SizeMiB))
		}
		for _, rep := range reps {
			if rep.Panic != "" {
				vs = append(vs, ev.V("C14/panic", "handler panicked: %s", short(rep.Panic, 100)))
			}
		}
		if len(vs) > 0 {
			return vs
		}
	}
	return nil
}
