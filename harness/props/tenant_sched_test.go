package props

// Tenants under a schedule (C12, C13). One provider serves several issuers (host-derived); the storage keeps service providers
// and users per tenant and looks them up under the issuer it finds in the context of the call. The same entity ID is
// registered under two tenants with different endpoints (or under one of them only), the same login name names a different
// user under each. Requests of both tenants overlap at storage-call granularity under a generated schedule: every answer is
// determined by its own request and the records of its own tenant.

import (
	"fmt"
	"runtime"
	"strings"
	"testing"

	"pgregory.net/rapid"

	"verif/harness/ev"
	"verif/harness/obs"
	"verif/harness/spsim"
	"verif/harness/world"
	"verif/harness/xt"
)

type TenantSchedCase struct {
	Kind     string `json:"kind"`    // attrquery | logout
	Tenant   []int  `json:"tenants"` // per task: 0 or 1
	OnlyA    bool   `json:"registered_under_first_tenant_only,omitempty"`
	Schedule []int  `json:"schedule"`
	Slow     int    `json:"slow"`
	SlowAt   string `json:"slow_at,omitempty"`
	// Sequential: no overlap at all - the tasks run one after the other (what one tenant's request leaves behind)
	Sequential bool `json:"sequential,omitempty"`
}

var tenantHosts = []string{"ta.idp.example", "tb.idp.example"}

const tenantEntity = "https://shared-sp.example/metadata"
const tenantLogin = "shared.login@users.example"

func tenantSpec(onlyA bool) world.Spec {
	spec := world.Spec{IdP: world.DefaultIdP(), SPs: []world.SPSpec{stdSP(0)}, Users: []world.UserSpec{stdUser(0)}, Tenants: map[string]world.TenantSpec{}}
	spec.IdP.IssuerMode, spec.IdP.IssuerPath = "host", "/saml"
	for i, host := range tenantHosts {
		tag := string(rune('a' + i))
		sp := stdSP(0)
		sp.EntityID, sp.AppID = tenantEntity, "app-tenant-"+tag
		sp.ACS = []world.ACSSpec{acs(world.BindPost, "https://tenant-"+tag+".sp.example/acs", "0", A)}
		sp.SLO = []world.SLOSpec{{Binding: world.BindPost, Location: "https://tenant-" + tag + ".sp.example/slo"}}
		u := stdUser(0)
		u.UserID, u.LoginName = "uid-shared-by-tenants", tenantLogin
		u.Username, u.Email, u.FullName, u.GivenName, u.Surname, u.UserIDAttr = "tenant"+tag+"-username", "tenant"+tag+"-mail@users.example", "Tenant"+tag+" Fullname", "Tenant"+tag+"given", "Tenant"+tag+"sur", "tenant"+tag+"-idattr"
		u.Custom = []world.CustomAttr{{Name: "role", NameFormat: "urn:oasis:names:tc:SAML:2.0:attrname-format:basic", Values: []string{"tenant" + tag + "-role-value"}}}
		t := world.TenantSpec{Users: []world.UserSpec{u}}
		if i == 0 || !onlyA {
			t.SPs = []world.SPSpec{sp}
		}
		spec.Tenants[host] = t
		// a completed login of that user under this tenant, to be delivered to the tenant's consumer service
		spec.Requests = append(spec.Requests, world.RequestSpec{ID: "tenant-req-" + tag, AppID: sp.AppID, RelayState: "rs-tenant-" + tag, ACS: sp.ACS[0].Location, Binding: world.BindPost,
			AuthRequestID: "_id-both-tenants-chose", UserID: u.UserID, Done: true})
		if spec.Apps == nil {
			spec.Apps = map[string]string{}
		}
		spec.Apps[sp.AppID] = tenantEntity
	}
	return spec
}

func genTenantSchedCase(kind string) func(t *rapid.T) TenantSchedCase {
	return func(t *rapid.T) TenantSchedCase {
		c := TenantSchedCase{Kind: kind, Slow: -1}
		n := rapid.IntRange(2, 4).Draw(t, "n")
		for i := 0; i < n; i++ {
			c.Tenant = append(c.Tenant, rapid.IntRange(0, 1).Draw(t, "tenant"))
		}
		c.Tenant[0], c.Tenant[1] = 0, 1
		c.OnlyA = (kind == "logout" || kind == "sso") && rapid.Bool().Draw(t, "only-a")
		c.Sequential = rapid.IntRange(0, 4).Draw(t, "sequential") == 0
		if !c.Sequential && rapid.IntRange(0, 3).Draw(t, "slowstorage") != 0 {
			c.Slow = rapid.IntRange(0, n-1).Draw(t, "slow")
			c.SlowAt = "storage:" + rapid.SampledFrom([]string{"GetEntityByID", "GetEntityByID", "SetUserinfoWithLoginName", "SetUserinfoWithLoginName", "GetResponseSigningKey", "CreateAuthRequest", "SetUserinfoWithUserID", "AuthRequestByID", "GetEntityIDByAppID"}).Draw(t, "slowat")
		}
		c.Schedule = rapid.SliceOfN(rapid.IntRange(0, 7), 0, 40).Draw(t, "schedule")
		return c
	}
}

func tenantSchedRun(c TenantSchedCase) ([]*ev.Violation, []string) {
	prop := map[string]string{"attrquery": "C12", "logout": "C13", "sso": "C02", "callback": "C03"}[c.Kind]
	spec := tenantSpec(c.OnlyA)
	w := mustBuild(spec)
	wr := func(n *xt.Node) []byte { return xt.Write(n, plainStyle.W) }
	reqs := make([]obs.HTTPReq, len(c.Tenant))
	for i, tn := range c.Tenant {
		var hr obs.HTTPReq
		if c.Kind == "callback" {
			hr = callbackReq(spec.IdP, "tenant-req-"+string(rune('a'+tn)))
		} else if c.Kind == "sso" {
			a := spsim.NewAuthnReq(fmt.Sprintf("_ts-%d", i), tenantEntity)
			hr, _, _ = spsim.Encode(spec.IdP.Route("sso"), wr(a.Tree(plainStyle)), spsim.Transport{Binding: []string{"post", "redirect"}[i%2], Plus: true, Encoding: A, RelayState: fmt.Sprintf("rs-task-%d", i)}, nil)
		} else if c.Kind == "attrquery" {
			q := spsim.NewAttrQuery(fmt.Sprintf("_tq-%d", i), tenantEntity, tenantLogin)
			if i%2 == 1 {
				// addressed to the attribute service this IdP advertises for the host the query is sent to
				q.Destination = spec.IdP.Advertised("attribute", tenantHosts[tn])
			}
			hr, _, _ = spsim.Encode(spec.IdP.Route("attribute"), wr(spsim.Envelope(q.QueryTree(plainStyle), "soap")), spsim.Transport{Binding: "soap"}, nil)
		} else {
			l := spsim.NewLogoutReq(fmt.Sprintf("_tl-%d", i), tenantEntity, "someone")
			hr, _, _ = spsim.Encode(spec.IdP.Route("slo"), wr(l.Tree(plainStyle)), spsim.Transport{Binding: "post", Plus: true, Encoding: A, RelayState: fmt.Sprintf("rs-task-%d", i)}, nil)
		}
		hr.Host = tenantHosts[tn]
		reqs[i] = hr
	}
	reps := make([]obs.Reply, len(reqs))
	var trace []string
	if c.Sequential {
		for i := range reqs {
			reps[i] = obs.Do(w.Handler, reqs[i])
		}
	} else {
		var v *ev.Violation
		v, trace = schedTasks(w, len(reqs), c.Schedule, c.Slow, c.SlowAt, func(i int, opt func() obs.Opt) {
			reps[i] = obs.DoOpt(w.Handler, reqs[i], opt())
		})
		if v != nil {
			v.Key = prop + "/" + strings.TrimPrefix(v.Key, "C15/")
			return []*ev.Violation{v}, trace
		}
	}
	var vs []*ev.Violation
	how := "one after the other"
	if !c.Sequential {
		how = "overlapping under the schedule " + short(strings.Join(trace, " "), 160)
	}
	seenMsgIDs := map[string]int{}
	for i, rep := range reps {
		tn := c.Tenant[i]
		own, other := string(rune('a'+tn)), string(rune('a'+1-tn))
		add := func(key, f string, a ...any) {
			vs = append(vs, ev.V(prop+"/"+key, "request %d of tenant %s (%s): %s", i, tenantHosts[tn], how, fmt.Sprintf(f, a...)))
		}
		if rep.Panic != "" {
			add("panic", "handler panicked: %s", short(rep.Panic, 100))
			continue
		}
		d := obs.Decode(rep)
		resp := obs.ReadResponse(obs.FindResponse(d.Root()))
		wantIssuer := spec.IdP.EntityID(tenantHosts[tn])
		for _, text := range replyTexts(rep, d) {
			if strings.Contains(text, "tenant"+other+"-") || strings.Contains(text, "Tenant"+other) || strings.Contains(text, "tenant-"+other+".sp.example") || strings.Contains(text, tenantHosts[1-tn]) {
				add("another-tenants-records", "the reply carries records of the other tenant (%s)", short(strings.TrimSpace(text), 120))
				break
			}
		}
		if c.Kind == "callback" && resp != nil {
			ids := []string{resp.ID}
			for _, a := range resp.Assertions {
				ids = append(ids, a.ID)
			}
			for _, id := range ids {
				if j, dup := seenMsgIDs[id]; dup && id != "" {
					add("id-reused", "ID %q was already used in the reply to request %d", id, j)
				}
				seenMsgIDs[id] = i
			}
		}
		if c.Kind == "callback" {
			switch {
			case resp == nil || !resp.Success() || len(resp.Assertions) != 1:
				add("tenant-callback-not-answered", "the callback for a completed request of this tenant was not answered with one assertion: status %d %s", rep.Status, short(string(rep.Body), 120))
			case resp.Assertions[0].NameID != "tenant"+own+"-username":
				add("attributes", "the assertion names %q, the user who completed the request is %q under this tenant", resp.Assertions[0].NameID, "tenant"+own+"-username")
			case d.Target != "https://tenant-"+own+".sp.example/acs" || resp.Destination != d.Target:
				add("destination", "delivered to %q with Destination %q; the stored consumer URL is %q", d.Target, resp.Destination, "https://tenant-"+own+".sp.example/acs")
			case resp.Issuer != wantIssuer:
				add("response-issuer", "Issuer %q, the entity ID for the request host is %q", resp.Issuer, wantIssuer)
			case resp.InResponseTo != "_id-both-tenants-chose":
				add("inresponseto", "InResponseTo %q, the stored request's ID is %q", resp.InResponseTo, "_id-both-tenants-chose")
			case d.RelayState != "rs-tenant-"+own:
				add("relaystate", "RelayState %q, stored %q", d.RelayState, "rs-tenant-"+own)
			}
			continue
		}
		if c.Kind == "sso" {
			registered := tn == 0 || !c.OnlyA
			var mine []world.Call
			for _, call := range w.Store.CallsOf("CreateAuthRequest") {
				if len(call.Args) > 2 && call.Args[2] == fmt.Sprintf("rs-task-%d", i) {
					mine = append(mine, call)
				}
			}
			wantACS := "https://tenant-" + own + ".sp.example/acs"
			switch {
			case !registered && (len(mine) > 0 || rep.Status == 303):
				add("persisted-for-unknown-provider", "a request whose issuer is not registered under this tenant was accepted (status %d, %d persist calls)", rep.Status, len(mine))
			case !registered && d.Kind == obs.KindPostForm:
				add("delivered-to-unregistered-url", "the refusal for a provider unknown to this tenant was posted to %q", d.Target)
			case registered && (len(mine) != 1 || rep.Status != 303):
				add("tenant-request-refused", "a valid request of a provider registered under this tenant was not accepted: status %d, %d persist calls: %s", rep.Status, len(mine), short(string(rep.Body), 120))
			case registered && (mine[0].Args[0] != wantACS || mine[0].Args[1] != world.BindPost):
				add("persisted-pair-not-registered", "persisted with (%q, %q); the provider's only consumer service under this tenant is (%q, %q)", mine[0].Args[0], mine[0].Args[1], wantACS, world.BindPost)
			}
			continue
		}
		if c.Kind == "attrquery" {
			switch {
			case resp == nil || !resp.Success() || len(resp.Assertions) != 1:
				add("tenant-query-not-answered", "a valid query of a registered requester for an existing user was not answered with one assertion: status %d %s", rep.Status, short(string(rep.Body), 120))
			case resp.Assertions[0].NameID != "tenant"+own+"-username":
				add("answer-describes-another-user", "the answer names %q, the storage resolves the queried subject to %q for this tenant", resp.Assertions[0].NameID, "tenant"+own+"-username")
			case resp.Issuer != wantIssuer:
				add("issuer", "Issuer %q, the entity ID for the request host is %q", resp.Issuer, wantIssuer)
			case resp.InResponseTo != fmt.Sprintf("_tq-%d", i):
				add("inresponseto", "InResponseTo %q, query ID %q", resp.InResponseTo, fmt.Sprintf("_tq-%d", i))
			}
			continue
		}
		registered := tn == 0 || !c.OnlyA
		switch {
		case resp == nil || resp.Kind != "LogoutResponse":
			add("no-logout-response", "status %d, no LogoutResponse: %s", rep.Status, short(string(rep.Body), 120))
		case !registered && resp.Success():
			add("success-for-invalid-request:issuer-unregistered", "status Success although the issuer is not registered under this tenant")
		case !registered && d.Kind == obs.KindPostForm:
			add("posted-for-unknown-provider", "the response for a provider unknown to this tenant was posted to %q", d.Target)
		case registered && !resp.Success():
			add("tenant-logout-refused", "a valid logout request of a provider registered under this tenant was refused: %s %s", resp.Status, resp.StatusMessage)
		case registered && (d.Kind != obs.KindPostForm || d.Target != "https://tenant-"+own+".sp.example/slo"):
			add("posted-elsewhere", "reply kind %s, target %q; the first logout location registered for the provider under this tenant is %q", d.Kind, d.Target, "https://tenant-"+own+".sp.example/slo")
		case registered && d.RelayState != fmt.Sprintf("rs-task-%d", i):
			add("relaystate", "RelayState %q, submitted %q", d.RelayState, fmt.Sprintf("rs-task-%d", i))
		case resp.Issuer != wantIssuer:
			add("issuer", "Issuer %q, the entity ID for the request host is %q", resp.Issuer, wantIssuer)
		case resp.InResponseTo != fmt.Sprintf("_tl-%d", i):
			add("inresponseto", "InResponseTo %q, request ID %q", resp.InResponseTo, fmt.Sprintf("_tl-%d", i))
		}
	}
	return vs, trace
}

func tenantSchedTest(t *testing.T, prop, rule, kind string) {
	col := ev.For(prop, "exploration", rule)
	old := runtime.GOMAXPROCS(4)
	defer runtime.GOMAXPROCS(old)
	searchRapid(t, col, genTenantSchedCase(kind), func(c TenantSchedCase) []*ev.Violation {
		vs, trace := tenantSchedRun(c)
		col.Case(c.Sequential || len(trace) > len(c.Tenant)+2, ev.Fingerprint("tenants", c.Kind, c.Tenant, c.OnlyA, c.SlowAt, c.Slow, c.Sequential), []string{"tenants", fmt.Sprintf("tenants/sequential=%v", c.Sequential), fmt.Sprintf("tenants/only-first=%v", c.OnlyA)}, func() any {
			return map[string]any{"case": c, "trace": strings.Join(trace, " ")}
		})
		return vs
	})
}

// TestC12Tenants: attribute queries for one login name under two tenants.
func TestC12Tenants(t *testing.T) { tenantSchedTest(t, "C12", c12Rule, "attrquery") }

// TestC13Tenants: logout requests of one entity ID under two tenants (registered under both with different logout locations,
// or under the first only).
func TestC13Tenants(t *testing.T) { tenantSchedTest(t, "C13", c13Rule, "logout") }

// TestC02Tenants: AuthnRequests of one entity ID under two tenants with different consumer services (or registered under the
// first only): what is persisted for a request is the pair registered under its own tenant.
func TestC02Tenants(t *testing.T) { tenantSchedTest(t, "C02", c02Rule, "sso") }

// TestC03Tenants: callbacks for completed requests of one user id under two tenants (the record differs per tenant): every
// Success response is about its own tenant's user, request and consumer service.
func TestC03Tenants(t *testing.T) { tenantSchedTest(t, "C03", c03Rule, "callback") }
