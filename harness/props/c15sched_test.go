package props

// C15 (scheduled part) — the same sessions and oracles as c15_test.go, but the harness owns the schedule: every request parks
// before each storage operation and before each write of its reply, and a generated schedule decides which parked request goes
// on. That makes the interleavings at the I/O boundaries - where state shared between requests shows - a generated, shrinkable
// and replayable part of the case, together with per-session faults, cancellations and a client that stops reading its reply.

import (
	"context"
	"fmt"
	"os"
	"runtime"
	"sort"
	"strings"
	"sync"
	"testing"
	"time"

	"pgregory.net/rapid"

	"github.com/zitadel/saml/pkg/provider"

	"verif/harness/ev"
	"verif/harness/obs"
	"verif/harness/world"
)

type schedKey struct{}

type parkT struct {
	seq     int
	task    int
	where   string
	release chan struct{}
}

type sched struct {
	mu      sync.Mutex
	parked  []*parkT
	seq     int
	done    map[int]bool
	nparks  map[int]int // parks so far per task
	events  chan struct{}
	faults  map[int]map[string]string // task -> storage op -> fault kind (every call of that op by that task)
	cancels map[int]context.CancelFunc
	trace   []string
}

func newSched(n int) *sched {
	return &sched{done: map[int]bool{}, nparks: map[int]int{}, events: make(chan struct{}, 4096), faults: map[int]map[string]string{}, cancels: map[int]context.CancelFunc{}}
}

func (s *sched) signal() {
	select {
	case s.events <- struct{}{}:
	default:
	}
}

// park blocks the calling request until the scheduler releases it.
func (s *sched) park(task int, where string) {
	p := &parkT{task: task, where: where, release: make(chan struct{})}
	s.mu.Lock()
	s.seq++
	p.seq = s.seq
	s.nparks[task]++
	s.parked = append(s.parked, p)
	s.mu.Unlock()
	s.signal()
	<-p.release
}

func (s *sched) finish(task int) {
	s.mu.Lock()
	s.done[task] = true
	s.mu.Unlock()
	s.signal()
}

// storeHook is installed as world.Store.Before.
func (s *sched) storeHook(ctx context.Context, op string) string {
	task, ok := ctx.Value(schedKey{}).(int)
	if !ok {
		return ""
	}
	s.park(task, "storage:"+op)
	if ctx.Err() != nil {
		return "canceled" // a storage layer gives up on a cancelled request
	}
	s.mu.Lock()
	defer s.mu.Unlock()
	return s.faults[task][op]
}

type C15SchedCase struct {
	N         int        `json:"clients"`
	Ops       [][]string `json:"ops"`
	SharedIDs bool       `json:"shared_request_ids,omitempty"`
	SameHost  bool       `json:"same_host,omitempty"` // all sessions use one host name (one issuer) instead of one each
	SameSP    bool       `json:"same_sp,omitempty"`   // all clients are browsers of one service provider and user
	// BaseIssuer: every request's context descends from one application-wide context that already carries an issuer (a
	// server's BaseContext set up with ContextWithIssuer); each request still gets its own from the interceptor
	BaseIssuer bool  `json:"base_context_issuer,omitempty"`
	// Forwarded: see C15Case.Forwarded
	Forwarded bool `json:"forwarded,omitempty"`
	Schedule   []int `json:"schedule"`
	// Faults[i]: storage operation -> fault kind, for every call session i makes
	Faults []map[string]string `json:"faults,omitempty"`
	// CancelOn[i] != "": the i-th session's user agent goes away (request context cancelled) while the provider is about to do
	// that thing for it ("storage:<operation>" or "write"), the first time it gets there
	CancelOn []string `json:"cancel_on,omitempty"`
	// Stalled >= 0: that session's user agent stops reading: its writes are held until every other session has finished
	Stalled int `json:"stalled"`
	// Slow >= 0: the storage is slow for that session at SlowAt ("storage:<operation>"): the session stays parked there while any
	// other session can still move (then it goes on: others may legitimately wait for a storage call that is shared)
	Slow   int    `json:"slow"`
	SlowAt string `json:"slow_at,omitempty"`
}

var c15SchedOps = []string{"cb-done-body", "sso-refused-body", "cb-done-post", "cb-done-post", "cb-done-redirect", "cb-done-redirect", "cb-pending", "sso", "flow-post", "flow-redirect", "logout", "attrquery", "metadata", "certificate"}

var c15SchedFaults = [][2]string{{"GetResponseSigningKey", "error"}, {"GetResponseSigningKey", "mismatch"}, {"GetResponseSigningKey", "nil"}, {"SetUserinfoWithUserID", "error"}, {"SetUserinfoWithUserID", "partial"},
	{"GetEntityByID", "error"}, {"GetEntityIDByAppID", "error"}, {"AuthRequestByID", "error"}, {"CreateAuthRequest", "timeout"}, {"GetMetadataSigningKey", "error"}, {"SetUserinfoWithLoginName", "error"}}

func genC15SchedCase(t *rapid.T) C15SchedCase {
	c := C15SchedCase{N: rapid.SampledFrom([]int{2, 2, 3, 3, 4}).Draw(t, "clients"), SharedIDs: rapid.Bool().Draw(t, "sharedids"), SameHost: rapid.Bool().Draw(t, "samehost"), SameSP: rapid.IntRange(0, 2).Draw(t, "samesp") == 0, Stalled: -1, Slow: -1}
	// sessions tend to do the same kind of thing at the same time: that is when shared state is contended
	common := rapid.SampledFrom(c15SchedOps).Draw(t, "commonop")
	for i := 0; i < c.N; i++ {
		n := rapid.IntRange(1, 3).Draw(t, "nops")
		var ops []string
		for k := 0; k < n; k++ {
			if rapid.Bool().Draw(t, "usecommon") {
				ops = append(ops, common)
			} else {
				ops = append(ops, rapid.SampledFrom(c15SchedOps).Draw(t, "op"))
			}
		}
		c.Ops = append(c.Ops, ops)
		f := map[string]string{}
		if rapid.IntRange(0, 3).Draw(t, "faulty") == 0 {
			p := rapid.SampledFrom(c15SchedFaults).Draw(t, "fault")
			f[p[0]] = p[1]
		}
		c.Faults = append(c.Faults, f)
		ca := ""
		if rapid.IntRange(0, 4).Draw(t, "cancelled") == 0 {
			ca = rapid.SampledFrom([]string{"storage:GetEntityByID", "storage:GetEntityByID", "storage:GetResponseSigningKey", "storage:GetResponseSigningKey", "storage:SetUserinfoWithUserID", "storage:AuthRequestByID", "storage:CreateAuthRequest",
				"storage:GetEntityIDByAppID", "storage:SetUserinfoWithLoginName", "storage:GetMetadataSigningKey", "write"}).Draw(t, "cancelon")
		}
		c.CancelOn = append(c.CancelOn, ca)
	}
	if rapid.IntRange(0, 3).Draw(t, "stall") == 0 {
		c.Stalled = rapid.IntRange(0, c.N-1).Draw(t, "stalled")
	}
	if rapid.Bool().Draw(t, "slowstorage") {
		// the classic trigger of shared-state defects: one session is slow at one point while the others pass it; what happens
		// to that session there (nothing, a failure, its user agent going away) must stay its own business
		c.Slow = rapid.IntRange(0, c.N-1).Draw(t, "slow")
		c.SlowAt = "storage:" + rapid.SampledFrom([]string{"GetEntityByID", "GetResponseSigningKey", "SetUserinfoWithUserID", "AuthRequestByID", "CreateAuthRequest", "GetEntityIDByAppID", "SetUserinfoWithLoginName", "GetMetadataSigningKey"}).Draw(t, "slowat")
		switch rapid.IntRange(0, 2).Draw(t, "slowfate") {
		case 1:
			c.CancelOn[c.Slow] = c.SlowAt
		case 2:
			c.Faults[c.Slow] = map[string]string{strings.TrimPrefix(c.SlowAt, "storage:"): rapid.SampledFrom([]string{"error", "timeout", "nil", "mismatch"}).Draw(t, "slowfault")}
		}
	}
	c.BaseIssuer = rapid.Bool().Draw(t, "baseissuer")
	c.Schedule = rapid.SliceOfN(rapid.IntRange(0, 7), 0, 60).Draw(t, "schedule")
	return c
}

// impaired: the session's own replies are not held to the "must succeed" oracles (a fault was injected into it, it was
// cancelled, or its user agent stalled); isolation, panics and ID uniqueness still apply to it.
func (c C15SchedCase) impaired(i int) bool {
	return len(c.Faults[i]) > 0 || c.CancelOn[i] != ""
}

var c15KeepWhenImpaired = map[string]bool{"C15/panic": true, "C15/foreign-session-data": true, "C15/duplicate-id": true, "C15/id-not-ncname": true, "C15/success-for-pending-request": true, "C15/user-data-for-pending-request": true}

func c15SchedRun(c C15SchedCase) ([]*ev.Violation, *c15Collect, []string) {
	spec := c15Spec(c.N)
	if c.Forwarded {
		spec.IdP.IssuerMode = "forwarded"
	}
	c15Seed(&spec, c.N, c.SharedIDs)
	w := mustBuild(spec)
	cc := &c15Collect{ids: map[string]string{}, byOp: map[string]int{}}
	s := newSched(c.N)
	for i := range c.Faults {
		s.faults[i] = c.Faults[i]
	}
	w.Store.Before = s.storeHook
	defer func() { w.Store.Before = nil }()
	per := make([]*c15Collect, c.N)
	base := context.Background()
	if c.BaseIssuer {
		base = provider.ContextWithIssuer(base, "https://application-wide.example/saml")
	}
	var wg sync.WaitGroup
	for i := 0; i < c.N; i++ {
		i := i
		ctx, cancel := context.WithCancel(context.WithValue(base, schedKey{}, i))
		s.cancels[i] = cancel
		per[i] = &c15Collect{ids: map[string]string{}, byOp: map[string]int{}, sameHost: c.SameHost || c.SameSP, sameSP: c.SameSP, sharedReqIDs: c.SharedIDs, forwarded: c.Forwarded}
		wg.Add(1)
		go func() {
			defer wg.Done()
			defer s.finish(i)
			s.park(i, "start")
			mk := func() obs.Opt {
				return obs.Opt{Ctx: ctx, BeforeWrite: func(sofar int, p []byte) { s.park(i, "write") }}
			}
			c15ClientOpt(w, spec, i, c.Ops[i], 0, per[i], mk)
		}()
	}
	v := s.run(c)
	for _, cancel := range s.cancels {
		cancel()
	}
	if v != nil {
		return []*ev.Violation{v}, cc, s.trace
	}
	wg.Wait()
	var vs []*ev.Violation
	for i, pc := range per {
		cc.requests += pc.requests
		for id, where := range pc.ids {
			if prev, dup := cc.ids[id]; dup {
				vs = append(vs, ev.V("C15/duplicate-id", "ID %q used by %s and by %s", id, prev, where))
			}
			cc.ids[id] = where
		}
		for _, v := range pc.vs {
			if c.impaired(i) && !c15KeepWhenImpaired[v.Key] {
				continue
			}
			vs = append(vs, v)
		}
	}
	return vs, cc, s.trace
}

// run is the scheduling loop: wait until every session that is not finished is parked (or, failing that, until nothing has
// happened for a while: a session may be waiting inside the library for another one), then release the parked request the
// schedule names.
func (s *sched) run(c C15SchedCase) *ev.Violation {
	step := 0
	cancelled := map[int]bool{}
	lastEvent := time.Now()
	for {
		s.mu.Lock()
		alive, parkedTasks := 0, map[int]bool{}
		for i := 0; i < c.N; i++ {
			if !s.done[i] {
				alive++
			}
		}
		for _, p := range s.parked {
			parkedTasks[p.task] = true
		}
		// cancellations fall due when the session is parked at the named point
		for _, p := range s.parked {
			if on := c.CancelOn[p.task]; on != "" && on == p.where && !cancelled[p.task] {
				cancelled[p.task] = true
				s.cancels[p.task]()
				s.trace = append(s.trace, fmt.Sprintf("cancel %d", p.task))
			}
		}
		// candidates: parked requests, except the writes of the stalled session while others are still at work
		var cand []*parkT
		othersAlive := 0
		for i := 0; i < c.N; i++ {
			if !s.done[i] && i != c.Stalled {
				othersAlive++
			}
		}
		for _, p := range s.parked {
			if p.task == c.Stalled && p.where == "write" && othersAlive > 0 {
				continue
			}
			cand = append(cand, p)
		}
		// the slow session is passed over while anybody else can move
		if c.Slow >= 0 {
			var others []*parkT
			for _, p := range cand {
				if !(p.task == c.Slow && p.where == c.SlowAt) {
					others = append(others, p)
				}
			}
			if len(others) > 0 {
				cand = others
			}
		}
		quiescent := len(parkedTasks) == alive
		s.mu.Unlock()
		if alive == 0 {
			return nil
		}
		settled := time.Since(lastEvent) > 60*time.Millisecond
		if len(cand) > 0 && (quiescent || settled) {
			sort.Slice(cand, func(a, b int) bool { return cand[a].seq < cand[b].seq })
			k := 0
			if step < len(c.Schedule) {
				k = c.Schedule[step] % len(cand)
			}
			step++
			p := cand[k]
			s.mu.Lock()
			for j, q := range s.parked {
				if q == p {
					s.parked = append(s.parked[:j], s.parked[j+1:]...)
					break
				}
			}
			s.trace = append(s.trace, fmt.Sprintf("%d:%s", p.task, p.where))
			s.mu.Unlock()
			close(p.release)
			lastEvent = time.Now()
			continue
		}
		// nothing to release: wait for something to happen
		select {
		case <-s.events:
			lastEvent = time.Now()
			continue
		case <-time.After(200 * time.Millisecond):
		}
		if idle := time.Since(lastEvent); idle > 8*time.Second && len(cand) == 0 {
			// sessions are inside the provider, none is parked where the harness could release it (except possibly the stalled
			// session's write), and nothing has moved for 8 s
			g1, parked1, sample := c15Blocked()
			time.Sleep(2 * time.Second)
			g2, parked2, _ := c15Blocked()
			same := len(g1) == len(g2) && len(g1) > 0
			for id, st := range g1 {
				if g2[id] != st {
					same = false
				}
			}
			s.mu.Lock()
			tr := strings.Join(s.trace, " ")
			s.mu.Unlock()
			if parked1 && parked2 && same {
				why := "the sessions wait for each other inside the provider"
				if c.Stalled >= 0 {
					why = fmt.Sprintf("session %d's user agent has stopped reading its reply, and every other session waits inside the provider for it", c.Stalled)
				}
				return ev.V("C15/requests-blocked-forever", "%s: %d requests parked (%s), none answered for 10 s; schedule so far: %s", why, len(g1), sample, short(tr, 300))
			}
			if idle > 60*time.Second {
				fmt.Println("HARNESS-FAILURE property=C15 scheduled run made no progress for 60s and the goroutines are not all parked (inconclusive)")
				os.Exit(2)
			}
		}
	}
}

func TestC15Sched(t *testing.T) {
	col := ev.For("C15", "exploration", c15Rule)
	col.SetExtra("race_detector", raceEnabled)
	old := runtime.GOMAXPROCS(4)
	defer runtime.GOMAXPROCS(old)
	searchRapid(t, col, genC15SchedCase, func(c C15SchedCase) []*ev.Violation {
		reps := 1
		if os.Getenv("VERIF_REPLAY") != "" {
			reps = 5
		}
		var vs []*ev.Violation
		var cc *c15Collect
		var trace []string
		for r := 0; r < reps && len(vs) == 0; r++ {
			vs, cc, trace = c15SchedRun(c)
		}
		shape := map[string]int{}
		for _, ops := range c.Ops {
			for _, o := range ops {
				shape[o]++
			}
		}
		nf, nc := 0, 0
		for i := range c.Faults {
			if len(c.Faults[i]) > 0 {
				nf++
			}
			if c.CancelOn[i] != "" {
				nc++
			}
		}
		// interleaved: the trace switches between sessions before the first of them has finished
		switches := 0
		for k := 1; k < len(trace); k++ {
			if trace[k][0] != trace[k-1][0] {
				switches++
			}
		}
		col.Count("scheduled/requests", cc.requests)
		col.Count("scheduled/releases", len(trace))
		col.Case(switches >= 2, ev.Fingerprint("sched", c.N, shape, nf, nc, c.Stalled >= 0, c.SharedIDs, c.SameHost, c.SameSP, c.SlowAt, switches/4), []string{fmt.Sprintf("scheduled/clients/%d", c.N), fmt.Sprintf("scheduled/faulty-sessions/%d", nf), fmt.Sprintf("scheduled/cancelled-sessions/%d", nc), fmt.Sprintf("scheduled/stalled=%v", c.Stalled >= 0), fmt.Sprintf("scheduled/shared-ids=%v", c.SharedIDs), fmt.Sprintf("scheduled/same-host=%v", c.SameHost), fmt.Sprintf("scheduled/same-sp=%v", c.SameSP), "scheduled/slow-at/" + c.SlowAt}, func() any {
			return map[string]any{"case": c, "trace": strings.Join(trace, " ")}
		})
		return vs
	})
}

// ---- the scheduler in the service of C01 and C07 ----

// genSchedFocused draws a scheduled case whose sessions only use the given operations.
func genSchedFocused(t *rapid.T, ops []string, sharedIDs, sameSP bool) C15SchedCase {
	c := C15SchedCase{N: rapid.SampledFrom([]int{2, 2, 3, 4}).Draw(t, "clients"), SharedIDs: sharedIDs, SameHost: rapid.Bool().Draw(t, "samehost"), SameSP: sameSP, Stalled: -1, Slow: -1}
	for i := 0; i < c.N; i++ {
		var o []string
		for k := 0; k < rapid.IntRange(1, 2).Draw(t, "nops"); k++ {
			o = append(o, rapid.SampledFrom(ops).Draw(t, "op"))
		}
		c.Ops = append(c.Ops, o)
		c.Faults = append(c.Faults, map[string]string{})
		c.CancelOn = append(c.CancelOn, "")
	}
	if rapid.IntRange(0, 3).Draw(t, "slowstorage") != 0 {
		c.Slow = rapid.IntRange(0, c.N-1).Draw(t, "slow")
		c.SlowAt = "storage:" + rapid.SampledFrom([]string{"GetEntityByID", "GetResponseSigningKey", "SetUserinfoWithUserID", "AuthRequestByID", "CreateAuthRequest", "GetEntityIDByAppID", "SetUserinfoWithLoginName"}).Draw(t, "slowat")
		switch rapid.IntRange(0, 2).Draw(t, "slowfate") {
		case 1:
			c.CancelOn[c.Slow] = c.SlowAt
		case 2:
			c.Faults[c.Slow] = map[string]string{strings.TrimPrefix(c.SlowAt, "storage:"): rapid.SampledFrom([]string{"error", "timeout"}).Draw(t, "slowfault")}
		}
	}
	c.BaseIssuer = rapid.Bool().Draw(t, "baseissuer")
	c.Forwarded = rapid.IntRange(0, 2).Draw(t, "forwarded") == 0
	c.Schedule = rapid.SliceOfN(rapid.IntRange(0, 7), 0, 40).Draw(t, "schedule")
	return c
}

// TestC01Sched: callbacks of several sessions overlap in generated ways; service providers happened to choose the same
// AuthnRequest ID. A callback on a request whose login is not completed never yields Success or user data, whoever else is
// being served.
func TestC01Sched(t *testing.T) {
	col := ev.For("C01", "exploration", c01Rule)
	old := runtime.GOMAXPROCS(4)
	defer runtime.GOMAXPROCS(old)
	searchRapid(t, col, func(t *rapid.T) C15SchedCase {
		return genSchedFocused(t, []string{"cb-done-post", "cb-done-redirect", "cb-pending", "cb-pending"}, rapid.IntRange(0, 3).Draw(t, "sharedids") != 0, rapid.Bool().Draw(t, "samesp"))
	}, func(c C15SchedCase) []*ev.Violation {
		vs, _, trace := c15SchedRun(c)
		var out []*ev.Violation
		pending := false
		for _, ops := range c.Ops {
			for _, o := range ops {
				pending = pending || o == "cb-pending"
			}
		}
		for _, v := range vs {
			switch v.Key {
			case "C15/success-for-pending-request":
				out = append(out, ev.V("C01/success-without-completed-login", "overlapping callbacks (schedule %s): %s", short(strings.Join(trace, " "), 200), v.What))
			case "C15/user-data-for-pending-request":
				out = append(out, ev.V("C01/user-data-in-failure-reply", "overlapping callbacks (schedule %s): %s", short(strings.Join(trace, " "), 200), v.What))
			case "C15/panic":
				out = append(out, ev.V("C01/panic", "%s", v.What))
			}
		}
		col.Case(pending && len(trace) > c.N+2, ev.Fingerprint("sched", c.N, c.Ops, c.SharedIDs, c.SlowAt), []string{"scheduled-callbacks", fmt.Sprintf("scheduled/shared-ids=%v", c.SharedIDs)}, func() any {
			return map[string]any{"case": c, "trace": strings.Join(trace, " ")}
		})
		return out
	})
}

// TestC07Sched: conformant requests of a service provider's users are accepted even while other requests of the same
// provider are slow, fail or are abandoned by their user agents.
func TestC07Sched(t *testing.T) {
	col := ev.For("C07", "exploration", c07Rule)
	old := runtime.GOMAXPROCS(4)
	defer runtime.GOMAXPROCS(old)
	searchRapid(t, col, func(t *rapid.T) C15SchedCase {
		return genSchedFocused(t, []string{"sso", "sso", "logout", "attrquery"}, false, rapid.IntRange(0, 3).Draw(t, "samesp") != 0)
	}, func(c C15SchedCase) []*ev.Violation {
		vs, _, trace := c15SchedRun(c)
		var out []*ev.Violation
		for _, v := range vs {
			switch v.Key {
			case "C15/sso-not-accepted":
				out = append(out, ev.V("C07/rejected:authn", "while another request of the provider was slow / failing / abandoned (schedule %s): %s", short(strings.Join(trace, " "), 200), v.What))
			case "C15/logout-reply", "C15/logout-response-mixed-up":
				out = append(out, ev.V("C07/rejected:logout", "while another request of the provider was slow / failing / abandoned (schedule %s): %s", short(strings.Join(trace, " "), 200), v.What))
			case "C15/attrquery-reply":
				out = append(out, ev.V("C07/rejected:attrquery", "while another request of the provider was slow / failing / abandoned (schedule %s): %s", short(strings.Join(trace, " "), 200), v.What))
			case "C15/panic":
				out = append(out, ev.V("C07/panic", "%s", v.What))
			}
		}
		col.Case(len(trace) > c.N+2, ev.Fingerprint("sched", c.N, c.Ops, c.SameSP, c.SlowAt, c.CancelOn), []string{"scheduled-requests", fmt.Sprintf("scheduled/same-sp=%v", c.SameSP)}, func() any {
			return map[string]any{"case": c, "trace": strings.Join(trace, " ")}
		})
		return out
	})
}

// schedUnder runs focused scheduled cases under another property's name: keep maps C15 violation keys to that property's.
func schedUnder(t *testing.T, prop, rule string, ops []string, keep map[string]string, sameSP bool) {
	col := ev.For(prop, "exploration", rule)
	old := runtime.GOMAXPROCS(4)
	defer runtime.GOMAXPROCS(old)
	searchRapid(t, col, func(t *rapid.T) C15SchedCase {
		c := genSchedFocused(t, ops, false, sameSP && rapid.Bool().Draw(t, "samesp"))
		if !sameSP {
			c.SameHost = false // one host per session: a mix-up shows as a foreign issuer
		}
		// writes are where a page or document that is still being sent can be overtaken by another one: stall one session
		if rapid.Bool().Draw(t, "stall") {
			c.Stalled = rapid.IntRange(0, c.N-1).Draw(t, "stalled")
		}
		return c
	}, func(c C15SchedCase) []*ev.Violation {
		vs, _, trace := c15SchedRun(c)
		var out []*ev.Violation
		for _, v := range vs {
			if to, ok := keep[v.Key]; ok {
				out = append(out, ev.V(to, "sessions overlapping under a generated schedule (%s): %s", short(strings.Join(trace, " "), 160), v.What))
			}
		}
		col.Case(len(trace) > c.N+2, ev.Fingerprint("sched", c.N, c.Ops, c.Stalled >= 0, c.SlowAt), []string{"scheduled-sessions", fmt.Sprintf("scheduled/stalled=%v", c.Stalled >= 0)}, func() any {
			return map[string]any{"case": c, "trace": strings.Join(trace, " ")}
		})
		return out
	})
}

// TestC17Sched: the page a user agent receives holds its own session's values even when another session's page is rendered
// while the first is still being written.
func TestC17Sched(t *testing.T) {
	schedUnder(t, "C17", c17Rule, []string{"cb-done-post", "cb-done-post", "flow-post", "logout"}, map[string]string{
		"C15/foreign-session-data": "C17/page-carries-another-sessions-values", "C15/callback-relaystate": "C17/page-carries-another-sessions-values",
		"C15/callback-destination": "C17/page-carries-another-sessions-values", "C15/logout-response-mixed-up": "C17/page-carries-another-sessions-values",
		"C15/callback-reply-not-well-formed": "C17/page-structure-altered", "C15/callback-wrong-delivery": "C17/page-structure-altered", "C15/panic": "C17/panic"}, true)
}

// TestC11Sched: under host-derived issuers every reply carries the entity ID the metadata shows for its own host, whatever
// other hosts are being served at the same moment.
func TestC11Sched(t *testing.T) {
	schedUnder(t, "C11", c11Rule, []string{"metadata", "cb-done-post", "cb-done-redirect", "cb-done-body", "cb-done-body", "sso-refused-body", "attrquery", "logout"}, map[string]string{
		"C15/body-reply-mixed-up": "C11/issuer-differs-from-entityid:concurrent", "C15/body-reply": "C11/reply-not-well-formed:concurrent",
		"C15/foreign-session-data": "C11/issuer-differs-from-entityid:concurrent", "C15/metadata-issuer-mixed-up": "C11/issuer-differs-from-entityid:concurrent",
		"C15/callback-response-issuer": "C11/issuer-differs-from-entityid:concurrent", "C15/callback-assertion-issuer": "C11/issuer-differs-from-entityid:concurrent",
		"C15/attrquery-response-mixed-up": "C11/issuer-differs-from-entityid:concurrent", "C15/logout-response-mixed-up": "C11/issuer-differs-from-entityid:concurrent",
		"C15/metadata-reply": "C11/metadata-not-well-formed", "C15/panic": "C11/panic"}, false)
}

// TestC04Sched: what is signed and sent while other sessions are being served - also to user agents that read slowly, whose
// replies are still being written when the next message is built - verifies like anything else.
func TestC04Sched(t *testing.T) {
	schedUnder(t, "C04", c04Rule, []string{"cb-done-body", "cb-done-body", "cb-done-post", "cb-done-redirect", "attrquery", "attrquery", "metadata"}, map[string]string{
		"C15/assertion-signature-does-not-verify": "C04/signature-does-not-verify:concurrent",
		"C15/body-reply":                          "C04/artefact-not-well-formed:concurrent", "C15/body-reply-mixed-up": "C04/artefact-not-well-formed:concurrent",
		"C15/callback-reply-not-well-formed": "C04/artefact-not-well-formed:concurrent", "C15/attrquery-reply": "C04/artefact-not-well-formed:concurrent",
		"C15/metadata-reply": "C04/artefact-not-well-formed:concurrent", "C15/panic": "C04/panic"}, true)
}

// TestC10Sched: a key or storage failure that strikes one request while others are inside the same operation (a slow lookup
// that then fails, a lookup abandoned by its user agent) stays a failure for everybody it concerns: nobody panics, nobody is
// handed an empty certificate or an unsigned or malformed reply.
func TestC10Sched(t *testing.T) {
	schedUnder(t, "C10", c10Rule, []string{"cb-done-post", "cb-done-redirect", "cb-done-body", "certificate", "certificate", "metadata", "attrquery", "sso"}, map[string]string{
		"C15/panic": "C10/panic:concurrent", "C15/certificate-reply": "C10/not-an-error-reply:certificate:concurrent", "C15/metadata-reply": "C10/not-an-error-reply:metadata:concurrent",
		"C15/body-reply": "C10/not-an-error-reply:callback:concurrent", "C15/assertion-signature-does-not-verify": "C10/unsigned-or-wrongly-signed:concurrent",
		"C15/success-for-pending-request": "C10/success-after-fault:concurrent"}, true)
}

// TestC02Sched: SSO requests of several providers overlap in generated ways - among them requests that carry the same message
// ID - while one of them sits in a slow storage call. What is persisted for a request, and where its answer later goes, is the
// registered endpoint of the provider that sent it.
func TestC02Sched(t *testing.T) {
	col := ev.For("C02", "exploration", c02Rule)
	old := runtime.GOMAXPROCS(4)
	defer runtime.GOMAXPROCS(old)
	searchRapid(t, col, func(t *rapid.T) C15SchedCase {
		c := genSchedFocused(t, []string{"sso", "sso", "flow-post", "flow-redirect"}, rapid.IntRange(0, 3).Draw(t, "sharedids") != 0, false)
		c.SameHost = false
		if c.Slow >= 0 && rapid.Bool().Draw(t, "slow-at-persist") {
			c.SlowAt, c.CancelOn[c.Slow], c.Faults[c.Slow] = "storage:CreateAuthRequest", "", map[string]string{}
		}
		return c
	}, func(c C15SchedCase) []*ev.Violation {
		vs, _, trace := c15SchedRun(c)
		var out []*ev.Violation
		for _, v := range vs {
			switch v.Key {
			case "C15/stored-request-mixed-up", "C15/consumer-endpoint-depends-on-history", "C15/login-redirect-unknown-id":
				out = append(out, ev.V("C02/persisted-pair-not-registered", "overlapping requests (schedule %s): %s", short(strings.Join(trace, " "), 200), v.What))
			case "C15/callback-destination", "C15/callback-wrong-delivery", "C15/foreign-session-data":
				out = append(out, ev.V("C02/delivered-to-unregistered-url", "overlapping requests (schedule %s): %s", short(strings.Join(trace, " "), 200), v.What))
			case "C15/panic":
				out = append(out, ev.V("C02/panic", "%s", v.What))
			}
		}
		col.Case(len(trace) > c.N+2, ev.Fingerprint("sched", c.N, c.Ops, c.SharedIDs, c.SlowAt), []string{"scheduled-requests", fmt.Sprintf("scheduled/shared-ids=%v", c.SharedIDs)}, func() any {
			return map[string]any{"case": c, "trace": strings.Join(trace, " ")}
		})
		return out
	})
}

// schedTasks runs n requests (or sequences of requests) of one provider under the harness-owned scheduler: every task parks at
// its start, before every storage operation and before every body write; schedule picks who moves; slow >= 0 passes that task
// over at slowAt while anybody else can move. work(i, opt) does task i's requests with the options opt() returns.
func schedTasks(w *world.World, n int, schedule []int, slow int, slowAt string, work func(i int, opt func() obs.Opt)) (*ev.Violation, []string) {
	s := newSched(n)
	w.Store.Before = s.storeHook
	defer func() { w.Store.Before = nil }()
	var wg sync.WaitGroup
	for i := 0; i < n; i++ {
		i := i
		ctx, cancel := context.WithCancel(context.WithValue(context.Background(), schedKey{}, i))
		s.cancels[i] = cancel
		wg.Add(1)
		go func() {
			defer wg.Done()
			defer s.finish(i)
			s.park(i, "start")
			work(i, func() obs.Opt {
				return obs.Opt{Ctx: ctx, BeforeWrite: func(sofar int, p []byte) { s.park(i, "write") }}
			})
		}()
	}
	v := s.run(C15SchedCase{N: n, Schedule: schedule, Stalled: -1, Slow: slow, SlowAt: slowAt, CancelOn: make([]string, n), Faults: make([]map[string]string, n)})
	for _, cancel := range s.cancels {
		cancel()
	}
	if v == nil {
		wg.Wait()
	}
	return v, s.trace
}
