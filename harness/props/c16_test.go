package props

// C16 — Consumer endpoint selection is a deterministic, documented function of metadata.
//
// Exhaustive enumeration of the stated finite domain against a reference function written
// from the statement.

import (
	"fmt"
	"runtime"
	"strconv"
	"sync"
	"testing"

	"github.com/zitadel/saml/pkg/provider"
	"github.com/zitadel/saml/pkg/provider/xml/md"
	"pgregory.net/rapid"

	"verif/harness/ev"
	"verif/harness/obs"
	"verif/harness/spsim"
	"verif/harness/world"
	"verif/harness/xt"
)

var (
	c16Bindings  = []string{provider.PostBinding, provider.RedirectBinding, "urn:oasis:names:tc:SAML:2.0:bindings:HTTP-Artifact", c16OtherBinding}
	c16Indexes   = []string{"0", "1", "2", "7", "65535"}
	c16Defaults  = []string{"", "true", "false", "1", "0"}
	c16Requested = []string{"", provider.PostBinding, provider.RedirectBinding, "urn:oasis:names:tc:SAML:2.0:bindings:HTTP-Artifact", c16OtherBinding, "urn:example:unlisted"}
)

type C16Entry struct {
	Binding   string `json:"binding"`
	Index     string `json:"index"`
	IsDefault string `json:"is_default"`
	Location  string `json:"location"`
	// ResponseLocation: the optional attribute of the metadata schema's endpoint type; the selection returns the Location
	ResponseLocation string `json:"response_location,omitempty"`
}

type C16Case struct {
	ACS       []C16Entry `json:"acs"`
	Requested string     `json:"requested_binding"`
	// Before, when set, is an earlier registration of the same service provider: end to end, a request is first sent under it,
	// then the provider is re-registered with ACS and the request under test follows. Only the current registration counts.
	Before []C16Entry `json:"earlier_registration,omitempty"`
	// ReqIndex: end to end, the request also carries AssertionConsumerServiceIndex (the documented selection is a function of
	// the metadata and the requested binding alone)
	ReqIndex string `json:"request_acs_index,omitempty"`
}

func xsTrue(s string) bool { return s == "true" || s == "1" }

// c16Reference returns the set of acceptable entry positions (empty: nothing may be chosen).
func c16Reference(acs []C16Entry, requested string) []int {
	if len(acs) == 0 {
		return nil
	}
	for i, e := range acs {
		if e.Binding == requested {
			return []int{i}
		}
	}
	for i, e := range acs {
		if xsTrue(e.IsDefault) {
			return []int{i}
		}
	}
	min := -1
	var at []int
	for i, e := range acs {
		n, _ := strconv.Atoi(e.Index)
		switch {
		case min == -1 || n < min:
			min, at = n, []int{i}
		case n == min:
			at = append(at, i)
		}
	}
	return at
}

func c16Check(c C16Case) *ev.Violation {
	in := make([]md.IndexedEndpointType, len(c.ACS))
	for i, e := range c.ACS {
		in[i] = md.IndexedEndpointType{Index: e.Index, IsDefault: e.IsDefault, Binding: e.Binding, Location: e.Location, ResponseLocation: e.ResponseLocation}
	}
	url, binding := provider.GetAcsUrlAndBindingForResponse(in, c.Requested)
	// a call for a binding nobody registered (the lowest-index fallback) in between must not change anything:
	// the registered list is the service provider's metadata, shared by all later requests
	provider.GetAcsUrlAndBindingForResponse(in, "urn:example:unlisted-interleaved")
	url2, binding2 := provider.GetAcsUrlAndBindingForResponse(in, c.Requested)
	if url != url2 || binding != binding2 {
		return ev.V("C16/nondeterministic", "the same call returned (%q,%q) and, after an interleaved call for another binding, (%q,%q)", url, binding, url2, binding2)
	}
	for i, e := range c.ACS {
		if in[i].Location != e.Location || in[i].Binding != e.Binding || in[i].Index != e.Index {
			return ev.V("C16/registered-list-modified", "the selection reordered or edited the registered list: position %d is now %q", i, in[i].Location)
		}
	}
	want := c16Reference(c.ACS, c.Requested)
	if len(want) == 0 {
		if url != "" || binding != "" {
			return ev.V("C16/nothing-registered", "no entry registered but got (%q,%q)", url, binding)
		}
		return nil
	}
	pos := -1
	for i, e := range c.ACS {
		if e.Location == url {
			pos = i
		}
	}
	if pos == -1 {
		return ev.V("C16/not-a-registered-entry", "returned URL %q is not a registered entry", url)
	}
	if c.ACS[pos].Binding != binding {
		return ev.V("C16/url-binding-from-different-entries", "URL of entry %d with binding %q (entry has %q)", pos, binding, c.ACS[pos].Binding)
	}
	for _, w := range want {
		if w == pos {
			return nil
		}
	}
	// root-cause keys: which rule of the statement was missed
	key := "C16/wrong-entry"
	hasReq := false
	hasDef := false
	for _, e := range c.ACS {
		if e.Binding == c.Requested {
			hasReq = true
		}
		if xsTrue(e.IsDefault) {
			hasDef = true
		}
	}
	switch {
	case hasReq:
		key = "C16/requested-binding-not-first-match"
	case hasDef:
		key = "C16/isdefault-not-honoured"
	default:
		key = "C16/lowest-index-not-chosen"
	}
	return ev.V(key, "chose entry %d, the statement allows %v", pos, want)
}

func c16Nontrivial(c C16Case) bool {
	for _, e := range c.ACS {
		if e.Binding == c.Requested {
			return false
		}
	}
	if len(c.ACS) >= 3 {
		return true
	}
	seen := map[string]bool{}
	for _, e := range c.ACS {
		if e.Index == "0" || e.IsDefault == "1" || e.IsDefault == "0" || seen[e.Index] {
			return true
		}
		seen[e.Index] = true
	}
	return false
}

const c16Rule = "every ACS list of length 0..L (L=3 quick, 4 thorough) over binding {POST, Redirect, Artifact, other} x index {0,1,2,7,65535} x isDefault {absent,true,false,1,0}, distinct Location per position, x requested binding {absent, each of the four, unlisted}, enumerated exhaustively against a reference selection function; plus a rapid end-to-end sample through SP metadata XML and the SSO endpoint. Non-trivial: requested binding not listed and (index 0 present or duplicate indexes or isDefault given as 1/0 or length >= 3). Every enumerated case is distinct by construction."

func TestC16Enum(t *testing.T) {
	col := ev.For("C16", "exploration", c16Rule)
	maxLen := ev.EnvInt("VERIF_C16_MAXLEN", 3)
	runPlain(t, col, "TestC16", func(fail func(*ev.Violation, any)) {
		per := len(c16Bindings) * len(c16Indexes) * len(c16Defaults) // 100 entry shapes
		entry := func(code, pos int) C16Entry {
			b := code % len(c16Bindings)
			code /= len(c16Bindings)
			i := code % len(c16Indexes)
			code /= len(c16Indexes)
			return C16Entry{Binding: c16Bindings[b], Index: c16Indexes[i], IsDefault: c16Defaults[code], Location: "https://sp.example/acs/" + strconv.Itoa(pos)}
		}
		type job struct{ length, first int }
		jobs := make(chan job, 512)
		var wg sync.WaitGroup
		var mu sync.Mutex
		failedKeys := map[string]bool{}
		for w := 0; w < runtime.NumCPU(); w++ {
			wg.Add(1)
			go func() {
				defer wg.Done()
				for j := range jobs {
					evals, distinct := 0, 0
					idx := make([]int, j.length)
					if j.length > 0 {
						idx[0] = j.first
					}
					c := C16Case{ACS: make([]C16Entry, j.length)}
					for {
						for k := range idx {
							c.ACS[k] = entry(idx[k], k)
						}
						for _, req := range c16Requested {
							c.Requested = req
							evals++
							if c16Nontrivial(c) {
								distinct++
							}
							if v := c16Check(c); v != nil {
								mu.Lock()
								first := !failedKeys[v.Key]
								failedKeys[v.Key] = true
								mu.Unlock()
								if first {
									cp := C16Case{ACS: append([]C16Entry(nil), c.ACS...), Requested: req}
									fail(v, cp)
								}
							}
						}
						k := j.length - 1
						for ; k >= 1; k-- {
							idx[k]++
							if idx[k] < per {
								break
							}
							idx[k] = 0
						}
						if k < 1 {
							break
						}
					}
					col.AddDistinct(evals, distinct)
				}
			}()
		}
		jobs <- job{0, 0}
		for l := 1; l <= maxLen; l++ {
			for f := 0; f < per; f++ {
				jobs <- job{l, f}
			}
		}
		close(jobs)
		wg.Wait()
		col.SetExhaustive(true)
		col.SetExtra("enumerated_max_list_length", maxLen)
		col.Sample(map[string]any{"enumerated": fmt.Sprintf("all lists up to length %d", maxLen), "bindings": c16Bindings, "indexes": c16Indexes, "isDefault": c16Defaults, "requested": c16Requested})
	})
}

// c16OtherBinding is the "other" binding of the enumeration: a URI that differs from HTTP-POST only by letter case. URIs are
// compared exactly, so for the statement it is simply a binding that is neither POST nor Redirect nor Artifact.
// c16IndexesWide: the enumerated indexes plus other lexical forms of xs:unsignedShort (leading zeros, several digits): the value
// is what counts
var c16IndexesWide = []string{"0", "1", "2", "7", "65535", "010", "08", "09", "0100", "007", "9", "10", "99", "100", "00"}

const c16OtherBinding = "urn:oasis:names:tc:SAML:2.0:bindings:HTTP-Post"

func genC16Case(t *rapid.T) C16Case {
	n := rapid.IntRange(0, 6).Draw(t, "n")
	c := C16Case{Requested: rapid.SampledFrom(c16Requested).Draw(t, "requested")}
	for i := 0; i < n; i++ {
		c.ACS = append(c.ACS, C16Entry{
			Binding:   rapid.SampledFrom(c16Bindings).Draw(t, "binding"),
			Index:     rapid.SampledFrom(c16IndexesWide).Draw(t, "index"),
			IsDefault: rapid.SampledFrom(c16Defaults).Draw(t, "isDefault"),
			Location:  "https://sp.example/acs/" + strconv.Itoa(i),
		})
		if rapid.IntRange(0, 3).Draw(t, "responselocation") == 0 {
			c.ACS[i].ResponseLocation = "https://sp.example/acs-response/" + strconv.Itoa(i)
		}
	}
	if rapid.IntRange(0, 2).Draw(t, "reqindex") == 0 {
		c.ReqIndex = rapid.SampledFrom([]string{"0", "1", "2", "7", "65535", "3"}).Draw(t, "reqindexv")
	}
	if rapid.IntRange(0, 2).Draw(t, "reregistered") == 0 {
		for i := 0; i < rapid.IntRange(1, 3).Draw(t, "nbefore"); i++ {
			c.Before = append(c.Before, C16Entry{
				Binding:   rapid.SampledFrom(c16Bindings[:2]).Draw(t, "bbinding"),
				Index:     rapid.SampledFrom(c16Indexes).Draw(t, "bindex"),
				IsDefault: rapid.SampledFrom(c16Defaults).Draw(t, "bisDefault"),
				Location:  "https://sp.example/acs/earlier/" + strconv.Itoa(i),
			})
		}
	}
	return c
}

// c16EndToEnd sends a valid AuthnRequest from an SP registered with this ACS list (index and isDefault travel
// as XML attributes of the metadata) and compares the pair handed to storage with the reference selection.
func c16EndToEnd(c C16Case) *ev.Violation {
	sp := stdSP(0)
	withACS := func(list []C16Entry) world.SPSpec {
		out := sp
		out.ACS = nil
		for _, e := range list {
			d := e.IsDefault
			if d == "" {
				d = A
			}
			out.ACS = append(out.ACS, world.ACSSpec{Binding: e.Binding, Location: e.Location, Index: e.Index, IsDefault: d, ResponseLocation: e.ResponseLocation})
		}
		return out
	}
	current := withACS(c.ACS)
	first := current
	if len(c.Before) > 0 {
		first = withACS(c.Before)
	}
	spec := world.Spec{IdP: world.DefaultIdP(), SPs: []world.SPSpec{first}, Users: []world.UserSpec{stdUser(0)}}
	w := mustBuild(spec)
	send := func(id string) obs.Reply {
		a := spsim.NewAuthnReq(id, sp.EntityID)
		if c.Requested != "" {
			a.ProtocolBinding = c.Requested
		}
		if c.ReqIndex != "" {
			a.ACSIndex = c.ReqIndex
		}
		hr, _, err := spsim.Encode(spec.IdP.Route("sso"), xt.Write(a.Tree(plainStyle), plainStyle.W), spsim.Transport{Binding: "post", Plus: true, Encoding: A, RelayState: "rs"}, nil)
		if err != nil {
			panic("harness: " + err.Error())
		}
		return obs.Do(w.Handler, hr)
	}
	if len(c.Before) > 0 {
		if rep := send("_c16-earlier"); rep.Panic != "" {
			return ev.V("C16/panic", "handler panicked: %s", short(rep.Panic, 100))
		}
		if err := w.Store.ReplaceSP(current); err != nil {
			panic("harness: " + err.Error())
		}
		w.Store.ResetLog()
	}
	rep := send("_c16")
	if rep.Panic != "" {
		return ev.V("C16/panic", "handler panicked: %s", short(rep.Panic, 100))
	}
	want := c16Reference(c.ACS, c.Requested)
	okCalls, _ := createCalls(w)
	answerable := len(want) > 0 && (c.ACS[want[0]].Binding == provider.PostBinding || c.ACS[want[0]].Binding == provider.RedirectBinding)
	if !answerable {
		if len(okCalls) > 0 {
			return ev.V("C16/end-to-end-persisted-unselectable", "the reference selects %v (not answerable) but the request was persisted with (%q, %q)", want, okCalls[0].Args[0], okCalls[0].Args[1])
		}
		return nil
	}
	if len(okCalls) != 1 {
		return ev.V("C16/end-to-end-not-accepted", "valid request, reference selects entry %v, but %d requests were persisted (status %d)", want, len(okCalls), rep.Status)
	}
	for _, i := range want {
		if c.ACS[i].Location == okCalls[0].Args[0] && c.ACS[i].Binding == okCalls[0].Args[1] {
			return nil
		}
	}
	return ev.V("C16/end-to-end-wrong-entry", "persisted (%q, %q); the statement allows entries %v of %v", okCalls[0].Args[0], okCalls[0].Args[1], want, c.ACS)
}

// TestC16 is the generated (and replay) entry point: lists up to length 6, beyond the enumerated bound,
// through the exported function and end to end through SP metadata XML and the SSO endpoint.
func TestC16(t *testing.T) {
	col := ev.For("C16", "exploration", c16Rule)
	searchRapid(t, col, genC16Case, func(c C16Case) []*ev.Violation {
		nt := c16Nontrivial(c)
		cls := "rapid/len" + strconv.Itoa(len(c.ACS))
		col.Case(nt, ev.Fingerprint(c), []string{cls, "end-to-end"}, func() any { return c })
		return []*ev.Violation{c16Check(c), c16EndToEnd(c)}
	})
}
