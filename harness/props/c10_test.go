package props

// C10 — Storage and key failures fail closed.
//
// Fault enumeration: for each representative request a dry run records which storage
// operations are invoked (and how often); every (operation, occurrence, fault kind) is then
// injected singly (exhaustive) and in pairs.

import (
	"fmt"
	"sort"
	"strings"
	"testing"
	"time"

	"pgregory.net/rapid"

	"verif/harness/ev"
	"verif/harness/obs"
	"verif/harness/spsim"
	"verif/harness/world"
	"verif/harness/xt"
)

const c10Rule = "fault enumeration: 16 scenarios (SSO POST/Redirect signed/unsigned, callback for a done request in POST / Redirect / body delivery, callback for a pending request, logout, attribute query, metadata signed / unsigned, certificate, readiness, health) x request variants; a dry run lists the storage operations each scenario invokes; every (operation, occurrence) x fault kind {error; for the two signing-key getters also nil record, key without certificate, certificate without key, empty certificate; for lookups also an error accompanied by a value; for the user-info setters also an error after part of the record was delivered} plus the configuration faults {bogus signature algorithm, rsa-sha512 where the XML signer cannot use it} is injected singly (exhaustive) and in pairs (all pairs in the thorough tier, a seed-dependent sample in quick), plus rapid-generated fault sets of size 1..3 on generated variants. Oracle, asserted only when the fault fired: no panic; reply is HTTP 5xx or a SAML (Logout)Response with non-Success status; no Success assertion, user marker, AttributeValue or SignatureValue in any decoded layer; no successful CreateAuthRequest after the first injected fault. Non-trivial: the injected fault fired. Distinct by (scenario, fault set)."

type C10Case struct {
	Scenario string        `json:"scenario"`
	Variant  int           `json:"variant"`
	Faults   []world.Fault `json:"faults"`
	AlgFault string        `json:"alg_fault,omitempty"` // "" | bogus | sha512
	// Warm: before the faults are switched on, the same provider serves the same kind of request (and the metadata, certificate
	// and attribute endpoints) once without any fault. What it may have kept from then must not paper over the failure.
	Warm bool `json:"warm,omitempty"`
	// Blackout: the backing store is down: every storage operation the request makes fails
	Blackout bool `json:"blackout,omitempty"`
	// Repeat: the fault persists and the same request comes again (a probe polling, a user agent retrying): the second
	// reply is the one judged, the first must have ended without a panic
	Repeat bool `json:"repeat,omitempty"`
}

var c10Scenarios = []string{
	"sso-post", "sso-redirect", "sso-post-signed", "sso-redirect-signed",
	"callback-post-done", "callback-redirect-done", "callback-body-done", "callback-pending",
	"logout", "logout-noslo", "attrquery", "metadata-signed", "metadata-unsigned", "certificate", "ready", "healthz",
}

var c10Signing = map[string]bool{"callback-post-done": true, "callback-redirect-done": true, "callback-body-done": true, "attrquery": true, "metadata-signed": true}

// c10ContentKinds: defects of what a key record holds (an unfilled key, a certificate of another key, bytes that are no
// certificate) as opposed to failures of the retrieval: only a use of the key can notice them
var c10ContentKinds = map[string]bool{"zerokey": true, "mismatch": true, "garbagecert": true}

var c10KeyKinds = []string{"error", "timeout", "canceled", "uncomparable", "nil", "nokey", "zerokey", "nocert", "emptycert", "mismatch", "garbagecert", "errval"}

// c10KindsOf lists the fault kinds of an operation: a returned error; for lookups also an error accompanied by a usable value
// (callers must go by the error); for the user-info setters also an error after part of the record was delivered.
func c10KindsOf(op string) []string {
	switch op {
	case "GetResponseSigningKey", "GetMetadataSigningKey":
		return c10KeyKinds
	case "AuthRequestByID":
		return []string{"error", "timeout", "canceled", "uncomparable", "notfound", "errval", "typednil"}
	case "GetEntityByID", "GetEntityIDByAppID":
		return []string{"error", "timeout", "canceled", "uncomparable", "notfound", "errval"}
	case "SetUserinfoWithUserID", "SetUserinfoWithLoginName":
		return []string{"error", "timeout", "canceled", "uncomparable", "partial"}
	}
	// the shape of the error (a timeout that says so through Timeout(), a cancellation, a plain sentinel) must not matter
	return []string{"error", "timeout", "canceled", "uncomparable"}
}

// c10Build returns the world spec and the request of a scenario variant.
func c10Build(scenario string, variant int, now time.Time) (world.Spec, obs.HTTPReq) {
	spec := stdSpec()
	spec.SPs[1].AuthnRequestsSigned = "true"
	noslo := stdSP(3)
	noslo.SLO = nil
	spec.SPs = append(spec.SPs, noslo)
	styles := []spsim.XMLStyle{plainStyle, {Prefixes: "default", W: xt.Style{}}, {Prefixes: "odd", Indent: true, W: xt.Style{Decl: "bare", SingleQuote: true}}}
	st := styles[variant%len(styles)]
	relay := []string{"rs-1", A, "a&b <c>"}[(variant/3)%3]
	hosts := []string{"idp.example", "idp.example:8443"}
	host := hosts[(variant/9)%2]
	spec.IdP.IDPInsecure = variant%2 == 1
	if (variant/18)%2 == 1 {
		spec.IdP.IssuerMode, spec.IdP.IssuerPath = "host", "/saml"
	}
	spec.Requests = []world.RequestSpec{
		{ID: "done-post", AppID: "app-0", RelayState: "rs-x", ACS: "https://sp0.example/acs/post", Binding: world.BindPost, AuthRequestID: "_a1", UserID: "uid-0", Done: true},
		{ID: "done-redirect", AppID: "app-0", RelayState: "rs-y", ACS: "https://sp0.example/acs/redirect", Binding: world.BindRedirect, AuthRequestID: "_a2", UserID: "uid-1", Done: true},
		{ID: "done-body", AppID: "app-0", RelayState: "rs-z", ACS: "", Binding: world.BindPost, AuthRequestID: "_a3", UserID: "uid-0", Done: true},
		{ID: "pending", AppID: "app-0", RelayState: "rs-p", ACS: "https://sp0.example/acs/post", Binding: world.BindPost, AuthRequestID: "_a4", UserID: "uid-0"},
	}
	cfg := spec.IdP
	wr := func(n *xt.Node) []byte { return xt.Write(n, st.W) }
	var hr obs.HTTPReq
	authn := func(sp int, binding string, signed bool) obs.HTTPReq {
		a := spsim.NewAuthnReq(fmt.Sprintf("_c10-%d", variant), spec.SPs[sp].EntityID)
		a.IssueInstant = spsim.Instant(now, 0)
		tree := a.Tree(st)
		var rs *spsim.Signing
		if signed {
			if binding == "post" {
				if err := spsim.SignTree(tree, spsim.Signing{Alg: world.AlgRSASHA256, KeyName: spec.SPs[sp].KeyNames[0], KeyInfo: true, CertLayout: "plain", DSPrefix: "ds"}); err != nil {
					panic(err)
				}
			} else {
				rs = &spsim.Signing{Alg: world.AlgRSASHA256, KeyName: spec.SPs[sp].KeyNames[0]}
			}
		}
		r, _, err := spsim.Encode(cfg.Route("sso"), wr(tree), spsim.Transport{Binding: binding, Plus: true, Encoding: A, RelayState: relay}, rs)
		if err != nil {
			panic(err)
		}
		return r
	}
	switch scenario {
	case "sso-post":
		hr = authn(0, "post", false)
	case "sso-redirect":
		hr = authn(0, "redirect", false)
	case "sso-post-signed":
		hr = authn(1, "post", true)
	case "sso-redirect-signed":
		hr = authn(1, "redirect", true)
	case "callback-post-done":
		hr = callbackReq(cfg, "done-post")
	case "callback-redirect-done":
		hr = callbackReq(cfg, "done-redirect")
	case "callback-body-done":
		hr = callbackReq(cfg, "done-body")
	case "callback-pending":
		hr = callbackReq(cfg, "pending")
	case "logout", "logout-noslo":
		sp := 0
		if scenario == "logout-noslo" {
			sp = 3
		}
		l := spsim.NewLogoutReq("_c10-logout", spec.SPs[sp].EntityID, "usermark0")
		l.IssueInstant = spsim.Instant(now.Add(-10*time.Second), 0)
		hr, _, _ = spsim.Encode(cfg.Route("slo"), wr(l.Tree(st)), spsim.Transport{Binding: "post", Plus: true, Encoding: A, RelayState: relay}, nil)
	case "attrquery":
		q := spsim.NewAttrQuery("_c10-q", spec.SPs[0].EntityID, "login0@users.example")
		q.IssueInstant = spsim.Instant(now, 0)
		if variant%2 == 1 {
			q.Attrs = []spsim.QAttr{{Name: "Email", NameFormat: "urn:oasis:names:tc:SAML:2.0:attrname-format:basic", FriendlyName: A}}
		}
		hr, _, _ = spsim.Encode(cfg.Route("attribute"), wr(spsim.Envelope(q.QueryTree(st), "soap")), spsim.Transport{Binding: "soap"}, nil)
	case "metadata-signed":
		spec.IdP.MetadataSigAlg = []string{world.AlgRSASHA256, world.AlgRSASHA1}[variant%2]
		hr = obs.HTTPReq{Method: "GET", Path: cfg.Route("metadata")}
	case "metadata-unsigned":
		hr = obs.HTTPReq{Method: "GET", Path: cfg.Route("metadata")}
	}
	if strings.HasPrefix(scenario, "metadata") {
		// the optional parts of the document: organisation and contact person
		if (variant/2)%2 == 1 {
			spec.IdP.Organisation = &world.OrgSpec{Name: "Org", DisplayName: "Organisation", URL: "https://org.example"}
		}
		if (variant/4)%2 == 1 {
			spec.IdP.Contact = &world.ContactSpec{ContactType: "technical", Company: "Org", GivenName: "G", SurName: "S", Email: "ops@org.example", Phone: "+41"}
		}
	}
	switch scenario {
	case "sso-post", "sso-redirect", "sso-post-signed", "sso-redirect-signed", "callback-post-done", "callback-redirect-done", "callback-body-done", "callback-pending", "logout", "logout-noslo", "attrquery", "metadata-signed", "metadata-unsigned":
	case "certificate":
		hr = obs.HTTPReq{Method: "GET", Path: cfg.Route("certificate")}
	case "ready":
		hr = obs.HTTPReq{Method: "GET", Path: "/ready"}
	case "healthz":
		hr = obs.HTTPReq{Method: "GET", Path: "/healthz"}
	default:
		panic("unknown scenario " + scenario)
	}
	hr.Host = host
	return spec, hr
}

type c10Result struct {
	vs     []*ev.Violation
	fired  bool
	ops    map[string]int // dry-run: op -> number of calls
	kind   string
	status int
}

func c10Run(c C10Case) c10Result {
	now := time.Now()
	spec, hr := c10Build(c.Scenario, c.Variant, now)
	if c.Blackout {
		c.Faults = nil
		for _, op := range []string{"Health", "GetCA", "GetMetadataSigningKey", "GetResponseSigningKey", "GetEntityByID", "GetEntityIDByAppID", "CreateAuthRequest", "AuthRequestByID", "SetUserinfoWithUserID", "SetUserinfoWithLoginName"} {
			c.Faults = append(c.Faults, world.Fault{Op: op, Occurrence: 0, Kind: "error"})
		}
	}
	if !c.Warm {
		spec.Faults = c.Faults
	}
	algFired := false
	switch c.AlgFault {
	case "bogus":
		spec.IdP.SignatureAlgorithm = "urn:example:not-an-algorithm"
		if spec.IdP.MetadataSigAlg != "" {
			spec.IdP.MetadataSigAlg = "urn:example:not-an-algorithm"
		}
		algFired = c10Signing[c.Scenario]
	case "empty":
		// the zero value of the configuration field: no algorithm at all is not a usable algorithm
		spec.IdP.SignatureAlgorithm = ""
		algFired = c10Signing[c.Scenario] && !strings.HasPrefix(c.Scenario, "metadata")
	case "sha512":
		spec.IdP.SignatureAlgorithm = world.AlgRSASHA512
		if spec.IdP.MetadataSigAlg != "" {
			spec.IdP.MetadataSigAlg = world.AlgRSASHA512
		}
		algFired = c10Signing[c.Scenario] && c.Scenario != "callback-redirect-done"
	}
	w := mustBuild(spec)
	if c.Warm {
		obs.Do(w.Handler, hr)
		for _, sc := range []string{"metadata-unsigned", "certificate", "attrquery", "sso-post", "callback-post-done"} {
			_, other := c10Build(sc, c.Variant, now)
			obs.Do(w.Handler, other)
		}
		w.Store.SetFaults(c.Faults) // also resets the call counters: occurrences count from here
		w.Store.ResetLog()
	}
	if c.Repeat {
		first, fhang := doTerminating(w, hr)
		if fhang != "" || first.Panic != "" {
			c.Repeat = false
			r := c10Run(c) // report it as the plain case it is
			return r
		}
	}
	rep, hang := doTerminating(w, hr)
	res := c10Result{ops: map[string]int{}, status: rep.Status}
	if hang != "" {
		key, what, _ := strings.Cut(hang, "\x00")
		res.fired = true
		res.vs = append(res.vs, ev.V("C10/"+key, "%s with %v: %s", c.Scenario, c.Faults, what))
		return res
	}
	calls := w.Store.Calls()
	firstFault := -1
	for i, cl := range calls {
		res.ops[cl.Op]++
		if cl.Faulted && firstFault < 0 {
			firstFault = i
		}
	}
	res.fired = firstFault >= 0 || algFired
	d := obs.Decode(rep)
	res.kind = d.Kind
	if !res.fired {
		return res
	}
	what := fmt.Sprintf("%s with %v%s", c.Scenario, c.Faults, map[bool]string{true: " alg=" + c.AlgFault, false: ""}[c.AlgFault != ""])
	add := func(key, f string, a ...any) {
		res.vs = append(res.vs, ev.V("C10/"+key, what+": "+f, a...))
	}
	if rep.Panic != "" {
		v := ev.V("C10/panic:"+rep.PanicSite(), what+": handler panicked: %s", short(rep.Panic, 120))
		res.vs = append(res.vs, v)
		return res
	}
	// the faults that fired, by their effective kind
	zeroOnly, zeroEvery := !algFired, true
	nFired := 0
	for _, cl := range calls {
		if cl.Faulted {
			nFired++
			zeroOnly = zeroOnly && c10ContentKinds[cl.Kind]
		}
	}
	zeroOnly = zeroOnly && nFired > 0
	signingOp := "GetResponseSigningKey"
	if strings.HasPrefix(c.Scenario, "metadata") {
		signingOp = "GetMetadataSigningKey"
	}
	for _, f := range c.Faults {
		// ... and only the key that signs in this scenario counts (the metadata document merely publishes the response key's
		// certificate)
		if c10ContentKinds[f.Kind] && (f.Occurrence != 0 || f.Op != signingOp) {
			zeroEvery = false
		}
	}
	if zeroOnly && !(c10Signing[c.Scenario] && zeroEvery) {
		// a key record that was never filled in is a defect of the key's content: only a use of the key can notice it. Where the
		// request needs the certificate alone (the existing suite pins the certificate endpoint answering 200 next to an empty
		// key) nothing but "no panic" is asserted; a request that signs must fail when every retrieval delivers such a record
		// (with a single faulted retrieval the key that signs may be the one of another call).
		return res
	}
	var resp *obs.ResponseInfo
	if d.Doc != nil {
		resp = obs.ReadResponse(obs.FindResponse(d.Root()))
	}
	switch {
	case rep.Status >= 500:
	case resp != nil && resp.Status != "" && !resp.Success():
	default:
		add("not-an-error-reply:"+c.Scenario, "reply is status %d, %s: %s", rep.Status, d.Kind, short(strings.TrimSpace(string(rep.Body)), 160))
	}
	if resp.Success() {
		add("success-despite-fault", "Success response")
	}
	var markers []string
	for _, u := range spec.Users {
		markers = append(markers, userMarkers(u)...)
	}
	if m, found := containsAny(markers, replyTexts(rep, d)...); found {
		add("user-data-after-fault", "reply contains the user marker %q", m)
	}
	if d.Doc != nil {
		leak := ""
		d.Root().Walk(func(n *xt.Node) {
			if (n.Local == "AttributeValue" && strings.TrimSpace(n.Text()) != "" || n.Local == "SignatureValue") && leak == "" {
				leak = n.Local
			}
		})
		if leak != "" {
			add("signed-or-user-content-after-fault", "reply contains a %s element", leak)
		}
	}
	if firstFault >= 0 {
		for _, cl := range calls[firstFault+1:] {
			if cl.Op == "CreateAuthRequest" && cl.Err == "" {
				add("persisted-after-fault", "CreateAuthRequest succeeded after the injected fault")
			}
		}
	}
	return res
}

// c10FaultPoints lists every single fault of a scenario from its dry run.
func c10FaultPoints(scenario string, variant int) []world.Fault {
	dry := c10Run(C10Case{Scenario: scenario, Variant: variant})
	var ops []string
	for op := range dry.ops {
		ops = append(ops, op)
	}
	sort.Strings(ops)
	var out []world.Fault
	for _, op := range ops {
		kinds := c10KindsOf(op)
		for occ := 1; occ <= dry.ops[op]; occ++ {
			for _, k := range kinds {
				out = append(out, world.Fault{Op: op, Occurrence: occ, Kind: k})
			}
		}
	}
	return out
}

func TestC10Enum(t *testing.T) {
	col := ev.For("C10", "fault_enumeration", c10Rule)
	thorough := ev.Tier() == "thorough"
	variants := 3
	if thorough {
		variants = 20
	}
	runPlain(t, col, "TestC10", func(fail func(*ev.Violation, any)) {
		matrix := map[string][]string{}
		singles, pairs, fired := 0, 0, 0
		hung := false
		for _, sc := range c10Scenarios {
			for v := 0; v < variants; v++ {
				points := c10FaultPoints(sc, v)
				if v == 0 {
					for _, p := range points {
						matrix[sc] = append(matrix[sc], p.String())
					}
				}
				var cases []C10Case
				for _, p := range points {
					cases = append(cases, C10Case{Scenario: sc, Variant: v, Faults: []world.Fault{p}})
					cases = append(cases, C10Case{Scenario: sc, Variant: v, Faults: []world.Fault{p}, Warm: true})
				}
				seenRepeat := map[string]bool{}
				for _, p := range points {
					if k := p.Op + "/" + p.Kind; !seenRepeat[k] {
						seenRepeat[k] = true
						cases = append(cases, C10Case{Scenario: sc, Variant: v, Faults: []world.Fault{{Op: p.Op, Occurrence: 0, Kind: p.Kind}}, Repeat: true})
					}
				}
				for _, alg := range []string{"bogus", "sha512", "empty"} {
					cases = append(cases, C10Case{Scenario: sc, Variant: v, AlgFault: alg})
				}
				cases = append(cases, C10Case{Scenario: sc, Variant: v, Blackout: true}, C10Case{Scenario: sc, Variant: v, Blackout: true, Warm: true})
				singles += len(cases)
				stride, off := 1, 0
				if !thorough {
					stride = 5
					off = int(ev.Seed()%5+5) % 5
				}
				k := 0
				for i := 0; i < len(points); i++ {
					for j := i + 1; j < len(points); j++ {
						if points[i].Op == points[j].Op && points[i].Occurrence == points[j].Occurrence {
							continue
						}
						if k%stride == off {
							cases = append(cases, C10Case{Scenario: sc, Variant: v, Faults: []world.Fault{points[i], points[j]}})
							pairs++
						}
						k++
					}
				}
				for _, c := range cases {
					if hung {
						break // a request that never ends keeps its goroutine: one such finding is enough, every further one costs 40 s
					}
					r := c10Run(c)
					nt := r.fired
					if nt {
						fired++
					}
					col.Case(nt, ev.Fingerprint(c.Scenario, c.Faults, c.AlgFault, c.Warm, c.Blackout, c.Repeat), []string{"scenario/" + c.Scenario, fmt.Sprintf("fired=%v", r.fired), fmt.Sprintf("faults=%d", len(c.Faults)), fmt.Sprintf("warm=%v", c.Warm), fmt.Sprintf("blackout=%v", c.Blackout)}, nil)
					for _, vv := range r.vs {
						if strings.Contains(vv.Key, "blocked-forever") || strings.Contains(vv.Key, "does-not-terminate") {
							hung = true
						}
						fail(vv, c)
					}
				}
			}
		}
		col.SetExhaustive(true)
		col.SetExtra("single_fault_matrix", matrix)
		col.SetExtra("single_faults_run", singles)
		col.SetExtra("fault_pairs_run", pairs)
		col.SetExtra("pairs_exhaustive", thorough)
		col.SetExtra("request_variants_per_scenario", variants)
		col.Sample(map[string]any{"scenario": "callback-post-done", "single_faults": matrix["callback-post-done"]})
		col.Sample(map[string]any{"scenario": "sso-redirect-signed", "single_faults": matrix["sso-redirect-signed"]})
	})
}

var c10AllOps = []string{"Health", "GetCA", "GetMetadataSigningKey", "GetResponseSigningKey", "GetEntityByID", "GetEntityIDByAppID", "CreateAuthRequest", "AuthRequestByID", "SetUserinfoWithUserID", "SetUserinfoWithLoginName"}

func genC10Case(t *rapid.T) C10Case {
	c := C10Case{Scenario: pick(t, "scenario", c10Scenarios), Variant: rapid.IntRange(0, 35).Draw(t, "variant"), Warm: rapid.Bool().Draw(t, "warm")}
	n := rapid.IntRange(1, 3).Draw(t, "nfaults")
	for i := 0; i < n; i++ {
		op := pick(t, "op", c10AllOps)
		kind := rapid.SampledFrom(c10KindsOf(op)).Draw(t, "kind")
		c.Faults = append(c.Faults, world.Fault{Op: op, Occurrence: rapid.IntRange(0, 3).Draw(t, "occurrence"), Kind: kind})
	}
	if rapid.IntRange(0, 5).Draw(t, "algfault") == 0 {
		c.AlgFault = rapid.SampledFrom([]string{"bogus", "sha512"}).Draw(t, "alg")
	}
	return c
}

// TestC10 is the generated (and replay) entry point.
func TestC10(t *testing.T) {
	col := ev.For("C10", "fault_enumeration", c10Rule)
	searchRapid(t, col, genC10Case, func(c C10Case) []*ev.Violation {
		r := c10Run(c)
		col.Case(r.fired, ev.Fingerprint(c.Scenario, c.Faults, c.AlgFault), []string{"rapid/scenario/" + c.Scenario, fmt.Sprintf("rapid/fired=%v", r.fired)}, func() any {
			return map[string]any{"scenario": c.Scenario, "variant": c.Variant, "faults": c.Faults, "alg_fault": c.AlgFault, "fired": r.fired, "status": r.status, "reply": r.kind}
		})
		return r.vs
	})
}
