package props

// C17 — Auto-submit pages cannot be altered by request-controlled values.

import (
	"bytes"
	"fmt"
	"io"
	"sort"
	"strings"
	"testing"
	"unicode/utf8"

	"golang.org/x/net/html"
	"pgregory.net/rapid"

	"verif/harness/ev"
	"verif/harness/obs"
	"verif/harness/spsim"
	"verif/harness/world"
	"verif/harness/xt"
)

const c17Rule = "rapid: RelayState, message and consumer / logout URL drawn from an any-bytes alphabet (quotes, angle brackets, ampersands, entity look-alikes, NUL and other controls, CR / LF, UTF-8, invalid UTF-8, javascript: / data: / vbscript: schemes with case and whitespace tricks, attribute-breaking and tag-opening payloads), lengths 0..64 KiB, (a) substituted directly into the two templates the provider executes (all three slots; obtained through the verif hook) and (b) through the real handlers: SSO error replies that reflect the attacker's RelayState to the registered consumer URL, the callback for seeded stored requests with arbitrary RelayState and consumer URL, logout replies. Oracle: the body is tokenised with golang.org/x/net/html (independent of html/template); its token skeleton (tags, attribute names, every attribute value outside the three slots, text) equals the skeleton of the same page rendered with benign values; exactly one form; the RelayState and SAMLResponse fields hold the substituted strings (NUL / invalid bytes may be replaced by U+FFFD, CR/CRLF by LF); the action equals the consumer URL after lenient percent-decoding or is an inert placeholder when the URL could be read as having a scheme other than http / https / mailto; after browser URL pre-processing the action never has a javascript:, data: or vbscript: scheme. Non-trivial: a value contains a quote, angle bracket, ampersand, NUL, newline or invalid UTF-8, or the URL has a non-http scheme. Distinct by the set of hostile classes per slot."

type C17Case struct {
	Route      string `json:"route"` // direct-post | direct-logout | sso-error | callback | logout
	RelayState string `json:"relay_state"`
	Message    string `json:"message"` // direct routes only
	URL        string `json:"url"`     // consumer URL (direct, callback) - logout and sso-error use a registered URL
	Done       bool   `json:"done,omitempty"`
	// ReqHeaders: header lines of the triggering request (handler routes): a user agent or an attacker's fetch() may send range
	// and cache-validation headers with any request; the page must not be cut, re-framed or dropped because of them.
	ReqHeaders [][2]string `json:"request_headers,omitempty"`
	// BrokenFirst > 0 (handler routes): the same provider first serves the same request to a user agent that goes away after
	// that many bytes of the page; the page under test is the next one.
	BrokenFirst int `json:"broken_first,omitempty"`
}

var c17ReqHeaders = [][2]string{{"Range", "bytes=0-99"}, {"Range", "bytes=100-"}, {"Range", "bytes=0-10,20-30,-5"}, {"Range", "bytes=-1"}, {"If-Range", "\"x\""}, {"If-None-Match", "*"}, {"If-Match", "*"}, {"If-Match", "\"nope\""},
	{"If-Modified-Since", "Wed, 21 Oct 2099 07:28:00 GMT"}, {"If-Unmodified-Since", "Wed, 21 Oct 2015 07:28:00 GMT"}, {"Accept-Encoding", "gzip, deflate, br"}, {"Accept", "application/json"}, {"TE", "trailers"}, {"Expect", "100-continue"},
	{"X-HTTP-Method-Override", "HEAD"}, {"Accept-Charset", "utf-16"}}

var c17Payloads = []string{
	"\"", "'", "<", ">", "&", "\"><script>alert(1)</script>", "' onmouseover='alert(1)", "\"/><input name=\"x\" value=\"", "</form><form action=\"https://evil.example\">", "&quot;", "&#34;", "&amp;quot;", "&lt;",
	"\x00", "\r", "\n", "\r\n", "\t", "\x0b", "\x0c", "\x1f", "\x7f", "\xff", "\xc0\xaf", "\xed\xa0\x80", "\xf4\x90\x80\x80", "\xe2\x82",
	"ü", "€", "𝄞", " ", "\ufeff", "\ufffd", "\ufffe", "a", "b c", "AAAA", "=", "+", "/", "%", "%22", "%00", "{{.}}", "{{", "{{ .SAMLResponse }}", "{{ .RelayState }}", "{{ .AssertionConsumerServiceURL }}", "{{ .LogoutURL }}", "{{.SAMLResponse}}", "{{ . }}", "{{/* x */}}", "{{ .SAMLResponse }}{{ .SAMLResponse }}", "`", "\\", "\\\"", "javascript:alert(1)", "<!--", "-->", "<![CDATA[", "]]>", "<?", "&#x", "&#0;", "&;",
}

var c17URLs = []string{
	"https://sp.example/acs", "https://sp.example/acs?a=1&b=2", "http://sp.example/acs", "mailto:x@sp.example", "/relative/acs", "", "//sp.example/acs", "sp.example/acs",
	"javascript:alert(1)", "JaVaScRiPt:alert(1)", " javascript:alert(1)", "java\tscript:alert(1)", "java\nscript:alert(1)", "\x01javascript:alert(1)", "javascript&colon;alert(1)", "javascript&#58;alert(1)", "javascript%3Aalert(1)",
	"data:text/html,<script>alert(1)</script>", "DATA:text/html;base64,PHNjcmlwdD4=", "vbscript:msgbox(1)", "feed:javascript:alert(1)", "https://sp.example/\"onmouseover=\"alert(1)", "https://sp.example/'><script>", "https://sp.example/a b", "https://sp.example/ü",
	"javascript://sp.example/%0Aalert(document.domain)", "JavaScript://sp.example:443/%0aalert(1)", "vbscript://sp.example/x", "data://sp.example/text/html,<script>alert(1)</script>", "javascript://%0aalert(1)", "javascript:///x%0aalert(1)",
	"https://sp.example/saml/slo?tenant=7&region=eu", "https://sp.example/slo?a=1&copy=2&notify=3&section=4", "https://sp.example/slo?label=%26amp%3B&raw=&amp;&lt=3", "https://sp.example/slo?n=&#49;&m=&#x32;", "https://sp.example/slo?x=&quot;y&apos;",
	"com.example.app://saml/acs", "x:y", "a/b:c", "://", ":", "#frag", "?q=javascript:alert(1)",
}

func genHostile(t *rapid.T, label string, maxPieces int) string {
	n := rapid.IntRange(0, maxPieces).Draw(t, label+"-n")
	var b strings.Builder
	for i := 0; i < n; i++ {
		b.WriteString(rapid.SampledFrom(c17Payloads).Draw(t, label+"-piece"))
	}
	s := b.String()
	// occasionally very long
	if rapid.IntRange(0, 40).Draw(t, label+"-long") == 0 && len(s) > 0 {
		rep := 65536 / len(s)
		if rep > 4096 {
			rep = 4096
		}
		s = strings.Repeat(s, rep)
		if len(s) > 65536 {
			s = s[:65536]
		}
	}
	return s
}

func genC17Case(t *rapid.T) C17Case {
	c := C17Case{Route: rapid.SampledFrom([]string{"direct-post", "direct-post", "direct-logout", "direct-logout", "sso-error", "callback", "callback", "logout"}).Draw(t, "route")}
	c.RelayState = genHostile(t, "relay", 6)
	if rapid.IntRange(0, 5).Draw(t, "relay-url") == 0 {
		// a deep link as RelayState: a URL on the consumer's host, on another host of the provider, anywhere; scheme-relative forms
		c.RelayState = rapid.SampledFrom([]string{"https://app.sp.example/dashboard?tab=2", "//static.sp.example/after-login", "HTTPS://Portal.Example/", "https://sp.example/acs", "https://sp.example/home?x=1&y=2",
			"http://sp.example:8080/", "https://elsewhere.example/#frag", "/relative/path?next=/", "app.custom://return", "https://sp.example@elsewhere.example/"}).Draw(t, "relay-urlv") + genHostile(t, "relay-url-tail", 1)
	}
	c.Message = genHostile(t, "message", 4)
	if rapid.Bool().Draw(t, "urlfromlist") {
		c.URL = rapid.SampledFrom(c17URLs).Draw(t, "url")
		if rapid.IntRange(0, 3).Draw(t, "urlsuffix") == 0 {
			c.URL += genHostile(t, "urltail", 3)
		}
	} else if rapid.IntRange(0, 3).Draw(t, "schemeurl") == 0 {
		c.URL = rapid.SampledFrom([]string{"javascript", "JAVASCRIPT", "data", "vbscript", "https", "http", "app.custom"}).Draw(t, "urlscheme") + rapid.SampledFrom([]string{"://", ":", ":///", "://user@"}).Draw(t, "urlsep") +
			rapid.SampledFrom([]string{"sp.example", "sp.example:443", "[::1]", ""}).Draw(t, "urlhost") + "/" + genHostile(t, "urltail", 3)
	} else {
		c.URL = "https://sp.example/" + genHostile(t, "urltail", 4)
	}
	c.Done = rapid.Bool().Draw(t, "done")
	if rapid.IntRange(0, 3).Draw(t, "brokenfirst") == 0 {
		c.BrokenFirst = rapid.SampledFrom([]int{1, 50, 200, 500, 900, 2000}).Draw(t, "brokenafter")
	}
	for i := rapid.IntRange(-3, 2).Draw(t, "nreqheaders"); i > 0; i-- {
		c.ReqHeaders = append(c.ReqHeaders, rapid.SampledFrom(c17ReqHeaders).Draw(t, "reqheader"))
	}
	return c
}

// ---- independent reading of the page ----

type pageTok struct {
	Kind  string
	Name  string
	Attrs [][2]string
	Text  string
}

// tokenisePage returns the tokens of a page with the three slot values masked, and the slot values.
func tokenisePage(body []byte) (skeleton []string, action, relay, message string, forms int, haveRelay, haveMsg bool) {
	z := html.NewTokenizer(bytes.NewReader(body))
	for {
		tt := z.Next()
		if tt == html.ErrorToken {
			return
		}
		tok := z.Token()
		switch tt {
		case html.StartTagToken, html.SelfClosingTagToken:
			name := tok.Data
			var attrs []string
			isRelay, isMsg := false, false
			for _, a := range tok.Attr {
				if name == "input" && a.Key == "name" {
					isRelay = isRelay || a.Val == "RelayState"
					isMsg = isMsg || a.Val == "SAMLResponse"
				}
			}
			if name == "form" {
				forms++
			}
			for _, a := range tok.Attr {
				val := a.Val
				switch {
				case name == "form" && a.Key == "action":
					action, val = a.Val, "§action§"
				case name == "input" && a.Key == "value" && isRelay:
					relay, haveRelay, val = a.Val, true, "§relay§"
				case name == "input" && a.Key == "value" && isMsg:
					message, haveMsg, val = a.Val, true, "§message§"
				}
				attrs = append(attrs, a.Key+"="+val)
			}
			skeleton = append(skeleton, fmt.Sprintf("<%s %s>", name, strings.Join(attrs, " | ")))
		case html.EndTagToken:
			skeleton = append(skeleton, "</"+tok.Data+">")
		case html.TextToken:
			if s := strings.TrimSpace(tok.Data); s != "" {
				skeleton = append(skeleton, "text:"+s)
			}
		case html.CommentToken:
			skeleton = append(skeleton, "comment:"+tok.Data)
		case html.DoctypeToken:
			skeleton = append(skeleton, "doctype")
		}
	}
}

// htmlCarry is what an HTML attribute can carry of s: NUL and invalid UTF-8 bytes become U+FFFD, CR / CRLF become LF.
func htmlCarry(s string) string {
	var b strings.Builder
	for i := 0; i < len(s); {
		r, w := utf8.DecodeRuneInString(s[i:])
		switch {
		case r == utf8.RuneError && w == 1, r == 0:
			b.WriteRune('\ufffd')
		case r == '\r':
			b.WriteByte('\n')
			if i+1 < len(s) && s[i+1] == '\n' {
				i++
			}
		default:
			b.WriteString(s[i : i+w])
		}
		i += w
	}
	return b.String()
}

// browserScheme applies the URL pre-processing browsers do (strip leading/trailing C0 and space, remove TAB / LF / CR) and returns the scheme, lower-cased ("" if none).
func browserScheme(u string) string {
	u = strings.TrimFunc(u, func(r rune) bool { return r <= 0x20 })
	u = strings.NewReplacer("\t", "", "\n", "", "\r", "").Replace(u)
	for i := 0; i < len(u); i++ {
		c := u[i]
		switch {
		case c == ':':
			if i == 0 {
				return ""
			}
			return strings.ToLower(u[:i])
		case (c >= 'a' && c <= 'z') || (c >= 'A' && c <= 'Z'):
		case i > 0 && ((c >= '0' && c <= '9') || c == '+' || c == '-' || c == '.'):
		default:
			return ""
		}
	}
	return ""
}

// schemy: the URL could be read as carrying a scheme (a colon before any slash), as html/template's filter sees it.
func schemy(u string) bool {
	i := strings.IndexByte(u, ':')
	return i >= 0 && !strings.Contains(u[:i], "/")
}

func c17CheckPage(body []byte, ref []string, relay, message, url string, checkMessage bool) []*ev.Violation {
	var vs []*ev.Violation
	add := func(key, f string, a ...any) { vs = append(vs, ev.V("C17/"+key, f, a...)) }
	skel, action, gotRelay, gotMsg, forms, haveRelay, haveMsg := tokenisePage(body)
	if forms != 1 {
		add("form-count", "%d forms in the page", forms)
	}
	if strings.Join(skel, "\n") != strings.Join(ref, "\n") {
		diff := ""
		for i := 0; i < len(skel) || i < len(ref); i++ {
			var a, b string
			if i < len(skel) {
				a = skel[i]
			}
			if i < len(ref) {
				b = ref[i]
			}
			if a != b {
				diff = fmt.Sprintf("token %d: got %q, fixed template has %q", i, short(a, 200), short(b, 200))
				break
			}
		}
		add("page-structure-altered", "the token skeleton differs from the template's: %s", diff)
		return vs
	}
	if !haveRelay || htmlCarry(gotRelay) != htmlCarry(relay) {
		add("relaystate-altered", "RelayState field %q, substituted %q", short(gotRelay, 120), short(relay, 120))
	}
	if checkMessage && (!haveMsg || htmlCarry(gotMsg) != htmlCarry(message)) {
		add("message-altered", "SAMLResponse field %q, substituted %q", short(gotMsg, 120), short(message, 120))
	}
	switch sc := browserScheme(action); sc {
	case "javascript", "data", "vbscript":
		add("dangerous-action-scheme", "form action %q has scheme %s (consumer URL %q)", short(action, 120), sc, short(url, 120))
	}
	inert := action == "#ZgotmplZ" || strings.HasPrefix(action, "#") || strings.HasPrefix(action, "about:")
	same := htmlCarry(lenientDecode(action)) == htmlCarry(lenientDecode(url))
	if !same && !(inert && schemy(url)) {
		add("action-not-the-consumer-url", "form action %q, consumer URL %q", short(action, 160), short(url, 160))
	}
	return vs
}

// pageTemplate is satisfied by whatever template type the provider uses.
type pageTemplate interface {
	Execute(io.Writer, any) error
}

type c17World struct {
	w          *world.World
	post, lo   pageTemplate
	refDirectP []string
	refDirectL []string
	refHandler map[string][]string
}

var c17W *c17World

func c17Spec() world.Spec {
	spec := stdSpec()
	spec.SPs[1].AuthnRequestsSigned = A
	return spec
}

func c17Setup() *c17World {
	if c17W != nil {
		return c17W
	}
	w := mustBuild(c17Spec())
	cw := &c17World{w: w, refHandler: map[string][]string{}}
	p, l := w.Provider.VerifTemplates()
	cw.post, cw.lo = p, l
	var buf bytes.Buffer
	if err := cw.post.Execute(&buf, map[string]string{"RelayState": "RS", "SAMLResponse": "MSG", "AssertionConsumerServiceURL": "https://benign.example/acs"}); err != nil {
		panic("harness: " + err.Error())
	}
	cw.refDirectP, _, _, _, _, _, _ = tokenisePage(buf.Bytes())
	buf.Reset()
	if err := cw.lo.Execute(&buf, map[string]string{"RelayState": "RS", "SAMLResponse": "MSG", "LogoutURL": "https://benign.example/slo"}); err != nil {
		panic("harness: " + err.Error())
	}
	cw.refDirectL, _, _, _, _, _, _ = tokenisePage(buf.Bytes())
	c17W = cw
	return cw
}

func formBody(params ...string) string {
	var parts []string
	for i := 0; i+1 < len(params); i += 2 {
		parts = append(parts, params[i]+"="+qesc(params[i+1]))
	}
	return strings.Join(parts, "&")
}

func c17Run(c C17Case) ([]*ev.Violation, string) {
	cw := c17Setup()
	var buf bytes.Buffer
	switch c.Route {
	case "direct-post":
		if err := cw.post.Execute(&buf, map[string]string{"RelayState": c.RelayState, "SAMLResponse": c.Message, "AssertionConsumerServiceURL": c.URL}); err != nil {
			return nil, "template-error" // the caller answers with an HTTP error: nothing is emitted
		}
		return c17CheckPage(buf.Bytes(), cw.refDirectP, c.RelayState, c.Message, c.URL, true), "page"
	case "direct-logout":
		if err := cw.lo.Execute(&buf, map[string]string{"RelayState": c.RelayState, "SAMLResponse": c.Message, "LogoutURL": c.URL}); err != nil {
			return nil, "template-error"
		}
		return c17CheckPage(buf.Bytes(), cw.refDirectL, c.RelayState, c.Message, c.URL, true), "page"
	}
	// handler routes: a fresh world per case (seeded request), the reference page comes from the same route with benign values
	spec := c17Spec()
	cfg := spec.IdP
	var hr obs.HTTPReq
	url := c.URL
	// the URL of the logout / sso-error pages is a registered one: whatever a provider can register (any string of legal XML
	// characters travels through the metadata document) is what the page is built from
	registrable := func(u string) bool {
		if u == "" || !utf8.ValidString(u) {
			return false
		}
		for _, r := range u {
			if !xt.IsChar(r) {
				return false
			}
		}
		return true
	}
	build := func(relay, acsURL string) (world.Spec, obs.HTTPReq) {
		sp := c17Spec()
		if registrable(acsURL) {
			switch c.Route {
			case "sso-error":
				sp.SPs[0].ACS[0].Location = acsURL
			case "logout":
				sp.SPs[0].SLO[0].Location = acsURL
			}
		}
		switch c.Route {
		case "sso-error":
			a := spsim.NewAuthnReq("_c17", sp.SPs[0].EntityID)
			a.Destination = "https://elsewhere.example/not-this-idp" // fails after the consumer URL has been selected
			x := xt.Write(a.Tree(plainStyle), plainStyle.W)
			r, _, _ := spsim.Encode(cfg.Route("sso"), x, spsim.Transport{Binding: "post", Plus: true, Encoding: A, RelayState: A}, nil)
			r.Body += "&RelayState=" + qesc(relay)
			return sp, r
		case "callback":
			sp.Requests = []world.RequestSpec{{ID: "c17", AppID: "app-0", RelayState: relay, ACS: acsURL, Binding: world.BindPost, AuthRequestID: "_c17", UserID: "uid-0", Done: c.Done}}
			return sp, callbackReq(cfg, "c17")
		default: // logout
			l := spsim.NewLogoutReq("_c17", sp.SPs[0].EntityID, "usermark0")
			x := xt.Write(l.Tree(plainStyle), plainStyle.W)
			r, _, _ := spsim.Encode(cfg.Route("slo"), x, spsim.Transport{Binding: "post", Plus: true, Encoding: A, RelayState: A}, nil)
			r.Body += "&RelayState=" + qesc(relay)
			return sp, r
		}
	}
	switch c.Route {
	case "sso-error":
		if !registrable(url) {
			url = spec.SPs[0].ACS[0].Location
		}
	case "logout":
		if !registrable(url) {
			url = spec.SPs[0].SLO[0].Location
		}
	case "callback":
		if url == "" {
			url = "https://sp.example/acs" // an empty consumer URL means body delivery, no page
		}
	}
	if _, ok := cw.refHandler[c.Route]; !ok {
		rs, rr := build("RS", "https://benign.example/acs")
		rep := obs.Do(mustBuild(rs).Handler, rr)
		cw.refHandler[c.Route], _, _, _, _, _, _ = tokenisePage(rep.Body)
		if len(cw.refHandler[c.Route]) < 10 {
			panic("harness: benign reference page for route " + c.Route + " is not an auto-submit page: " + short(string(rep.Body), 200))
		}
	}
	s2, hr := build(c.RelayState, url)
	hr.Headers = append(hr.Headers, c.ReqHeaders...)
	w := mustBuild(s2)
	if c.BrokenFirst > 0 {
		first := hr
		first.FailWriteAfter = c.BrokenFirst
		obs.Do(w.Handler, first)
	}
	rep := obs.Do(w.Handler, hr)
	if rep.Panic != "" {
		return []*ev.Violation{ev.V("C17/panic", "handler panicked: %s", short(rep.Panic, 100))}, "panic"
	}
	if rep.Status >= 400 {
		return nil, "http-error"
	}
	if rep.Status == 206 {
		return []*ev.Violation{ev.V("C17/partial-page", "request headers %v: the auto-submit page is served as a 206 partial content (%d bytes, Content-Range %q)", c.ReqHeaders, len(rep.Body), rep.Header.Get("Content-Range"))}, "page"
	}
	if !bytes.Contains(rep.Body, []byte("<form")) && !bytes.Contains(bytes.ToLower(rep.Body), []byte("<html")) {
		return nil, "no-page"
	}
	// the message is produced by the IdP: base64 text, compared for being carried intact is C18's; here the structure matters
	return c17CheckPage(rep.Body, cw.refHandler[c.Route], c.RelayState, "", url, false), "page"
}

func c17Classes(s string) []string {
	var out []string
	has := func(sub string) bool { return strings.Contains(s, sub) }
	if has("\"") || has("'") {
		out = append(out, "quote")
	}
	if has("<") || has(">") {
		out = append(out, "angle")
	}
	if has("&") {
		out = append(out, "amp")
	}
	if has("\x00") {
		out = append(out, "nul")
	}
	if has("\r") || has("\n") {
		out = append(out, "newline")
	}
	if !utf8.ValidString(s) {
		out = append(out, "invalid-utf8")
	}
	if len(s) > 10000 {
		out = append(out, "long")
	}
	return out
}

func TestC17(t *testing.T) {
	col := ev.For("C17", "exploration", c17Rule)
	searchRapid(t, col, genC17Case, func(c C17Case) []*ev.Violation {
		vs, outcome := c17Run(c)
		direct := strings.HasPrefix(c.Route, "direct")
		var cls []string
		for _, x := range c17Classes(c.RelayState) {
			cls = append(cls, "relay:"+x)
		}
		if direct {
			for _, x := range c17Classes(c.Message) {
				cls = append(cls, "message:"+x)
			}
		}
		if direct || c.Route == "callback" {
			for _, x := range c17Classes(c.URL) {
				cls = append(cls, "url:"+x)
			}
			if sc := browserScheme(c.URL); sc != "" && sc != "http" && sc != "https" {
				cls = append(cls, "url:scheme-"+sc)
			} else if schemy(c.URL) && sc == "" {
				cls = append(cls, "url:pseudo-scheme")
			}
		}
		sort.Strings(cls)
		classes := append([]string{"route/" + c.Route, "outcome/" + outcome}, cls...)
		col.Case(len(cls) > 0 && outcome == "page", ev.Fingerprint(c.Route, cls), classes, func() any {
			return map[string]any{"route": c.Route, "relay_state": short(c.RelayState, 120), "message": short(c.Message, 80), "url": short(c.URL, 120), "outcome": outcome, "hostile_classes": cls}
		})
		return vs
	})
}
