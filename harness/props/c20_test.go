package props

// C20 — Validation chains stop at the first failure and report it exactly once.
//
// Domain: programs over the checker API. Oracle: a reference interpreter written from the
// statement, compared with the trace recorded by instrumented closures, on two evaluations.

import (
	"context"
	"errors"
	"fmt"
	"io"
	"io/fs"
	"net"
	"runtime"
	"strings"
	"sync"
	"testing"
	"unicode/utf8"

	"github.com/zitadel/saml/pkg/provider/checker"
	"pgregory.net/rapid"

	"verif/harness/ev"
)

const (
	kNotEmpty = iota
	kValuesNotEmpty
	kLength
	kEquals
	kCondNotEmpty
	kCondLogic
	kLogic
	kValueStep
)

var c20KindNames = []string{"NotEmpty", "ValuesNotEmpty", "Length", "Equals", "CondNotEmpty", "CondLogic", "Logic", "ValueStep"}

// C20Step is one step of a chain with all its parameters (JSON-serialisable).
type C20Step struct {
	Kind     int      `json:"kind"`
	Value    string   `json:"value,omitempty"`
	Values   []string `json:"values,omitempty"`
	Min      int      `json:"min,omitempty"`
	Max      int      `json:"max,omitempty"`
	Equal    string   `json:"equal,omitempty"`
	Cond     bool     `json:"cond,omitempty"`
	LogicErr bool     `json:"logic_err,omitempty"`
	// PanicCB: the failure callback of this step panics after it has been entered (a handler's callback that writes to a
	// connection the client has closed aborts like that). It must still have run exactly once.
	PanicCB bool `json:"panic_in_callback,omitempty"`
	// Reenter (logic and value steps): the step's logic evaluates the whole chain once more before it returns (a validation
	// helper that re-validates, a second goroutine doing the same thing at that moment): each evaluation is one of its own.
	Reenter bool `json:"reenter,omitempty"`
	// TypedNil (with LogicErr): the error the logic returns is a nil pointer of an error type - a non-nil error value all the same
	TypedNil bool `json:"typed_nil_error,omitempty"`
	// ErrKind (with LogicErr): what the error is - "" a plain one, or one of the errors storages and contexts hand out when a
	// request is abandoned or a record is missing. A failure is a failure whatever it says.
	ErrKind string `json:"error_kind,omitempty"`
	// NoName: the step is added with an empty value name (the name only serves the log line)
	NoName bool `json:"no_value_name,omitempty"`
}

var c20ErrKinds = map[string]error{
	"canceled": context.Canceled, "wrapped-canceled": fmt.Errorf("storage: %w", context.Canceled), "deadline": context.DeadlineExceeded,
	"eof": io.EOF, "unexpected-eof": fmt.Errorf("read: %w", io.ErrUnexpectedEOF), "closed": net.ErrClosed, "not-exist": fs.ErrNotExist, "empty-message": errors.New(""),
}

type C20Case struct {
	Steps []C20Step `json:"steps"`
	// Alt: the inputs the same chain is evaluated over next (same kinds and bounds, other values / conditions / results)
	Alt []C20Step `json:"alternative_inputs,omitempty"`
}

// refFails is the documented failure condition of each step kind.
func (s C20Step) refFails() bool {
	switch s.Kind {
	case kNotEmpty:
		return s.Value == ""
	case kValuesNotEmpty:
		for _, v := range s.Values {
			if v == "" {
				return true
			}
		}
		return false
	case kLength:
		return (s.Min > 0 && len(s.Value) < s.Min) || (s.Max > 0 && len(s.Value) > s.Max)
	case kEquals:
		return s.Value != s.Equal
	case kCondNotEmpty:
		return s.Cond && s.Value == ""
	case kCondLogic:
		return s.Cond && s.LogicErr
	case kLogic:
		return s.LogicErr
	}
	return false
}

type c20Event struct {
	step int
	what byte // 'v' value-ish, 'c' cond, 'l' logic, 'e' error callback
}

type c20Trace struct {
	ev []c20Event
	// re-entrant evaluations: depth guards against unbounded recursion, inner collects verdict and trace of each inner evaluation
	depth   int
	noEnter bool
	chain   *checker.Checker
	inner   []c20Inner
	// evals counts evaluations: every second one goes through a copy of the Checker value (a chain handed on by value - a
	// helper's return value, a struct field - is the same chain)
	evals int
}

type c20Inner struct {
	failed bool
	trace  string
}

// reenter runs the chain once more from inside one of its steps and files the inner evaluation's trace separately.
func (tr *c20Trace) reenter() {
	if tr.noEnter || tr.depth > 0 || tr.chain == nil {
		return
	}
	tr.depth++
	saved := tr.ev
	tr.ev = nil
	failed := c20Eval(tr.chain, tr)
	in := c20Inner{failed: failed, trace: tr.String()}
	tr.ev = saved
	tr.depth--
	tr.inner = append(tr.inner, in)
}

func (tr *c20Trace) add(i int, w byte) { tr.ev = append(tr.ev, c20Event{i, w}) }

func (tr *c20Trace) String() string {
	var b strings.Builder
	for _, e := range tr.ev {
		fmt.Fprintf(&b, "%d%c ", e.step, e.what)
	}
	return b.String()
}

var errC20 = errors.New("logic failed")

type c20PtrErr struct{}

func (*c20PtrErr) Error() string { return "logic failed (typed nil)" }

type c20SliceErr []error

func (c20SliceErr) Error() string { return "logic failed (empty list of errors)" }

var errC20Callback = errors.New("failure callback aborted")

// c20Eval runs CheckFailed; a panic raised by a failure callback of the chain itself is reported as failed = true (the chain did
// fail), any other panic is handed on.
func c20Eval(c *checker.Checker, tr *c20Trace) (failed bool) {
	tr.evals++
	if tr.evals%2 == 0 {
		cp := *c
		c = &cp
	}
	defer func() {
		if r := recover(); r != nil {
			if r == any(errC20Callback) {
				failed = true
				return
			}
			panic(r)
		}
	}()
	return c.CheckFailed()
}

func c20Build(steps []C20Step, tr *c20Trace) *checker.Checker {
	cur := steps
	return c20BuildOn(steps, &cur, tr)
}

// c20BuildOn builds the chain of steps; the closures read the values, conditions and outcomes of the moment from *cur (same
// kinds and bounds as steps), so that one chain can be evaluated over changing inputs - which is how handlers' closures behave.
func c20BuildOn(steps []C20Step, cur *[]C20Step, tr *c20Trace) *checker.Checker {
	c := &checker.Checker{}
	for i := range steps {
		i := i
		s := steps[i]
		val := func() string { tr.add(i, 'v'); return (*cur)[i].Value }
		errF := func() {
			tr.add(i, 'e')
			if s.PanicCB {
				panic(errC20Callback)
			}
		}
		cond := func() bool { tr.add(i, 'c'); return (*cur)[i].Cond }
		logic := func() error {
			tr.add(i, 'l')
			if s.Reenter {
				tr.reenter()
			}
			if (*cur)[i].LogicErr {
				if s.TypedNil {
					if i%2 == 0 {
						var e *c20PtrErr
						return e
					}
					return c20SliceErr(nil)
				}
				if e, ok := c20ErrKinds[s.ErrKind]; ok {
					return e
				}
				return errC20
			}
			return nil
		}
		name := "n"
		if s.NoName {
			name = ""
		}
		switch s.Kind {
		case kNotEmpty:
			c.WithValueNotEmptyCheck(name, val, errF)
		case kValuesNotEmpty:
			c.WithValuesNotEmptyCheck(func() []string { tr.add(i, 'v'); return (*cur)[i].Values }, errF)
		case kLength:
			c.WithValueLengthCheck(name, val, s.Min, s.Max, errF)
		case kEquals:
			c.WithValueEqualsCheck(name, val, func() string { tr.add(i, 'v'); return (*cur)[i].Equal }, errF)
		case kCondNotEmpty:
			c.WithConditionalValueNotEmpty(cond, name, val, errF)
		case kCondLogic:
			c.WithConditionalLogicStep(cond, logic, errF)
		case kLogic:
			c.WithLogicStep(logic, errF)
		case kValueStep:
			c.WithValueStep(func() {
				tr.add(i, 'l')
				if s.Reenter {
					tr.reenter()
				}
			})
		}
	}
	tr.chain = c
	return c
}

// c20Check evaluates a chain twice and compares with the reference interpreter.
func c20Check(steps []C20Step) *ev.Violation {
	tr := &c20Trace{}
	c := c20Build(steps, tr)
	if len(tr.ev) != 0 {
		return ev.V("C20/eager-evaluation", "closures ran while the chain was being built: %s", tr)
	}
	if c.StepCount() != len(steps) {
		return ev.V("C20/step-count", "StepCount=%d for %d added steps", c.StepCount(), len(steps))
	}
	first := -1
	for i, s := range steps {
		if s.refFails() {
			first = i
			break
		}
	}
	var firstTrace string
	reentrant := false
	for _, s := range steps {
		reentrant = reentrant || s.Reenter
	}
	rounds := 2
	if reentrant {
		rounds = 3 // the third evaluation lets the marked steps re-enter the chain
	}
	for round := 0; round < rounds; round++ {
		tr.ev = tr.ev[:0]
		tr.inner = nil
		tr.noEnter = round < 2
		got := c20Eval(c, tr)
		if got != (first >= 0) {
			return ev.V("C20/verdict", "round %d: CheckFailed=%v, reference says first failing step=%d; trace %s", round, got, first, tr)
		}
		// per-step counters
		type cnt struct{ v, c, l, e int }
		counts := make([]cnt, len(steps))
		last := -1
		for _, e := range tr.ev {
			if e.step < last {
				return ev.V("C20/order", "round %d: step %d ran after step %d; trace %s", round, e.step, last, tr)
			}
			last = e.step
			switch e.what {
			case 'v':
				counts[e.step].v++
			case 'c':
				counts[e.step].c++
			case 'l':
				counts[e.step].l++
			case 'e':
				counts[e.step].e++
			}
		}
		for i, s := range steps {
			k := counts[i]
			if first >= 0 && i > first {
				if k.v+k.c+k.l+k.e != 0 {
					return ev.V("C20/ran-after-failure", "round %d: step %d ran although step %d failed; trace %s", round, i, first, tr)
				}
				continue
			}
			wantErr := 0
			if i == first {
				wantErr = 1
			}
			if k.e != wantErr {
				return ev.V("C20/callback-count", "round %d: step %d (%s) failure callback ran %d times, want %d; trace %s", round, i, c20KindNames[s.Kind], k.e, wantErr, tr)
			}
			switch s.Kind {
			case kLogic, kValueStep:
				if k.l != 1 {
					return ev.V("C20/logic-count", "round %d: step %d (%s) logic ran %d times, want 1; trace %s", round, i, c20KindNames[s.Kind], k.l, tr)
				}
			case kCondLogic:
				want := 0
				if s.Cond {
					want = 1
				}
				if k.l != want {
					return ev.V("C20/logic-count", "round %d: conditional step %d cond=%v logic ran %d times; trace %s", round, i, s.Cond, k.l, tr)
				}
			}
			// how often value()/cond() closures are read is not part of the statement (a length
			// step with no bounds need not read its value): the verdict check covers them.
		}
		// the failure callback is the last thing that happens
		if first >= 0 && (len(tr.ev) == 0 || tr.ev[len(tr.ev)-1] != (c20Event{first, 'e'})) {
			return ev.V("C20/callback-not-last", "round %d: evaluation did not end with the failure callback of step %d; trace %s", round, first, tr)
		}
		if round == 0 {
			firstTrace = tr.String()
		} else if tr.String() != firstTrace {
			return ev.V("C20/not-repeatable", "evaluation %d differs: %q vs %q", round+1, firstTrace, tr.String())
		}
		for k, in := range tr.inner {
			if in.failed != (first >= 0) || in.trace != firstTrace {
				return ev.V("C20/overlapping-evaluations-interfere", "evaluation started from inside a step (%d): verdict %v trace %q, an evaluation of its own gives %v %q", k, in.failed, in.trace, first >= 0, firstTrace)
			}
		}
	}
	return nil
}

// the canonical step variants used by the exhaustive enumeration
var c20Variants = []C20Step{
	{Kind: kNotEmpty, Value: "x"},
	{Kind: kNotEmpty, Value: ""},
	{Kind: kValuesNotEmpty, Values: []string{"a", "b"}},
	{Kind: kValuesNotEmpty, Values: []string{"a", "", "b"}},
	{Kind: kLength, Value: "abcd", Min: 4, Max: 4},
	{Kind: kLength, Value: "abcd", Min: 0, Max: 3},
	{Kind: kEquals, Value: "a", Equal: "a"},
	{Kind: kEquals, Value: "a", Equal: "b"},
	{Kind: kEquals, Value: "a/", Equal: "a"},
	{Kind: kNotEmpty, Value: "", PanicCB: true},
	{Kind: kValueStep, Reenter: true},
	{Kind: kLogic, LogicErr: true, TypedNil: true},
	{Kind: kLogic, LogicErr: true, ErrKind: "wrapped-canceled"},
	{Kind: kCondNotEmpty, Cond: true, Value: "x"},
	{Kind: kCondNotEmpty, Cond: true, Value: ""},
	{Kind: kCondNotEmpty, Cond: false, Value: ""},
	{Kind: kCondLogic, Cond: true, LogicErr: false},
	{Kind: kCondLogic, Cond: true, LogicErr: true},
	{Kind: kCondLogic, Cond: false, LogicErr: true},
	{Kind: kLogic, LogicErr: false},
	{Kind: kLogic, LogicErr: true},
	{Kind: kValueStep},
}

func c20Nontrivial(steps []C20Step) bool {
	if len(steps) < 2 {
		return false
	}
	for i, s := range steps {
		if s.refFails() {
			return i < len(steps)-1
		}
	}
	return false
}

func TestC20Enum(t *testing.T) {
	col := ev.For("C20", "exploration", c20Rule)
	if testing.Short() {
		t.Skip()
	}
	maxLen := ev.EnvInt("VERIF_C20_MAXLEN", 4)
	runPlain(t, col, "TestC20", func(fail func(*ev.Violation, any)) {
		nv := len(c20Variants)
		workers := runtime.NumCPU()
		type job struct{ length, first int }
		jobs := make(chan job, 1024)
		var wg sync.WaitGroup
		var stopMu sync.Mutex
		stopped := false
		for w := 0; w < workers; w++ {
			wg.Add(1)
			go func() {
				defer wg.Done()
				for j := range jobs {
					evals, distinct := 0, 0
					idx := make([]int, j.length)
					steps := make([]C20Step, j.length)
					if j.length > 0 {
						idx[0] = j.first
					}
					for {
						for k := range idx {
							steps[k] = c20Variants[idx[k]]
						}
						evals++
						if c20Nontrivial(steps) {
							distinct++
						}
						if v := c20Check(steps); v != nil {
							cp := append([]C20Step(nil), steps...)
							fail(v, C20Case{Steps: cp})
							stopMu.Lock()
							stopped = true
							stopMu.Unlock()
						}
						// next (position 0 is fixed per job)
						k := j.length - 1
						for ; k >= 1; k-- {
							idx[k]++
							if idx[k] < nv {
								break
							}
							idx[k] = 0
						}
						if k < 1 {
							break
						}
					}
					col.AddDistinct(evals, distinct)
					stopMu.Lock()
					s := stopped
					stopMu.Unlock()
					if s {
						// drain
						for range jobs {
						}
						return
					}
				}
			}()
		}
		jobs <- job{0, 0}
		for l := 1; l <= maxLen; l++ {
			for f := 0; f < nv; f++ {
				jobs <- job{l, f}
			}
		}
		close(jobs)
		wg.Wait()
		col.SetExhaustive(true)
		col.SetExtra("enumerated_max_chain_length", maxLen)
		col.SetExtra("step_variants", nv)
		col.Sample(map[string]any{"enumerated": "all chains over the step variants", "variants": c20Variants, "max_length": maxLen})
	})
}

const c20Rule = "chains over the checker API: (a) every sequence of the 22 step variants (8 kinds x outcomes pass/fail/condition-false, plus an inequality by one trailing slash, a failing step whose callback panics, a step that evaluates the whole chain again from inside itself, a logic step failing with a typed-nil error value, and one failing with a wrapped context.Canceled) up to the stated length, enumerated exhaustively, each evaluated twice - the second time through a copy of the Checker value - (three times when a step re-enters: inner and outer evaluations must each look like an evaluation of their own); (b) rapid-generated chains up to length 40 with random strings (incl. pairs that differ only by a trailing slash or blank, by letter case, by a prefix), bounds (0 = no bound, min>max allowed), value lists, failure callbacks that panic and logic errors of the kinds storages and contexts hand out (cancellation, deadline, EOF, closed, not-exist, empty message). Non-trivial: length >= 2 with a failing step that is not the last. Enumerated chains are distinct by construction; generated chains are distinct by (kind, reference outcome) vector."

func genC20Step(t *rapid.T) C20Step {
	s := C20Step{Kind: rapid.IntRange(0, 7).Draw(t, "kind")}
	str := rapid.OneOf(rapid.Just(""), rapid.StringMatching(`[a-z ]{0,12}`), rapid.StringMatching(`[a-zA-Z/:. ]{1,12}`), rapid.SampledFrom([]string{"/", "https://idp.example/saml/SSO", "https://idp.example/saml/SSO/", " ", "a//", "\x00", "é", "日本語", "üüüü", "𝄞𝄞", "naïve café", "\xff\xfe", "e\u0301"}))
	s.PanicCB = rapid.IntRange(0, 5).Draw(t, "panic-in-callback") == 0
	s.TypedNil = rapid.IntRange(0, 3).Draw(t, "typednil") == 0
	s.NoName = rapid.IntRange(0, 3).Draw(t, "noname") == 0
	s.ErrKind = rapid.SampledFrom([]string{"", "", "", "canceled", "wrapped-canceled", "deadline", "eof", "unexpected-eof", "closed", "not-exist", "empty-message"}).Draw(t, "errkind")
	s.Reenter = (s.Kind == kLogic || s.Kind == kValueStep || s.Kind == kCondLogic) && rapid.IntRange(0, 3).Draw(t, "reenter") == 0
	switch s.Kind {
	case kNotEmpty:
		s.Value = str.Draw(t, "value")
	case kValuesNotEmpty:
		s.Values = rapid.SliceOfN(str, 0, 5).Draw(t, "values")
	case kLength:
		s.Value = str.Draw(t, "value")
		s.Min = rapid.IntRange(0, 14).Draw(t, "min")
		s.Max = rapid.IntRange(0, 14).Draw(t, "max")
		if n, r := len(s.Value), utf8.RuneCountInString(s.Value); n != r && rapid.Bool().Draw(t, "between-counts") {
			// a bound between the number of characters and the number of bytes: the documented length is len(), bytes
			if rapid.Bool().Draw(t, "which-bound") {
				s.Min, s.Max = rapid.IntRange(r+1, n).Draw(t, "min-between"), 0
			} else {
				s.Min, s.Max = 0, rapid.IntRange(r, n-1).Draw(t, "max-between")
			}
		}
	case kEquals:
		s.Value = str.Draw(t, "value")
		switch rapid.IntRange(0, 3).Draw(t, "same") {
		case 0, 1:
			s.Equal = s.Value
		case 2:
			s.Equal = str.Draw(t, "equal")
		default:
			// nearly equal: one side with a trailing slash / blank / NUL, other letter case, a prefix of the other
			near := rapid.SampledFrom([]string{"slash", "slash-left", "blank", "nul", "upper", "prefix", "lead-blank", "same-length"}).Draw(t, "near")
			switch near {
			case "slash":
				s.Equal = s.Value + "/"
			case "slash-left":
				s.Equal, s.Value = s.Value, s.Value+"/"
			case "blank":
				s.Equal = s.Value + " "
			case "nul":
				s.Equal = s.Value + "\x00"
			case "upper":
				s.Equal = strings.ToUpper(s.Value)
			case "prefix":
				if len(s.Value) > 0 {
					s.Equal = s.Value[:len(s.Value)-1]
				} else {
					s.Equal = "x"
				}
			case "lead-blank":
				s.Equal = " " + s.Value
			case "same-length":
				// different strings of one length whose byte differences cancel in sums, xors, hashes of few bits: 8 letters in
				// the other case, 4 bytes with bit 0x40 flipped, 2 with bit 0x80, two characters swapped
				pair := rapid.SampledFrom([][2]string{{"ABCDEFGH", "abcdefgh"}, {"https://IDP.example.com/SAML/Sso", "https://idp.example.com/saml/sso"}, {"id-aaaa", "id-!!!!"}, {"n\xc3\xa4me", "nC$me"}, {"ab", "ba"}, {"a\x00b", "a b"}, {"\x01\xff", "\xff\x01"}}).Draw(t, "same-length-pair")
				s.Value, s.Equal = pair[0], pair[1]
			}
		}
	case kCondNotEmpty:
		s.Cond = rapid.Bool().Draw(t, "cond")
		s.Value = str.Draw(t, "value")
	case kCondLogic:
		s.Cond = rapid.Bool().Draw(t, "cond")
		s.LogicErr = rapid.Bool().Draw(t, "err")
	case kLogic:
		s.LogicErr = rapid.IntRange(0, 3).Draw(t, "err") == 0
	}
	return s
}

func TestC20(t *testing.T) {
	col := ev.For("C20", "exploration", c20Rule)
	searchRapid(t, col,
		func(t *rapid.T) C20Case {
			c := C20Case{Steps: rapid.SliceOfN(rapid.Custom(genC20Step), 0, 40).Draw(t, "steps")}
			if rapid.Bool().Draw(t, "changing-inputs") {
				c.Alt = c20Alt(t, c.Steps)
			}
			return c
		},
		func(c C20Case) []*ev.Violation {
			v := c20Check(c.Steps)
			if v == nil && len(c.Alt) == len(c.Steps) {
				v = c20CheckChanging(c.Steps, c.Alt)
			}
			vec := make([]string, len(c.Steps))
			for i, s := range c.Steps {
				vec[i] = fmt.Sprintf("%d%v", s.Kind, s.refFails())
			}
			cls := "rapid/pass"
			if c20Nontrivial(c.Steps) {
				cls = "rapid/fail-before-last"
			}
			col.Case(c20Nontrivial(c.Steps), ev.Fingerprint(vec), []string{cls}, func() any { return c })
			return []*ev.Violation{v}
		})
}

// c20CheckChanging evaluates ONE chain over changing inputs: first with the outcomes of steps, then with those of alt (same
// kinds and bounds, other values / conditions / logic results), then with steps again. Every evaluation is judged by the
// inputs of its moment: which step fails first, that its callback runs once and last, and that nothing after it runs.
func c20CheckChanging(steps, alt []C20Step) *ev.Violation {
	tr := &c20Trace{noEnter: true}
	cur := steps
	c := c20BuildOn(steps, &cur, tr)
	for round, params := range [][]C20Step{steps, alt, steps, alt} {
		cur = params
		first := -1
		for i, s := range params {
			if s.refFails() {
				first = i
				break
			}
		}
		tr.ev = tr.ev[:0]
		got := c20Eval(c, tr)
		if got != (first >= 0) {
			return ev.V("C20/verdict", "evaluation %d over changed inputs: CheckFailed=%v, reference says first failing step=%d; trace %s", round, got, first, tr)
		}
		ncb := 0
		for _, e := range tr.ev {
			if first >= 0 && e.step > first {
				return ev.V("C20/ran-after-failure", "evaluation %d over changed inputs: step %d ran although step %d failed; trace %s", round, e.step, first, tr)
			}
			if e.what == 'e' {
				ncb++
				if e.step != first {
					return ev.V("C20/callback-count", "evaluation %d over changed inputs: failure callback of step %d ran, first failing step is %d; trace %s", round, e.step, first, tr)
				}
			}
		}
		if (first >= 0 && ncb != 1) || (first < 0 && ncb != 0) {
			return ev.V("C20/callback-count", "evaluation %d over changed inputs: %d failure callbacks; trace %s", round, ncb, tr)
		}
		if first < 0 {
			// every logic / value step ran
			for i, s := range params {
				if s.Kind == kLogic || s.Kind == kValueStep || (s.Kind == kCondLogic && s.Cond) {
					ran := false
					for _, e := range tr.ev {
						ran = ran || (e.step == i && e.what == 'l')
					}
					if !ran {
						return ev.V("C20/logic-count", "evaluation %d over changed inputs: step %d did not run although no step failed; trace %s", round, i, tr)
					}
				}
			}
		}
	}
	return nil
}

// c20Alt derives the alternative inputs of a chain: per step the other outcome where the kind has one.
func c20Alt(t *rapid.T, steps []C20Step) []C20Step {
	alt := append([]C20Step(nil), steps...)
	for i := range alt {
		if !rapid.Bool().Draw(t, "alt-flip") {
			continue
		}
		switch alt[i].Kind {
		case kNotEmpty:
			alt[i].Value = map[bool]string{true: "", false: "now-set"}[alt[i].Value != ""]
		case kValuesNotEmpty:
			if len(alt[i].Values) > 0 && alt[i].Values[0] != "" {
				alt[i].Values = append([]string{""}, alt[i].Values...)
			} else {
				alt[i].Values = []string{"a"}
			}
		case kLength:
			alt[i].Value = alt[i].Value + alt[i].Value + "xxxxxxxxxxxxxxxx"
		case kEquals:
			if alt[i].Value == alt[i].Equal {
				alt[i].Equal += "-other"
			} else {
				alt[i].Equal = alt[i].Value
			}
		case kCondNotEmpty, kCondLogic:
			if rapid.Bool().Draw(t, "alt-cond") {
				alt[i].Cond = !alt[i].Cond
			} else {
				alt[i].LogicErr = !alt[i].LogicErr
				alt[i].Value = map[bool]string{true: "", false: "now-set"}[alt[i].Value != ""]
			}
		case kLogic:
			alt[i].LogicErr = !alt[i].LogicErr
		}
	}
	return alt
}
