package props

// C09 — No input crashes a handler or the SP-registration API.
//
// Oracle: recover() around Provider.HttpHandler().ServeHTTP and around
// serviceprovider.NewServiceProvider returns nil. A service provider that could be registered
// is then used on every endpoint and must not crash there either.

import (
	"crypto/dsa"
	"crypto/sha1"
	"crypto/sha256"
	"encoding/asn1"
	"encoding/base64"
	"fmt"
	"math/big"
	"os"
	"regexp"
	"runtime"
	"strings"
	"sync"
	"testing"
	"time"

	"github.com/zitadel/saml/pkg/provider/serviceprovider"
	"pgregory.net/rapid"

	"verif/harness/ev"
	"verif/harness/obs"
	"verif/harness/spsim"
	"verif/harness/world"
	"verif/harness/xt"
)

const c09Rule = "(1) every single and every pairwise structural edit (delete / duplicate / empty each element and attribute) of valid, fully populated AuthnRequest (signed and unsigned, POST and Redirect), LogoutRequest and SOAP AttributeQuery messages; (2) every SigAlg URI x registered key type (RSA, ECDSA, Ed25519, DSA - the DSA certificate is hand-assembled DER) x signature blob shape (DER (r,s) of several sizes and signs, a signature that is valid under the DSA key, random bytes, one byte, bad base64, empty); (3) rapid byte-level mutations and parameter soups on all routed endpoints and methods; (4) single and pairwise structural edits and certificate variants of SP metadata through NewServiceProvider, each registered SP then used on every endpoint. Oracle: no panic. Non-trivial: the submitted payload still decodes (well-formed XML with the expected document element reaches the handler's field accesses) or, for metadata, registration succeeded. Distinct by (family, edit set) / (endpoint, mutation kind)."

type C09Case struct {
	Kind string        `json:"kind"` // http | spmeta
	Spec world.Spec    `json:"spec"`
	Req  obs.HTTPReq   `json:"req,omitempty"`
	Meta string        `json:"sp_metadata,omitempty"`
	Note string        `json:"note,omitempty"`
	Uses []obs.HTTPReq `json:"uses,omitempty"`
}

func c09Spec() world.Spec {
	s := stdSpec()
	s.Users[0].Custom = append(s.Users[0].Custom, world.CustomAttr{Name: "groups0", NameFormat: "urn:oasis:names:tc:SAML:2.0:attrname-format:basic", Values: []string{"admin", "user", "billing", "user", ""}})
	ec := stdSP(3)
	ec.KeyNames = []string{"sp-ecdsa"}
	ed := stdSP(4)
	ed.KeyNames = []string{"sp-ed25519"}
	art := stdSP(5)
	art.ACS = []world.ACSSpec{acs(world.BindArtifact, "https://sp5.example/acs/artifact", "0", A)}
	noslo := stdSP(6)
	noslo.SLO = nil
	dsaSP := stdSP(7)
	dsaSP.KeyNames = []string{"sp-dsa"}
	// DSA keys of the larger parameter sizes (L=2048 with N=224 / N=256): q is longer than a SHA-1 digest
	dsa224, dsa256 := stdSP(8), stdSP(9)
	dsa224.KeyNames, dsa256.KeyNames = []string{"sp-dsa-224"}, []string{"sp-dsa-256"}
	s.SPs = append(s.SPs, ec, ed, art, noslo, dsaSP, dsa224, dsa256)
	s.Requests = []world.RequestSpec{
		{ID: "req-pending", AppID: "app-0", RelayState: "rs-pending", ACS: "https://sp0.example/acs/post", Binding: world.BindPost, AuthRequestID: "_authn1"},
		{ID: "req-done-post", AppID: "app-0", RelayState: "rs-done", ACS: "https://sp0.example/acs/post", Binding: world.BindPost, AuthRequestID: "_authn2", UserID: "uid-0", Done: true},
		{ID: "req-done-redirect", AppID: "app-0", RelayState: "rs-done2", ACS: "https://sp0.example/acs/redirect", Binding: world.BindRedirect, AuthRequestID: "_authn3", UserID: "uid-1", Done: true},
		{ID: "req-done-odd", AppID: "app-5", RelayState: "", ACS: "", Binding: world.BindArtifact, AuthRequestID: "", UserID: "uid-1", Done: true},
		// consumer URLs that net/url refuses, persisted for both bindings and both states
		{ID: "req-done-badurl-redirect", AppID: "app-0", RelayState: "rs", ACS: xt.EvilURL, Binding: world.BindRedirect, AuthRequestID: "_authn5", UserID: "uid-0", Done: true},
		{ID: "req-done-badurl-post", AppID: "app-0", RelayState: "rs", ACS: "https://sp.example/100%/acs", Binding: world.BindPost, AuthRequestID: "_authn6", UserID: "uid-0", Done: true},
		{ID: "req-pending-badurl-redirect", AppID: "app-0", RelayState: "rs", ACS: "http://a b/%zz", Binding: world.BindRedirect, AuthRequestID: "_authn7"},
	}
	return s
}

// c09Do runs one request and reports a panic or a request that never ends as a violation.
func c09Do(w *world.World, r obs.HTTPReq) *ev.Violation {
	rep, hang := doTerminating(w, r)
	if hang != "" {
		key, what, _ := strings.Cut(hang, "\x00")
		return ev.V("C09/"+key, "%s", what)
	}
	if rep.Panic != "" {
		v := ev.V("C09/panic:"+rep.PanicSite(), "handler panicked: %s", short(rep.Panic, 160))
		v.Detail = map[string]any{"stack": short(rep.Stack, 3000)}
		return v
	}
	return nil
}

// doTerminating serves one request and watches that it ends ("processing terminates"): the input is a few kilobytes and a
// request takes about a millisecond. If the handler has not returned after 30 s, its goroutine is looked up in two stack
// dumps 10 s apart. Still on the CPU inside zitadel/saml in the same function: it is not waiting for anything and will not
// finish ("does-not-terminate:<function>"). Every goroutine inside zitadel/saml parked on a channel or lock, the same ones
// both times: nothing in the process can release them ("blocked-forever"). Anything else that is slow is inconclusive
// (reported as a harness failure line, not as a violation). hang is "" or key NUL description.
func doTerminating(w *world.World, r obs.HTTPReq) (rep obs.Reply, hang string) {
	done := make(chan obs.Reply, 1)
	go func() { done <- obs.Do(w.Handler, r) }()
	select {
	case rep = <-done:
		return rep, ""
	case <-time.After(30 * time.Second):
	}
	f1, running1 := c09Spinning()
	g1, parked1, sample := c15Blocked()
	time.Sleep(10 * time.Second)
	f2, running2 := c09Spinning()
	g2, parked2, _ := c15Blocked()
	select {
	case rep = <-done:
		fmt.Println("HARNESS-FAILURE request needed more than 30s (inconclusive)")
		return rep, ""
	default:
	}
	if running1 && running2 && f1 != "" && f1 == f2 {
		return rep, "does-not-terminate:" + f1 + "\x00" + fmt.Sprintf("the handler has been running for 40 s on a request of %d bytes and is still executing %s (on the CPU, not waiting)", len(r.RawQuery)+len(r.Body), f1)
	}
	same := len(g1) == len(g2) && len(g1) > 0
	for id, st := range g1 {
		if g2[id] != st {
			same = false
		}
	}
	if parked1 && parked2 && same {
		return rep, "blocked-forever\x00" + fmt.Sprintf("%s %s has not been answered for 40 s: every goroutine inside the provider is parked (%s) and nothing is running that could release them", r.Method, r.Path, sample)
	}
	fmt.Println("HARNESS-FAILURE request did not return within 40s (inconclusive)")
	return rep, ""
}

var reGoState = regexp.MustCompile(`(?m)^goroutine \d+ \[([^\],]+)`)

// c09Spinning finds the goroutine that serves the request (obs.DoOpt on its stack) and reports the innermost zitadel/saml
// function it is in and whether it is on the CPU (running / runnable) rather than parked.
func c09Spinning() (fn string, running bool) {
	buf := make([]byte, 4<<20)
	buf = buf[:runtime.Stack(buf, true)]
	for _, g := range strings.Split(string(buf), "\n\n") {
		if !strings.Contains(g, "harness/obs.DoOpt") || !strings.Contains(g, "github.com/zitadel/saml/pkg/") {
			continue
		}
		m := reGoState.FindStringSubmatch(g)
		if m == nil {
			continue
		}
		for _, line := range strings.Split(g, "\n") {
			if strings.HasPrefix(line, "github.com/zitadel/saml/pkg/") {
				fn = strings.TrimPrefix(line[:strings.LastIndex(line, "(")], "github.com/zitadel/saml/pkg/")
				break
			}
		}
		return fn, m[1] == "running" || m[1] == "runnable"
	}
	return "", false
}

// ---- message families ----

func c09FullAuthn(issuer string) spsim.AuthnReq {
	r := spsim.NewAuthnReq("_c09authn", issuer)
	r.Destination = "https://idp.example/saml/SSO"
	r.Consent = "urn:oasis:names:tc:SAML:2.0:consent:unspecified"
	r.ProtocolBinding = world.BindPost
	r.ACSURL = "https://sp0.example/acs/post"
	r.ACSIndex = "1"
	r.AttrConsumingIndex = "0"
	r.ProviderName = "Provider"
	r.ForceAuthn = "false"
	r.IsPassive = "false"
	r.IssuerFormat = "urn:oasis:names:tc:SAML:2.0:nameid-format:entity"
	r.NameIDPolicy = &spsim.NameIDPolicy{Format: "urn:oasis:names:tc:SAML:2.0:nameid-format:persistent", AllowCreate: "true", SPNameQualifier: issuer}
	r.Conditions = &spsim.Conditions{NotBefore: instant(-time.Hour, 0), NotOnOrAfter: instant(24*time.Hour, 0)}
	r.RAC = &spsim.RAC{Comparison: "exact", ClassRefs: []string{"urn:oasis:names:tc:SAML:2.0:ac:classes:Password", "urn:oasis:names:tc:SAML:2.0:ac:classes:X509"}}
	r.Extensions = true
	r.Scoping = true
	r.Subject = "someone@users.example"
	return r
}

func c09FullLogout(issuer string) spsim.LogoutReq {
	r := spsim.NewLogoutReq("_c09logout", issuer, "usermark0")
	r.Destination = "https://idp.example/saml/SLO"
	r.NotOnOrAfter = instant(24*time.Hour, 0)
	r.Reason = "urn:oasis:names:tc:SAML:2.0:logout:user"
	r.NameIDFormat = "urn:oasis:names:tc:SAML:1.1:nameid-format:emailAddress"
	r.SessionIndex = []string{"_sess1", "_sess2"}
	return r
}

func c09FullQuery(issuer string) spsim.AttrQuery {
	q := spsim.NewAttrQuery("_c09query", issuer, "login0@users.example")
	q.Destination = "https://idp.example/saml/attribute"
	q.Attrs = []spsim.QAttr{
		{Name: "Email", NameFormat: "urn:oasis:names:tc:SAML:2.0:attrname-format:basic", FriendlyName: "mail"},
		{Name: "custom0", NameFormat: "urn:oasis:names:tc:SAML:2.0:attrname-format:basic", FriendlyName: A, Values: []string{"cvalmark0-a", "nobody-has-this-value"}},
		{Name: "custom0", NameFormat: "urn:oasis:names:tc:SAML:2.0:attrname-format:basic", FriendlyName: A, Values: []string{"nobody-has-this-value"}},
		{Name: "groups0", NameFormat: "urn:oasis:names:tc:SAML:2.0:attrname-format:basic", FriendlyName: A, Values: []string{"admin"}},
	}
	return q
}

type c09Family struct {
	Name string
	Tree *xt.Node
	Send func(*xt.Node) obs.HTTPReq
}

func c09Families(cfg world.IdPConfig) []c09Family {
	var out []c09Family
	sign := spsim.Signing{Alg: world.AlgRSASHA256, KeyName: "sp-a", KeyInfo: true, DSPrefix: "ds"}
	wr := func(n *xt.Node) []byte { return xt.Write(n, plainStyle.W) }
	for _, sp := range []int{0, 1} {
		issuer := stdSP(sp).EntityID
		for _, signed := range []bool{false, true} {
			tree := c09FullAuthn(issuer).Tree(plainStyle)
			if signed {
				s := sign
				s.KeyName = stdSP(sp).KeyNames[0]
				if err := spsim.SignTree(tree, s); err != nil {
					panic(err)
				}
			}
			for _, b := range []string{"post", "redirect"} {
				b := b
				name := fmt.Sprintf("authn/sp%d/signed=%v/%s", sp, signed, b)
				var rsign *spsim.Signing
				if b == "redirect" && signed {
					rsign = &spsim.Signing{Alg: world.AlgRSASHA256, KeyName: stdSP(sp).KeyNames[0]}
				}
				out = append(out, c09Family{name, tree, func(n *xt.Node) obs.HTTPReq {
					req, _, err := spsim.Encode(route(cfg, "sso"), wr(n), spsim.Transport{Binding: b, Encoding: A, RelayState: "rs"}, rsign)
					if err != nil {
						panic(err)
					}
					return req
				}})
			}
		}
	}
	for _, spn := range []int{2, 3, 4, 5, 6} {
		issuer := stdSP(spn).EntityID
		for _, pb := range []string{A, world.BindPost, world.BindArtifact} {
			a := spsim.NewAuthnReq("_c09shape", issuer)
			a.ProtocolBinding = pb
			tree := a.Tree(plainStyle)
			for _, b := range []string{"post", "redirect"} {
				b := b
				out = append(out, c09Family{fmt.Sprintf("authn/sp%d/pb=%s/%s", spn, shortBinding(pb), b), tree, func(n *xt.Node) obs.HTTPReq {
					req, _, err := spsim.Encode(route(cfg, "sso"), wr(n), spsim.Transport{Binding: b, Encoding: A, RelayState: "rs"}, nil)
					if err != nil {
						panic(err)
					}
					return req
				}})
			}
		}
	}
	lt := c09FullLogout(stdSP(0).EntityID).Tree(plainStyle)
	out = append(out, c09Family{"logout/post", lt, func(n *xt.Node) obs.HTTPReq {
		req, _, _ := spsim.Encode(route(cfg, "slo"), wr(n), spsim.Transport{Binding: "post", Encoding: A, RelayState: "rs"}, nil)
		return req
	}})
	out = append(out, c09Family{"logout/redirect", lt, func(n *xt.Node) obs.HTTPReq {
		req, _, _ := spsim.Encode(route(cfg, "slo"), wr(n), spsim.Transport{Binding: "redirect", Encoding: spsim.EncodingDeflate, RelayState: "rs"}, nil)
		return req
	}})
	lt6 := c09FullLogout(stdSP(6).EntityID).Tree(plainStyle)
	out = append(out, c09Family{"logout/noslo", lt6, func(n *xt.Node) obs.HTTPReq {
		req, _, _ := spsim.Encode(route(cfg, "slo"), wr(n), spsim.Transport{Binding: "post", Encoding: A, RelayState: A}, nil)
		return req
	}})
	for _, signed := range []bool{false, true} {
		q := c09FullQuery(stdSP(0).EntityID).QueryTree(plainStyle)
		if signed {
			if err := spsim.SignTree(q, sign); err != nil {
				panic(err)
			}
		}
		env := spsim.Envelope(q, "soap")
		out = append(out, c09Family{fmt.Sprintf("attrquery/signed=%v", signed), env, func(n *xt.Node) obs.HTTPReq {
			req, _, _ := spsim.Encode(route(cfg, "attribute"), wr(n), spsim.Transport{Binding: "soap"}, nil)
			return req
		}})
	}
	return out
}

// parallelEach runs f(i) for i in [0,n) on all cores; f gets a per-worker world.
func parallelEach(n int, spec world.Spec, f func(w *world.World, i int)) {
	var wg sync.WaitGroup
	ch := make(chan int, 256)
	for k := 0; k < runtime.NumCPU(); k++ {
		wg.Add(1)
		go func() {
			defer wg.Done()
			w := mustBuild(spec)
			for i := range ch {
				f(w, i)
			}
		}()
	}
	for i := 0; i < n; i++ {
		ch <- i
	}
	close(ch)
	wg.Wait()
}

func c09WellFormed(n *xt.Node) bool {
	// duplicated attributes make the document ill-formed; everything else the writer emits is well-formed
	ok := true
	n.Walk(func(e *xt.Node) {
		seen := map[string]bool{}
		for _, a := range e.Attrs {
			k := a.Space + " " + a.Local
			if seen[k] {
				ok = false
			}
			seen[k] = true
		}
	})
	return ok
}

func TestC09Struct(t *testing.T) {
	col := ev.For("C09", "exploration", c09Rule)
	spec := c09Spec()
	pairsMode := ev.Tier() == "thorough" || ev.EnvInt("VERIF_C09_ALLPAIRS", 0) == 1
	samplePairs := ev.EnvInt("VERIF_C09_SAMPLEPAIRS", 4000)
	runPlain(t, col, "TestC09", func(fail func(*ev.Violation, any)) {
		for _, fam := range c09Families(spec.IdP) {
			fam := fam
			sites := xt.Sites(fam.Tree)
			ns := len(sites)
			type job struct{ edits []xt.Edit }
			var jobs []job
			jobs = append(jobs, job{nil})
			for i := 0; i < ns; i++ {
				for _, op := range xt.EditOps {
					jobs = append(jobs, job{[]xt.Edit{{Site: i, Op: op}}})
				}
			}
			nSingles := len(jobs)
			if pairsMode {
				for i := 0; i < ns; i++ {
					for j := i + 1; j < ns; j++ {
						for _, o1 := range xt.EditOps {
							for _, o2 := range xt.EditOps {
								jobs = append(jobs, job{[]xt.Edit{{Site: i, Op: o1}, {Site: j, Op: o2}}})
							}
						}
					}
				}
			} else {
				// deterministic sample of pairs derived from VERIF_SEED (no RNG: a stride walk over the pair space)
				nops := len(xt.EditOps)
				total := ns * (ns - 1) / 2 * nops * nops
				per := samplePairs / 44
				if per > total {
					per = total
				}
				if total > 0 {
					stride := total/maxInt(per, 1) + 1
					off := int(ev.Seed()) % stride
					if off < 0 {
						off = -off
					}
					k := 0
					for i := 0; i < ns; i++ {
						for j := i + 1; j < ns; j++ {
							for a := 0; a < nops; a++ {
								for b := 0; b < nops; b++ {
									if k%stride == off {
										jobs = append(jobs, job{[]xt.Edit{{Site: i, Op: xt.EditOps[a]}, {Site: j, Op: xt.EditOps[b]}}})
									}
									k++
								}
							}
						}
					}
				}
			}
			var mu sync.Mutex
			nontrivial := 0
			parallelEach(len(jobs), spec, func(w *world.World, i int) {
				tree, desc := xt.ApplyEdits(fam.Tree, jobs[i].edits)
				if tree == nil {
					return
				}
				req := fam.Send(tree)
				if c09WellFormed(tree) {
					mu.Lock()
					nontrivial++
					mu.Unlock()
				}
				if v := c09Do(w, req); v != nil {
					fail(v, C09Case{Kind: "http", Spec: spec, Req: req, Note: fam.Name + " " + strings.Join(desc, " + ")})
				}
			})
			col.AddDistinct(len(jobs), nontrivial)
			col.Count("struct/"+fam.Name, len(jobs))
			col.Count("struct-singles", nSingles)
			col.Count("struct-pairs", len(jobs)-nSingles)
			if fam.Name == "authn/sp0/signed=true/post" || fam.Name == "attrquery/signed=false" {
				tree, desc := xt.ApplyEdits(fam.Tree, jobs[len(jobs)/2].edits)
				if tree != nil {
					col.Sample(map[string]any{"family": fam.Name, "edits": desc, "xml": short(string(xt.Write(tree, plainStyle.W)), 600)})
				}
			}
		}
		col.SetExtra("pairs_exhaustive", pairsMode)
	})
}

func maxInt(a, b int) int {
	if a > b {
		return a
	}
	return b
}

// ---- SigAlg x key type matrix ----

var c09SigAlgs = []string{
	world.AlgRSASHA1, world.AlgRSASHA256, world.AlgRSASHA512,
	"http://www.w3.org/2000/09/xmldsig#dsa-sha1", "http://www.w3.org/2009/xmldsig11#dsa-sha256",
	"http://www.w3.org/2001/04/xmldsig-more#ecdsa-sha256", "http://www.w3.org/2001/04/xmldsig-more#ecdsa-sha1",
	"http://www.w3.org/2001/04/xmldsig-more#rsa-sha384", "urn:example:unknown-alg", "",
}

func c09SigBlobs() map[string]string {
	der := func(r, s int64) string {
		b, _ := asn1.Marshal(struct{ R, S *big.Int }{big.NewInt(r), big.NewInt(s)})
		return base64.StdEncoding.EncodeToString(b)
	}
	big1, _ := new(big.Int).SetString("123456789012345678901234567890123456789012345678", 10)
	bb, _ := asn1.Marshal(struct{ R, S *big.Int }{big1, big1})
	return map[string]string{
		"der-small":   der(5, 7),
		"der-big":     base64.StdEncoding.EncodeToString(bb),
		"der-zero":    der(0, 0),
		"der-neg":     der(-3, 4),
		"random256":   base64.StdEncoding.EncodeToString([]byte(strings.Repeat("\x5a\xa5\x01\xfe", 64))),
		"one-byte":    "AA==",
		"not-base64":  "!!!not base64!!!",
		"empty":       "",
		"der-trailer": der(5, 7) + "AAAA",
		"dsa-valid":   "@dsa-valid",
	}
}

// c09DSASign signs the octets with the sp-dsa key (SHA-256 digest for the dsa-sha256 URI, SHA-1 otherwise), DER (r, s), base64.
func c09DSASign(octets, alg string) string { return c09DSASignWith("sp-dsa", octets, alg) }

func c09DSASignWith(keyName, octets, alg string) string {
	var sum []byte
	if strings.Contains(alg, "sha256") {
		h := sha256.Sum256([]byte(octets))
		sum = h[:]
	} else {
		h := sha1.Sum([]byte(octets))
		sum = h[:]
	}
	r, s, err := dsa.Sign(c09Rand{}, world.Key(keyName).DSA, sum)
	if err != nil {
		panic(err)
	}
	b, _ := asn1.Marshal(struct{ R, S *big.Int }{r, s})
	return base64.StdEncoding.EncodeToString(b)
}

// c09Rand is a fixed byte stream: the nonce need not be secret here and the run must not depend on an outside random source.
type c09Rand struct{}

func (c09Rand) Read(p []byte) (int, error) {
	for i := range p {
		p[i] = byte(0x3c + i*7)
	}
	return len(p), nil
}

func TestC09SigAlg(t *testing.T) {
	col := ev.For("C09", "exploration", c09Rule)
	spec := c09Spec()
	runPlain(t, col, "TestC09", func(fail func(*ev.Violation, any)) {
		w := mustBuild(spec)
		n, nt := 0, 0
		for _, spn := range []int{0, 1, 2, 3, 4, 7, 8, 9} {
			xmlb := xt.Write(spsim.NewAuthnReq("_sigalg", stdSP(spn).EntityID).Tree(plainStyle), plainStyle.W)
			msg := base64.StdEncoding.EncodeToString(spsim.Deflate(xmlb))
			for _, alg := range c09SigAlgs {
				for blobName, blob := range c09SigBlobs() {
					for _, rs := range []string{"", "&RelayState=rs"} {
						for _, where := range []string{"query", "body"} {
							blob := blob
							if blob == "@dsa-valid" {
								// what an SP holding the registered DSA key would send for this query
								keyName := "sp-dsa"
								if spn >= 7 {
									keyName = spec.SPs[spn].KeyNames[0]
								}
								blob = c09DSASignWith(keyName, "SAMLRequest="+qesc(msg)+rs+"&SigAlg="+qesc(alg), alg)
							}
							q := "SAMLRequest=" + qesc(msg) + rs + "&SigAlg=" + qesc(alg) + "&Signature=" + qesc(blob)
							req := obs.HTTPReq{Method: "GET", Path: route(spec.IdP, "sso"), RawQuery: q}
							if where == "body" {
								// SAMLRequest in the URL decides the binding; the signature parameters travel in the body
								req = obs.HTTPReq{Method: "POST", Path: route(spec.IdP, "sso"), RawQuery: "SAMLRequest=" + qesc(msg),
									ContentType: "application/x-www-form-urlencoded", Body: "SigAlg=" + qesc(alg) + "&Signature=" + qesc(blob) + rs}
							}
							n++
							if alg != "" && blob != "" {
								nt++
							}
							if v := c09Do(w, req); v != nil {
								fail(v, C09Case{Kind: "http", Spec: spec, Req: req, Note: fmt.Sprintf("sigalg matrix sp%d alg=%s blob=%s", spn, alg, blobName)})
							}
							if blobName == "dsa-valid" && spn >= 7 && strings.Contains(alg, "dsa-sha") && !strings.Contains(alg, "ecdsa") && where == "query" {
								// reach check: the DSA verification itself runs and succeeds for the genuine signature
								if obs.Do(w.Handler, req).Status == 303 {
									col.Count("sigalg-matrix/genuine-dsa-signature-accepted", 1)
								} else {
									col.Count("sigalg-matrix/genuine-dsa-signature-refused", 1)
									if os.Getenv("VERIF_DEBUG") != "" {
										fmt.Printf("DSA refused: alg=%s rs=%q body=%s\n", alg, rs, short(string(obs.Do(w.Handler, req).Body), 300))
									}
								}
							}
						}
					}
				}
			}
		}
		col.AddDistinct(n, nt)
		col.Count("sigalg-matrix", n)
	})
}

// ---- SP metadata ----

func c09FullMetadata() *xt.Node {
	md := world.NSMD
	ed := xt.NewElem("md", md, "EntityDescriptor").Declare("md", md).Declare("ds", world.NSDS)
	ed.SetAttr("entityID", "https://edited.example/sp").SetAttr("ID", "_md1").SetAttr("validUntil", "2099-01-01T00:00:00Z").SetAttr("cacheDuration", "PT1H")
	sso := xt.NewElem("md", md, "SPSSODescriptor").SetAttr("AuthnRequestsSigned", "true").SetAttr("WantAssertionsSigned", "true").SetAttr("protocolSupportEnumeration", world.NSSAMLP)
	for _, use := range []string{"signing", "encryption"} {
		kd := xt.NewElem("md", md, "KeyDescriptor").SetAttr("use", use)
		ki := xt.NewElem("ds", world.NSDS, "KeyInfo")
		ki.Add(xt.NewElem("ds", world.NSDS, "KeyName").AddText("k"))
		ki.Add(xt.NewElem("ds", world.NSDS, "X509Data").Add(xt.NewElem("ds", world.NSDS, "X509Certificate").AddText(world.Key("sp-a").CertB64())))
		kd.Add(ki)
		if use == "encryption" {
			kd.Add(xt.NewElem("md", md, "EncryptionMethod").SetAttr("Algorithm", "http://www.w3.org/2001/04/xmlenc#aes128-cbc"))
		}
		sso.Add(kd)
	}
	sso.Add(xt.NewElem("md", md, "SingleLogoutService").SetAttr("Binding", world.BindPost).SetAttr("Location", "https://edited.example/slo").SetAttr("ResponseLocation", "https://edited.example/slo-r"))
	sso.Add(xt.NewElem("md", md, "NameIDFormat").AddText("urn:oasis:names:tc:SAML:1.1:nameid-format:emailAddress"))
	sso.Add(xt.NewElem("md", md, "AssertionConsumerService").SetAttr("Binding", world.BindPost).SetAttr("Location", "https://edited.example/acs").SetAttr("index", "0").SetAttr("isDefault", "true"))
	sso.Add(xt.NewElem("md", md, "AssertionConsumerService").SetAttr("Binding", world.BindRedirect).SetAttr("Location", "https://edited.example/acs2").SetAttr("index", "1"))
	acsv := xt.NewElem("md", md, "AttributeConsumingService").SetAttr("index", "0")
	acsv.Add(xt.NewElem("md", md, "ServiceName").AddText("svc"))
	acsv.Add(xt.NewElem("md", md, "RequestedAttribute").SetAttr("Name", "Email").SetAttr("isRequired", "true"))
	sso.Add(acsv)
	ed.Add(sso)
	org := xt.NewElem("md", md, "Organization")
	org.Add(xt.NewElem("md", md, "OrganizationName").AddText("Org"))
	org.Add(xt.NewElem("md", md, "OrganizationDisplayName").AddText("Org"))
	org.Add(xt.NewElem("md", md, "OrganizationURL").AddText("https://edited.example"))
	ed.Add(org)
	cp := xt.NewElem("md", md, "ContactPerson").SetAttr("contactType", "technical")
	cp.Add(xt.NewElem("md", md, "GivenName").AddText("G"))
	cp.Add(xt.NewElem("md", md, "EmailAddress").AddText("mailto:x@edited.example"))
	ed.Add(cp)
	return ed
}

// c09Uses builds the requests that exercise a freshly registered service provider.
func c09Uses(cfg world.IdPConfig) []obs.HTTPReq {
	issuer := "https://edited.example/sp"
	var out []obs.HTTPReq
	wr := func(n *xt.Node) []byte { return xt.Write(n, plainStyle.W) }
	a := spsim.NewAuthnReq("_use1", issuer)
	req, _, _ := spsim.Encode(route(cfg, "sso"), wr(a.Tree(plainStyle)), spsim.Transport{Binding: "post", Encoding: A, RelayState: "rs"}, nil)
	out = append(out, req)
	req, _, _ = spsim.Encode(route(cfg, "sso"), wr(a.Tree(plainStyle)), spsim.Transport{Binding: "redirect", Encoding: A, RelayState: "rs"}, &spsim.Signing{Alg: world.AlgRSASHA256, KeyName: "sp-a"})
	out = append(out, req)
	signed := a.Tree(plainStyle)
	if err := spsim.SignTree(signed, spsim.Signing{Alg: world.AlgRSASHA1, KeyName: "sp-a", KeyInfo: true, DSPrefix: "ds"}); err != nil {
		panic(err)
	}
	req, _, _ = spsim.Encode(route(cfg, "sso"), wr(signed), spsim.Transport{Binding: "post", Encoding: A, RelayState: A}, nil)
	out = append(out, req)
	a2 := a
	a2.ProtocolBinding = world.BindRedirect
	req, _, _ = spsim.Encode(route(cfg, "sso"), wr(a2.Tree(plainStyle)), spsim.Transport{Binding: "redirect", Encoding: A, RelayState: A}, nil)
	out = append(out, req)
	// refused after the consumer service has been selected: the failure reply travels to the registered Location
	for _, pb := range []string{world.BindRedirect, world.BindPost, A} {
		a3 := a
		a3.ProtocolBinding = pb
		a3.Destination = "https://elsewhere.example/not-this-idp"
		req, _, _ = spsim.Encode(route(cfg, "sso"), wr(a3.Tree(plainStyle)), spsim.Transport{Binding: "post", Encoding: A, RelayState: "rs"}, nil)
		out = append(out, req)
	}
	l := spsim.NewLogoutReq("_use2", issuer, "usermark0")
	req, _, _ = spsim.Encode(route(cfg, "slo"), wr(l.Tree(plainStyle)), spsim.Transport{Binding: "post", Encoding: A, RelayState: "rs"}, nil)
	out = append(out, req)
	q := spsim.NewAttrQuery("_use3", issuer, "login0@users.example").QueryTree(plainStyle)
	req, _, _ = spsim.Encode(route(cfg, "attribute"), wr(spsim.Envelope(q, "soap")), spsim.Transport{Binding: "soap"}, nil)
	out = append(out, req)
	q2 := spsim.NewAttrQuery("_use4", issuer, "login0@users.example").QueryTree(plainStyle)
	if err := spsim.SignTree(q2, spsim.Signing{Alg: world.AlgRSASHA256, KeyName: "sp-a", KeyInfo: true, DSPrefix: "ds"}); err != nil {
		panic(err)
	}
	req, _, _ = spsim.Encode(route(cfg, "attribute"), wr(spsim.Envelope(q2, "soap")), spsim.Transport{Binding: "soap"}, nil)
	out = append(out, req)
	return out
}

// c09Meta registers metadata and, when that works, uses the service provider everywhere.
func c09Meta(w *world.World, meta []byte, uses []obs.HTTPReq) (registered bool, v *ev.Violation) {
	var sp *serviceprovider.ServiceProvider
	var err error
	func() {
		defer func() {
			if p := recover(); p != nil {
				v = ev.V("C09/panic:NewServiceProvider", "NewServiceProvider panicked: %v", p)
			}
		}()
		sp, err = serviceprovider.NewServiceProvider("app-edited", &serviceprovider.Config{Metadata: meta}, func(id string) string { return "https://login.example/ui?id=" + id })
	}()
	if v != nil || err != nil || sp == nil {
		return false, v
	}
	func() {
		defer func() {
			if p := recover(); p != nil {
				v = ev.V("C09/panic:ServiceProvider.GetEntityID", "GetEntityID panicked on a registered SP: %v", p)
			}
		}()
		_ = sp.GetEntityID()
	}()
	if v != nil {
		return true, v
	}
	w.Store.Fallback = sp
	defer func() { w.Store.Fallback = nil }()
	for _, r := range uses {
		if v := c09Do(w, r); v != nil {
			v.Key = "C09/registered-sp-" + strings.TrimPrefix(v.Key, "C09/")
			return true, v
		}
	}
	return true, nil
}

func c09CertVariants() map[string]string {
	a := world.Key("sp-a")
	pemText := "-----BEGIN CERTIFICATE-----\n" + a.CertLayout("wrapped64") + "-----END CERTIFICATE-----"
	return map[string]string{
		"plain": a.CertB64(), "wrapped": a.CertLayout("wrapped64"), "pem": pemText,
		"pem-b64":    base64.StdEncoding.EncodeToString([]byte(pemText)),
		"ecdsa":      world.Key("sp-ecdsa").CertB64(),
		"ed25519":    world.Key("sp-ed25519").CertB64(),
		"dsa":        world.Key("sp-dsa").CertB64(),
		"truncated":  a.CertB64()[:200],
		"garbled":    a.CertB64()[:100] + "AAAAAAAA" + a.CertB64()[108:],
		"not-base64": "<<<not base64>>>",
		"empty":      "", "blank": "   \n ",
		"b64-of-junk": base64.StdEncoding.EncodeToString([]byte("this is not DER at all")),
	}
}

func TestC09Meta(t *testing.T) {
	col := ev.For("C09", "exploration", c09Rule)
	spec := c09Spec()
	uses := c09Uses(spec.IdP)
	pairsMode := ev.Tier() == "thorough"
	runPlain(t, col, "TestC09", func(fail func(*ev.Violation, any)) {
		base := c09FullMetadata()
		sites := xt.Sites(base)
		var jobs [][]xt.Edit
		jobs = append(jobs, nil)
		for i := range sites {
			for _, op := range xt.EditOps {
				jobs = append(jobs, []xt.Edit{{Site: i, Op: op}})
			}
		}
		if pairsMode {
			for i := range sites {
				for j := i + 1; j < len(sites); j++ {
					for _, o1 := range xt.EditOps {
						for _, o2 := range xt.EditOps {
							jobs = append(jobs, []xt.Edit{{Site: i, Op: o1}, {Site: j, Op: o2}})
						}
					}
				}
			}
		} else {
			stride := 23
			off := int(ev.Seed()%int64(stride)+int64(stride)) % stride
			k := 0
			for i := range sites {
				for j := i + 1; j < len(sites); j++ {
					for a := 0; a < len(xt.EditOps); a++ {
						for b := 0; b < len(xt.EditOps); b++ {
							if k%stride == off {
								jobs = append(jobs, []xt.Edit{{Site: i, Op: xt.EditOps[a]}, {Site: j, Op: xt.EditOps[b]}})
							}
							k++
						}
					}
				}
			}
		}
		var mu sync.Mutex
		reg := 0
		parallelEach(len(jobs), spec, func(w *world.World, i int) {
			tree, desc := xt.ApplyEdits(base, jobs[i])
			if tree == nil {
				return
			}
			meta := xt.Write(tree, plainStyle.W)
			ok, v := c09Meta(w, meta, uses)
			if ok {
				mu.Lock()
				reg++
				mu.Unlock()
			}
			if v != nil {
				fail(v, C09Case{Kind: "spmeta", Spec: spec, Meta: string(meta), Uses: uses, Note: strings.Join(desc, " + ")})
			}
		})
		col.AddDistinct(len(jobs), reg)
		col.Count("spmeta-struct", len(jobs))
		col.Count("spmeta-registered", reg)

		// certificate and descriptor variants
		w := mustBuild(spec)
		n, r := 0, 0
		try := func(note string, meta []byte) {
			n++
			ok, v := c09Meta(w, meta, uses)
			if ok {
				r++
			}
			if v != nil {
				fail(v, C09Case{Kind: "spmeta", Spec: spec, Meta: string(meta), Uses: uses, Note: note})
			}
		}
		for name, cert := range c09CertVariants() {
			for _, use := range []string{"", "signing", "encryption"} {
				for _, second := range []bool{false, true} {
					tree := c09FullMetadata()
					for _, x := range tree.FindAll(world.NSDS, "X509Certificate") {
						x.Children = nil
						x.AddText(cert)
					}
					kds := tree.FindAll(world.NSMD, "KeyDescriptor")
					if use == "" {
						kds[0].DelAttr("use")
					} else {
						kds[0].SetAttr("use", use)
					}
					if !second {
						kds[1].Parent.RemoveChild(kds[1])
					}
					try(fmt.Sprintf("cert=%s use=%q second=%v", name, use, second), xt.Write(tree, plainStyle.W))
					if second {
						// the same certificate listed twice for one purpose (a key roll-over that did not change the key)
						if use == "" {
							kds[1].DelAttr("use")
						} else {
							kds[1].SetAttr("use", use)
						}
						try(fmt.Sprintf("cert=%s use=%q listed twice", name, use), xt.Write(tree, plainStyle.W))
						third := kds[1].Clone()
						kds[1].Parent.Add(third)
						try(fmt.Sprintf("cert=%s use=%q listed three times", name, use), xt.Write(tree, plainStyle.W))
					}
				}
			}
		}
		raw := map[string]string{
			"empty": "", "junk": "not xml", "idp-only": `<md:EntityDescriptor xmlns:md="urn:oasis:names:tc:SAML:2.0:metadata" entityID="x"><md:IDPSSODescriptor protocolSupportEnumeration="urn:oasis:names:tc:SAML:2.0:protocol"/></md:EntityDescriptor>`,
			"no-role":       `<md:EntityDescriptor xmlns:md="urn:oasis:names:tc:SAML:2.0:metadata" entityID="https://edited.example/sp"/>`,
			"entities-root": `<md:EntitiesDescriptor xmlns:md="urn:oasis:names:tc:SAML:2.0:metadata"><md:EntityDescriptor entityID="https://edited.example/sp"><md:SPSSODescriptor protocolSupportEnumeration="x"/></md:EntityDescriptor></md:EntitiesDescriptor>`,
			"no-ns":         `<EntityDescriptor entityID="https://edited.example/sp"><SPSSODescriptor><AssertionConsumerService Binding="urn:oasis:names:tc:SAML:2.0:bindings:HTTP-POST" Location="https://edited.example/acs" index="0"/></SPSSODescriptor></EntityDescriptor>`,
			"empty-sso":     `<md:EntityDescriptor xmlns:md="urn:oasis:names:tc:SAML:2.0:metadata" entityID="https://edited.example/sp"><md:SPSSODescriptor/></md:EntityDescriptor>`,
			"aa-only":       `<md:EntityDescriptor xmlns:md="urn:oasis:names:tc:SAML:2.0:metadata" entityID="https://edited.example/sp"><md:AttributeAuthorityDescriptor protocolSupportEnumeration="x"/></md:EntityDescriptor>`,
			"truncated":     string(xt.Write(c09FullMetadata(), plainStyle.W))[:400],
		}
		// aggregates (md:EntitiesDescriptor) of every shape the schema allows and some it does not
		const mdns = `xmlns:md="urn:oasis:names:tc:SAML:2.0:metadata"`
		ent := `<md:EntityDescriptor entityID="https://edited.example/sp"><md:SPSSODescriptor protocolSupportEnumeration="urn:oasis:names:tc:SAML:2.0:protocol"><md:AssertionConsumerService Binding="urn:oasis:names:tc:SAML:2.0:bindings:HTTP-POST" Location="https://edited.example/acs" index="0"/></md:SPSSODescriptor></md:EntityDescriptor>`
		for name, inner := range map[string]string{
			"empty": "", "extensions-only": `<md:Extensions><x xmlns="urn:x"/></md:Extensions>`, "nested-group": `<md:EntitiesDescriptor Name="inner">` + ent + `</md:EntitiesDescriptor>`,
			"nested-empty": `<md:EntitiesDescriptor/>`, "one": ent, "two": ent + strings.Replace(ent, "edited.example/sp", "second.example/sp", 1), "text-only": "just text",
			"entity-without-role": `<md:EntityDescriptor entityID="https://edited.example/sp"/>`, "group-then-entity": `<md:EntitiesDescriptor/>` + ent, "deep": strings.Repeat(`<md:EntitiesDescriptor>`, 40) + ent + strings.Repeat(`</md:EntitiesDescriptor>`, 40),
		} {
			raw["aggregate/"+name] = `<md:EntitiesDescriptor ` + mdns + ` Name="urn:example:federation">` + inner + `</md:EntitiesDescriptor>`
		}
		raw["aggregate/self-closing"] = `<md:EntitiesDescriptor ` + mdns + `/>`
		raw["aggregate/default-ns"] = `<EntitiesDescriptor xmlns="urn:oasis:names:tc:SAML:2.0:metadata"></EntitiesDescriptor>`
		for name, m := range raw {
			try("raw "+name, []byte(m))
		}
		// XML declarations: encodings an XML processor may or may not know, odd version numbers, standalone, a byte order mark
		body := string(xt.Write(c09FullMetadata(), xt.Style{}))
		for _, decl := range []string{`<?xml version="1.0" encoding="UTF-8"?>`, `<?xml version="1.0" encoding="utf-8" standalone="yes"?>`, `<?xml version="1.0" encoding="UTF-16"?>`, `<?xml version="1.0" encoding="utf8"?>`,
			`<?xml version="1.0" encoding="ISO-8859-1"?>`, `<?xml version="1.0" encoding="US-ASCII"?>`, `<?xml version="1.0" encoding="windows-1252"?>`, `<?xml version="1.0" encoding="ISO-8859-15"?>`, `<?xml version="1.0" encoding="EBCDIC-CP-US"?>`,
			`<?xml version="1.0" encoding=""?>`, `<?xml version="1.1"?>`, `<?xml version="2.0" encoding="x"?>`, `<?xml encoding="UTF-8"?>`, `<?xml?>`, "\xef\xbb\xbf" + `<?xml version="1.0"?>`, "\xff\xfe<\x00?\x00x\x00m\x00l\x00", `<?xml version="1.0" encoding="UTF-8"?><?xml version="1.0"?>`} {
			try("xml declaration "+decl, []byte(decl+"\n"+body))
		}
		try("utf-16 bytes", append([]byte("\xff\xfe"), utf16le(body)...))
		col.AddDistinct(n, r)
		col.Count("spmeta-variants", n)
		col.Sample(map[string]any{"kind": "spmeta", "base": short(string(xt.Write(base, plainStyle.W)), 500), "certificate_variants": len(c09CertVariants())})
	})
}

// ---- rapid: byte-level mutations and parameter soups ----

type c09Valid struct {
	name string
	req  obs.HTTPReq
	xml  []byte
	enc  func([]byte) obs.HTTPReq
}

var (
	c09ValidOnce sync.Once
	c09ValidMemo []c09Valid
)

func c09ValidMessages(cfg world.IdPConfig) []c09Valid {
	c09ValidOnce.Do(func() { c09ValidMemo = c09ValidMessagesBuild(cfg) })
	return c09ValidMemo
}

func c09ValidMessagesBuild(cfg world.IdPConfig) []c09Valid {
	var out []c09Valid
	for _, f := range c09Families(cfg) {
		f := f
		xmlb := xt.Write(f.Tree, plainStyle.W)
		out = append(out, c09Valid{name: f.Name, req: f.Send(f.Tree), xml: xmlb})
	}
	return out
}

var c09Junk = []string{"", "A", "%", "%zz", "&", "=", "<", "<a>", "<?xml", "]]>", "\x00", "\xff\xfe", "AAAA", "====", "PHNhbWxwOkF1dGhuUmVxdWVzdC8+", "urn:oasis:names:tc:SAML:2.0:bindings:URL-Encoding:DEFLATE", strings.Repeat("A", 5000), "http://www.w3.org/2000/09/xmldsig#dsa-sha1", "MAYCAQUCAQc="}

func mutateBytes(t *rapid.T, b []byte) ([]byte, string) {
	b = append([]byte(nil), b...)
	kind := rapid.SampledFrom([]string{"flip", "delete", "insert", "truncate", "dup-range", "replace-token"}).Draw(t, "mutation")
	if len(b) == 0 {
		return b, kind
	}
	pos := rapid.IntRange(0, len(b)-1).Draw(t, "pos")
	switch kind {
	case "flip":
		b[pos] ^= byte(1 << rapid.IntRange(0, 7).Draw(t, "bit"))
	case "delete":
		n := rapid.IntRange(1, 40).Draw(t, "n")
		if pos+n > len(b) {
			n = len(b) - pos
		}
		b = append(b[:pos], b[pos+n:]...)
	case "insert":
		j := rapid.SampledFrom(c09Junk).Draw(t, "junk")
		b = append(b[:pos], append([]byte(j), b[pos:]...)...)
	case "truncate":
		b = b[:pos]
	case "dup-range":
		n := rapid.IntRange(1, 200).Draw(t, "n")
		if pos+n > len(b) {
			n = len(b) - pos
		}
		b = append(b[:pos+n], append(append([]byte(nil), b[pos:pos+n]...), b[pos+n:]...)...)
	case "replace-token":
		toks := []string{"Issuer", "ID=", "Version", "Signature", "NameID", "Subject", "Body", "KeyInfo", "X509Certificate", "SignatureValue", "Destination", "Conditions", "samlp:", "saml:", "xmlns"}
		tok := rapid.SampledFrom(toks).Draw(t, "token")
		b = []byte(strings.Replace(string(b), tok, rapid.SampledFrom([]string{"", "X", tok + tok}).Draw(t, "repl"), rapid.IntRange(1, 3).Draw(t, "count")))
	}
	return b, kind
}

func genC09Case(t *rapid.T) C09Case {
	spec := c09Spec()
	cfg := spec.IdP
	valid := c09ValidMessages(cfg)
	mode := rapid.SampledFrom([]string{"xml-mutation", "xml-mutation", "transport-mutation", "param-soup", "other-endpoint"}).Draw(t, "mode")
	c := C09Case{Kind: "http", Spec: spec}
	switch mode {
	case "xml-mutation":
		v := valid[rapid.IntRange(0, len(valid)-1).Draw(t, "family")]
		x := v.xml
		n := rapid.IntRange(1, 3).Draw(t, "nmut")
		var kinds []string
		for i := 0; i < n; i++ {
			var k string
			x, k = mutateBytes(t, x)
			kinds = append(kinds, k)
		}
		c.Note = "xml-mutation " + v.name + " " + strings.Join(kinds, ",")
		switch {
		case strings.HasPrefix(v.name, "attrquery"):
			c.Req, _, _ = spsim.Encode(route(cfg, "attribute"), x, spsim.Transport{Binding: "soap"}, nil)
		case strings.HasPrefix(v.name, "logout"):
			c.Req, _, _ = spsim.Encode(route(cfg, "slo"), x, spsim.Transport{Binding: rapid.SampledFrom([]string{"post", "redirect"}).Draw(t, "binding"), Encoding: rapid.SampledFrom([]string{A, spsim.EncodingDeflate}).Draw(t, "enc"), RelayState: "rs"}, nil)
		default:
			b := rapid.SampledFrom([]string{"post", "redirect"}).Draw(t, "binding")
			var rs *spsim.Signing
			if b == "redirect" && rapid.Bool().Draw(t, "sign") {
				rs = &spsim.Signing{Alg: rapid.SampledFrom([]string{world.AlgRSASHA1, world.AlgRSASHA256}).Draw(t, "alg"), KeyName: "sp-a"}
			}
			c.Req, _, _ = spsim.Encode(route(cfg, "sso"), x, spsim.Transport{Binding: b, Encoding: A, RelayState: "rs"}, rs)
		}
	case "transport-mutation":
		v := valid[rapid.IntRange(0, len(valid)-1).Draw(t, "family")]
		c.Req = v.req
		var k string
		if c.Req.RawQuery != "" && (c.Req.Body == "" || rapid.Bool().Draw(t, "inquery")) {
			var b []byte
			b, k = mutateBytes(t, []byte(c.Req.RawQuery))
			c.Req.RawQuery = string(b)
		} else {
			var b []byte
			b, k = mutateBytes(t, []byte(c.Req.Body))
			c.Req.Body = string(b)
		}
		c.Note = "transport-mutation " + v.name + " " + k
	case "param-soup":
		names := []string{"SAMLRequest", "SAMLEncoding", "RelayState", "SigAlg", "Signature", "id", "SAMLResponse", "x"}
		v := valid[rapid.IntRange(0, len(valid)-1).Draw(t, "family")]
		pool := append([]string{}, c09Junk...)
		for _, part := range strings.Split(v.req.RawQuery+"&"+v.req.Body, "&") {
			if _, val, ok := strings.Cut(part, "="); ok {
				pool = append(pool, val)
			}
		}
		build := func(label string) string {
			n := rapid.IntRange(0, 6).Draw(t, label+"-n")
			var parts []string
			for i := 0; i < n; i++ {
				name := rapid.SampledFrom(names).Draw(t, label+"-name")
				val := rapid.SampledFrom(pool).Draw(t, label+"-val")
				if !strings.Contains(val, "%") || rapid.Bool().Draw(t, label+"-raw") {
					// pool values taken from a request are already encoded; junk is sent raw or encoded
				}
				parts = append(parts, name+"="+val)
			}
			return strings.Join(parts, "&")
		}
		c.Req = obs.HTTPReq{
			Method:      rapid.SampledFrom([]string{"GET", "POST", "PUT", "HEAD", "DELETE", "OPTIONS"}).Draw(t, "method"),
			Path:        route(cfg, rapid.SampledFrom([]string{"sso", "slo", "callback", "attribute", "metadata", "certificate"}).Draw(t, "endpoint")),
			RawQuery:    build("q"),
			Body:        build("b"),
			ContentType: rapid.SampledFrom([]string{"application/x-www-form-urlencoded", "", "text/xml", "multipart/form-data; boundary=x", "application/x-www-form-urlencoded; charset=utf-8", "garbage/;;"}).Draw(t, "ctype"),
		}
		c.Note = "param-soup"
	case "other-endpoint":
		paths := []string{route(cfg, "metadata"), route(cfg, "certificate"), "/healthz", "/ready", route(cfg, "callback"), "/", "/unknown", route(cfg, "sso") + "/", "//" + strings.TrimPrefix(route(cfg, "sso"), "/")}
		ids := []string{"req-pending", "req-done-post", "req-done-redirect", "req-done-odd", "req-done-badurl-redirect", "req-done-badurl-post", "req-pending-badurl-redirect", "nope", "", "%00", strings.Repeat("x", 3000)}
		id := rapid.SampledFrom(ids).Draw(t, "id")
		c.Req = obs.HTTPReq{
			Method:   rapid.SampledFrom([]string{"GET", "POST", "PUT", "HEAD"}).Draw(t, "method"),
			Path:     rapid.SampledFrom(paths).Draw(t, "path"),
			RawQuery: rapid.SampledFrom([]string{"", "id=" + id, "id=" + id + "&id=other", "%zz", "a=b;c=d"}).Draw(t, "query"),
			Host:     rapid.SampledFrom([]string{"", "idp.example", "evil.example:8443", "[::1]", "a b", "\"", ""}).Draw(t, "host"),
		}
		if rapid.Bool().Draw(t, "fwd") {
			c.Req.Headers = append(c.Req.Headers, [2]string{"Forwarded", rapid.SampledFrom([]string{"host=a.example", "for=1.2.3.4;host=\"b.example\"", "host=", ";;;", "host=\"unterminated", "HOST=c.example, host=d.example"}).Draw(t, "fwdval")})
		}
		if rapid.Bool().Draw(t, "ct") {
			c.Req.Headers = append(c.Req.Headers, [2]string{"Content-Type", rapid.SampledFrom([]string{"text/plain", "a\r\nb", ""}).Draw(t, "ctval")})
		}
		if c.Req.Method == "POST" {
			c.Req.ContentType = "application/x-www-form-urlencoded"
			c.Req.Body = "id=" + id
		}
		c.Note = "other-endpoint"
	}
	if c.Req.Body != "" && rapid.IntRange(0, 3).Draw(t, "chunked") == 0 {
		c.Req.Chunked = true
	}
	if c.Req.Body != "" && rapid.IntRange(0, 5).Draw(t, "bodyfails") == 0 {
		c.Req.BodyFailAfter = rapid.SampledFrom([]int{1, 10, 100, 1000}).Draw(t, "bodyfailafter")
	}
	if rapid.IntRange(0, 5).Draw(t, "brokenpipe") == 0 {
		c.Req.FailWriteAfter = rapid.SampledFrom([]int{1, 17, 200, 4096}).Draw(t, "brokenafter")
	}
	return c
}

func c09Run(c C09Case) []*ev.Violation {
	w := mustBuild(c.Spec)
	if c.Kind == "spmeta" {
		_, v := c09Meta(w, []byte(c.Meta), c.Uses)
		return []*ev.Violation{v}
	}
	return []*ev.Violation{c09Do(w, c.Req)}
}

// TestC09 is the generated (and replay) entry point.
func TestC09(t *testing.T) {
	col := ev.For("C09", "exploration", c09Rule)
	searchRapid(t, col, genC09Case, func(c C09Case) []*ev.Violation {
		mode, _, _ := strings.Cut(c.Note, " ")
		nt := false
		switch mode {
		case "xml-mutation", "transport-mutation":
			nt = true // derived from a valid message by 1-3 small mutations
		case "param-soup":
			nt = strings.Contains(c.Req.RawQuery+c.Req.Body, "SAMLRequest=") || strings.Contains(c.Req.RawQuery+c.Req.Body, "id=")
		case "other-endpoint":
			nt = true
		}
		col.Case(nt, ev.Fingerprint(c.Note, c.Req.Method, c.Req.Path, len(c.Req.RawQuery)/16, len(c.Req.Body)/16), []string{"rapid/" + mode}, func() any {
			return map[string]any{"note": c.Note, "method": c.Req.Method, "path": c.Req.Path, "query": short(c.Req.RawQuery, 200), "body": short(c.Req.Body, 200)}
		})
		return c09Run(c)
	})
}

// TestC09Endpoints: every routed endpoint x method, with the backing store up and with every storage operation failing: each
// request ends (no panic, no request that never returns).
func TestC09Endpoints(t *testing.T) {
	col := ev.For("C09", "exploration", c09Rule)
	spec := c09Spec()
	runPlain(t, col, "TestC09", func(fail func(*ev.Violation, any)) {
		n := 0
		valid := c09ValidMessages(spec.IdP)
		for _, down := range []bool{false, true} {
			w := mustBuild(spec)
			if down {
				var faults []world.Fault
				for _, op := range []string{"Health", "GetCA", "GetMetadataSigningKey", "GetResponseSigningKey", "GetEntityByID", "GetEntityIDByAppID", "CreateAuthRequest", "AuthRequestByID", "SetUserinfoWithUserID", "SetUserinfoWithLoginName"} {
					faults = append(faults, world.Fault{Op: op, Occurrence: 0, Kind: "error"})
				}
				w.Store.SetFaults(faults)
			}
			var reqs []obs.HTTPReq
			for _, p := range []string{"/ready", "/healthz", route(spec.IdP, "metadata"), route(spec.IdP, "certificate"), route(spec.IdP, "callback"), route(spec.IdP, "sso"), route(spec.IdP, "slo"), route(spec.IdP, "attribute"), "/"} {
				for _, m := range []string{"GET", "POST", "HEAD", "PUT", "OPTIONS"} {
					reqs = append(reqs, obs.HTTPReq{Method: m, Path: p}, obs.HTTPReq{Method: m, Path: p, RawQuery: "id=req-done-post"})
				}
			}
			for _, v := range valid {
				reqs = append(reqs, v.req)
				if v.req.Body != "" {
					// the upload breaks off: the body read fails after some bytes, with and without an announced length
					for _, after := range []int{1, 64, len(v.req.Body) - 1} {
						broken := v.req
						broken.BodyFailAfter = after
						reqs = append(reqs, broken)
						broken.Chunked = true
						reqs = append(reqs, broken)
					}
				}
			}
			for _, r := range reqs {
				n++
				if v := c09Do(w, r); v != nil {
					fail(v, C09Case{Kind: "http", Spec: spec, Req: r, Note: fmt.Sprintf("endpoint sweep, storage down=%v", down)})
					if strings.Contains(v.Key, "blocked-forever") || strings.Contains(v.Key, "does-not-terminate") {
						return
					}
				}
			}
		}
		col.Count("endpoint-sweep", n)
		col.AddDistinct(n, n)
	})
}

// utf16le encodes ASCII text as UTF-16 little endian.
func utf16le(s string) []byte {
	out := make([]byte, 0, 2*len(s))
	for _, r := range s {
		out = append(out, byte(r), byte(r>>8))
	}
	return out
}

// TestC09Aftermath: a storage operation fails while a request is served (C10 says what that request's reply must be); then the
// storage is back and the same provider serves ordinary requests on every endpoint. Whatever the failed request left behind in
// the provider, none of them may panic. Every (endpoint scenario x faulted operation x fault kind) of C10's single-fault matrix
// is followed by one request of each kind; the provider publishes its organisation and contact person, and the attribute query
// that follows names the advertised attribute service as its Destination (so that every part of the cached / recomputed
// descriptors is looked at).
func TestC09Aftermath(t *testing.T) {
	col := ev.For("C09", "exploration", c09Rule)
	runPlain(t, col, "TestC09", func(fail func(*ev.Violation, any)) {
		n, nontrivial := 0, 0
		now := time.Now()
		for _, sc := range c10Scenarios {
			seen := map[string]bool{}
			for _, f := range c10FaultPoints(sc, 0) {
				if seen[f.Op+"/"+f.Kind] {
					continue // every call of the operation is faulted below: occurrences collapse
				}
				seen[f.Op+"/"+f.Kind] = true
				spec, hr := c10Build(sc, 0, now)
				spec.IdP.Organisation = &world.OrgSpec{Name: "Org", DisplayName: "Organisation", URL: "https://org.example"}
				spec.IdP.Contact = &world.ContactSpec{ContactType: "technical", Company: "Org", GivenName: "G", SurName: "S", Email: "ops@org.example", Phone: "+41"}
				w := mustBuild(spec)
				w.Store.SetFaults([]world.Fault{{Op: f.Op, Occurrence: 0, Kind: f.Kind}})
				first := obs.Do(w.Handler, hr)
				w.Store.SetFaults(nil)
				c := map[string]any{"scenario": sc, "fault": world.Fault{Op: f.Op, Kind: f.Kind}.String()}
				if first.Panic != "" {
					fail(ev.V("C09/panic:"+first.PanicSite(), "%s while %s:%s: handler panicked: %s", sc, f.Op, f.Kind, short(first.Panic, 120)), c)
					continue
				}
				q := spsim.NewAttrQuery("_aftermath-q", spec.SPs[0].EntityID, "login0@users.example")
				q.Destination = spec.IdP.Advertised("attribute", hr.Host)
				aq, _, _ := spsim.Encode(spec.IdP.Route("attribute"), xt.Write(spsim.Envelope(q.QueryTree(plainStyle), "soap"), plainStyle.W), spsim.Transport{Binding: "soap"}, nil)
				aq.Host = hr.Host
				follow := []obs.HTTPReq{aq}
				for _, fs := range []string{"metadata-unsigned", "certificate", "sso-post", "sso-redirect", "callback-post-done", "callback-redirect-done", "logout", "attrquery", "ready"} {
					_, r := c10Build(fs, 0, now)
					follow = append(follow, r)
				}
				for _, r := range follow {
					n++
					rep := obs.Do(w.Handler, r)
					if rep.Panic != "" {
						c["follow_up"] = r.Method + " " + r.Path
						fail(ev.V("C09/panic-after-a-failed-request:"+rep.PanicSite(), "%s %s after the storage failed (%s:%s) during a %s request and was repaired: handler panicked: %s", r.Method, r.Path, f.Op, f.Kind, sc, short(rep.Panic, 120)), c)
						break
					}
				}
				nontrivial++
				col.Case(true, ev.Fingerprint("aftermath", sc, f.Op, f.Kind), []string{"aftermath", "aftermath/" + sc}, func() any { return c })
			}
		}
		col.SetExtra("aftermath_follow_up_requests", n)
		_ = nontrivial
	})
}
