package props

// C03 — Assertion content is bound to the originating request, audience and user.

import (
	"fmt"
	"sort"
	"strings"
	"sync"
	"testing"
	"time"

	"pgregory.net/rapid"

	"verif/harness/ev"
	"verif/harness/obs"
	"verif/harness/world"
	"verif/harness/xt"
)

const c03Rule = "rapid: one stored, completed request (original request ID, consumer URL, RelayState, application id and the audience it maps to: strings of legal XML characters incl. & < > \" ' CR LF TAB, edge blanks, entity look-alikes, non-ASCII and astral characters) x a user record (each standard attribute set/unset, 0..3 custom attributes with 0..3 values incl. empty strings, friendly names and formats) x binding POST / Redirect x issuer (static with/without path and trailing slash, host-derived, Forwarded-derived) x metadata endpoint path x timestamp layout (default, RFC 3339, nanoseconds, seconds) x (one case in eight) a user lookup that fails, fails after filling part of the record, or fills the record and fails, driven through the callback endpoint. Oracle: field-for-field comparison of the decoded Success response with the storage model (InResponseTo on response and subject confirmation, Destination = Recipient, both Issuers, single Audience, NameID, attribute statement as a multiset with value lists in order, RelayState, NotBefore = IssueInstant inside the wall-clock bracket of the call, NotOnOrAfter - IssueInstant = 5 min, fresh distinct NCName IDs); with a failing lookup the comparison applies only if the reply is a Success response all the same. Non-trivial: at least one compared string needs escaping or is non-ASCII. Distinct by (binding, set of fields with special characters, attribute-statement shape, configuration)."

type C03Case struct {
	Noise   bool        `json:"noise,omitempty"`
	Spec    world.Spec  `json:"spec"`
	Host    string      `json:"host"`
	Headers [][2]string `json:"headers,omitempty"`
	Method  string      `json:"method"`
	// Fault, when set, makes the user lookup of this callback misbehave ("error": fails; "partial": fills part of the record,
	// then fails; "errval": fills the whole record and fails). The statement then only applies if the reply is a Success
	// response all the same: it must still be exactly the user's data.
	Fault string `json:"fault,omitempty"`
	// FaultOp: the storage operation that misbehaves ("" = the user lookup)
	FaultOp string `json:"fault_op,omitempty"`
	// KeyWindow: validity window (seconds relative to now, "from:to") of the response-signing certificate the storage hands
	// out; "" = the static long-lived one. A certificate in its last minutes, or one that became valid a moment ago, is still valid.
	KeyWindow string `json:"key_window,omitempty"`
	// EarlierAudience: a moment ago the application was registered under this entity ID and the same provider answered a
	// callback for it; since then the application has moved to the entity ID of the spec. Only the registration in force counts.
	EarlierAudience string `json:"earlier_audience,omitempty"`
	// Twice: the user agent opens the callback twice (reload, back button): the reply compared is the second one, and its IDs
	// must be fresh with respect to the first
	Twice bool `json:"callback_twice,omitempty"`
}

var timeFormats = []string{"", "", time.RFC3339, "2006-01-02T15:04:05.000000000Z", "2006-01-02T15:04:05Z", time.RFC3339Nano}

func genC03Case(t *rapid.T) C03Case {
	idp := genIdPConfig(t, worldOpts{issuerModes: []string{"static", "static", "host", "forwarded"}})
	if rapid.IntRange(0, 2).Draw(t, "mdpath") == 0 {
		idp.Endpoints = map[string]world.EndpointSpec{"metadata": {Path: rapid.SampledFrom([]string{"/saml/metadata", "md", "/entity/idp.xml"}).Draw(t, "mdpathv")}}
	}
	if rapid.IntRange(0, 3).Draw(t, "cbpath") == 0 {
		if idp.Endpoints == nil {
			idp.Endpoints = map[string]world.EndpointSpec{}
		}
		idp.Endpoints["callback"] = world.EndpointSpec{Path: "/after/login"}
	}
	idp.TimeFormat = rapid.SampledFrom(timeFormats).Draw(t, "timeformat")
	u := genSpecialUser(t, 0)
	binding := rapid.SampledFrom([]string{world.BindPost, world.BindRedirect}).Draw(t, "binding")
	acsURL := rapid.SampledFrom([]string{"https://sp.example/acs", "https://sp.example/acs?a=1&b=2", "https://sp.example/a\"b'c", "https://sp.example/ü/𝄞", "https://sp.example/acs?x=<y>"}).Draw(t, "acs")
	if rapid.IntRange(0, 3).Draw(t, "acsany") == 0 {
		acsURL = "https://sp.example/" + xt.LegalString(4).Draw(t, "acstail")
	}
	switch rapid.IntRange(0, 9).Draw(t, "big") {
	case 0:
		u.Custom = append(u.Custom, world.CustomAttr{Name: "groups-big", NameFormat: "urn:oasis:names:tc:SAML:2.0:attrname-format:basic", Values: bigValues(rapid.SampledFrom([]int{150, 400, 700}).Draw(t, "nbig"), "c03")})
	case 1:
		u.Custom = append(u.Custom, world.CustomAttr{Name: "blob-big", Values: []string{bigString(12000, "c03-")}})
	}
	appID := genNonEmptyLegal(t, "appid", 4)
	relay := xt.LegalString(5).Draw(t, "relay")
	if rapid.IntRange(0, 9).Draw(t, "bigrelay") == 0 {
		relay = bigString(rapid.SampledFrom([]int{1500, 9000}).Draw(t, "relaylen"), relay)
	}
	req := world.RequestSpec{ID: "stored-c03", AppID: appID, RelayState: relay, ACS: acsURL, Binding: binding,
		AuthRequestID: xt.LegalString(4).Draw(t, "authreqid"), UserID: u.UserID, Done: true,
		Issuer: rapid.SampledFrom([]string{"", "https://issuer-stated-in-the-request.example/metadata", stdSP(0).EntityID}).Draw(t, "storedissuer")}
	spec := world.Spec{IdP: idp, SPs: []world.SPSpec{stdSP(0)}, Users: []world.UserSpec{u, stdUser(1)},
		Apps: map[string]string{appID: genNonEmptyLegal(t, "audience", 5), "other-app": "https://other-audience.example"}, Requests: []world.RequestSpec{req}}
	if rapid.IntRange(0, 3).Draw(t, "request-scope") == 0 {
		spec.IdP.InterceptorNeutral, spec.RequireRequestScope = true, true
	}
	c := C03Case{Noise: rapid.IntRange(0, 1).Draw(t, "noise") == 0, Spec: spec, Host: rapid.SampledFrom(reqHosts).Draw(t, "host"), Method: rapid.SampledFrom([]string{"GET", "POST"}).Draw(t, "method")}
	if idp.IssuerMode == "forwarded" && rapid.Bool().Draw(t, "fwd") {
		c.Headers = [][2]string{{"Forwarded", "for=192.0.2.1;host=" + rapid.SampledFrom([]string{"public.idp.example", "\"proxy.example:444\""}).Draw(t, "fwdhost")}}
	}
	if rapid.IntRange(0, 7).Draw(t, "faulty") == 0 {
		c.Fault = rapid.SampledFrom([]string{"error", "partial", "errval"}).Draw(t, "fault")
		if rapid.IntRange(0, 2).Draw(t, "faultop") == 0 {
			// the application-to-entity lookup fails (with or without handing a value back)
			c.FaultOp, c.Fault = "GetEntityIDByAppID", rapid.SampledFrom([]string{"error", "timeout", "errval"}).Draw(t, "fault2")
		}
	}
	c.Twice = rapid.IntRange(0, 3).Draw(t, "twice") == 0
	if rapid.IntRange(0, 3).Draw(t, "earlier-audience") == 0 {
		c.EarlierAudience = rapid.SampledFrom([]string{"https://earlier-audience.example/metadata", "urn:example:earlier", stdSP(0).EntityID}).Draw(t, "earlier-audiencev")
	}
	if rapid.IntRange(0, 4).Draw(t, "keywindow") == 0 {
		// about to expire (inside the assertion lifetime), valid since a moment ago, or a short-lived certificate: all valid now
		c.KeyWindow = rapid.SampledFrom([]string{"-3600:90", "-3600:240", "-30:86400", "-60:200", "-86400:3600"}).Draw(t, "keywindowv")
	}
	return c
}

type expAttr struct {
	Name, NameFormat, FriendlyName string
	Values                         []string
}

func (a expAttr) key() string {
	return fmt.Sprintf("%q|%q|%q|%q", a.Name, a.NameFormat, a.FriendlyName, a.Values)
}

// expectedAttrs is the attribute statement the documentation promises for a user record.
func expectedAttrs(u world.UserSpec) []expAttr {
	const basic = "urn:oasis:names:tc:SAML:2.0:attrname-format:basic"
	var out []expAttr
	add := func(name, v string) {
		if v != "" {
			out = append(out, expAttr{Name: name, NameFormat: basic, Values: []string{v}})
		}
	}
	add("Email", u.Email)
	add("SurName", u.Surname)
	add("FirstName", u.GivenName)
	add("FullName", u.FullName)
	add("UserName", u.Username)
	add("UserID", u.UserIDAttr)
	for _, c := range u.Custom {
		out = append(out, expAttr{Name: c.Name, NameFormat: c.NameFormat, FriendlyName: c.FriendlyName, Values: append([]string(nil), c.Values...)})
	}
	return out
}

func attrMultisetDiff(want []expAttr, got []obs.AttrInfo) string {
	count := map[string]int{}
	for _, a := range want {
		count[a.key()]++
	}
	for _, g := range got {
		k := expAttr{Name: g.Name, NameFormat: g.NameFormat, FriendlyName: g.FriendlyName, Values: g.Values}.key()
		count[k]--
	}
	var missing, extra []string
	for k, n := range count {
		if n > 0 {
			missing = append(missing, k)
		} else if n < 0 {
			extra = append(extra, k)
		}
	}
	sort.Strings(missing)
	sort.Strings(extra)
	if len(missing)+len(extra) == 0 {
		return ""
	}
	return fmt.Sprintf("missing %v, unexpected %v", missing, extra)
}

var (
	seenIDsMu sync.Mutex
	seenIDs   = map[string]bool{}
)

// freshID records an ID and reports whether it had been seen before in this process.
func freshID(id string) bool {
	seenIDsMu.Lock()
	defer seenIDsMu.Unlock()
	if seenIDs[id] {
		return false
	}
	seenIDs[id] = true
	return true
}

func htmlNewlineNorm(s string) string {
	return strings.ReplaceAll(strings.ReplaceAll(s, "\r\n", "\n"), "\r", "\n")
}

// truncToLayout returns the precision a layout can express.
func layoutPrecision(layout string) time.Duration {
	switch {
	case strings.Contains(layout, ".000000000") || strings.Contains(layout, ".999999999"):
		return time.Nanosecond
	case strings.Contains(layout, ".999999") || strings.Contains(layout, ".000000"):
		return time.Microsecond
	case strings.Contains(layout, ".999") || strings.Contains(layout, ".000"):
		return time.Millisecond
	}
	return time.Second
}

// c03Compare compares a Success response with the model. stage names the flow for messages.
func c03Compare(spec world.Spec, host string, req world.RequestSpec, u world.UserSpec, rep obs.Reply, t0, t1 time.Time) (vs []*ev.Violation, d *obs.Decoded) {
	add := func(key, f string, a ...any) { vs = append(vs, ev.V("C03/"+key, f, a...)) }
	d = obs.Decode(rep)
	if rep.Panic != "" {
		add("panic", "handler panicked: %s", short(rep.Panic, 100))
		return
	}
	wantKind := obs.KindPostForm
	if req.Binding == world.BindRedirect {
		wantKind = obs.KindRedirectSAML
	}
	if d.Kind != wantKind {
		add("wrong-delivery", "stored binding %s but the reply is %s (status %d): %s", shortBinding(req.Binding), d.Kind, rep.Status, short(string(rep.Body), 150))
		return
	}
	if d.Doc == nil {
		add("reply-not-well-formed", "%s %v", d.XMLErr, d.Notes)
		return
	}
	resp := obs.ReadResponse(obs.FindResponse(d.Root()))
	if resp == nil || !resp.Success() {
		st := ""
		if resp != nil {
			st = resp.Status + " " + resp.StatusMessage
		}
		add("not-success", "completed request for an existing user did not yield Success: %s", st)
		return
	}
	if len(resp.Assertions) != 1 {
		add("assertion-count", "%d assertions", len(resp.Assertions))
		return
	}
	a := resp.Assertions[0]
	// request binding
	if resp.InResponseTo != req.AuthRequestID {
		add("inresponseto", "Response InResponseTo %q, stored request ID %q", resp.InResponseTo, req.AuthRequestID)
	}
	if a.SubjInResponseTo != req.AuthRequestID {
		add("subject-inresponseto", "SubjectConfirmationData InResponseTo %q, stored request ID %q", a.SubjInResponseTo, req.AuthRequestID)
	}
	if resp.Destination != req.ACS {
		add("destination", "Destination %q, stored consumer URL %q", resp.Destination, req.ACS)
	}
	if a.Recipient != req.ACS {
		add("recipient", "Recipient %q, stored consumer URL %q", a.Recipient, req.ACS)
	}
	entity := spec.IdP.EntityID(host)
	if resp.Issuer != entity {
		add("response-issuer", "Response Issuer %q, IdP entity ID %q", resp.Issuer, entity)
	}
	if a.Issuer != entity {
		add("assertion-issuer", "Assertion Issuer %q, IdP entity ID %q", a.Issuer, entity)
	}
	wantAud := spec.Apps[req.AppID]
	if len(a.Audiences) != 1 || a.Audiences[0] != wantAud {
		add("audience", "Audience %q, entity registered for application %q is %q", a.Audiences, req.AppID, wantAud)
	}
	if !a.HasNameID || a.NameID != u.Username {
		add("nameid", "NameID %q (present %v), user name %q", a.NameID, a.HasNameID, u.Username)
	}
	if diff := attrMultisetDiff(expectedAttrs(u), a.Attrs); diff != "" {
		add("attributes", "attribute statement differs from the user record: %s", diff)
	}
	// RelayState
	switch d.Kind {
	case obs.KindRedirectSAML:
		if d.RelayState != req.RelayState {
			add("relaystate", "RelayState %q, stored %q", d.RelayState, req.RelayState)
		}
	default:
		if d.RelayState != req.RelayState && htmlNewlineNorm(d.RelayState) != htmlNewlineNorm(req.RelayState) {
			add("relaystate", "RelayState field %q, stored %q", d.RelayState, req.RelayState)
		}
	}
	// validity window
	layout := spec.IdP.TimeFormat
	configured := layout != ""
	if !configured {
		layout = "2006-01-02T15:04:05.999999Z"
	}
	prec := layoutPrecision(layout)
	if !configured {
		// no layout configured: any UTC xs:dateTime is in order; the precision is what the emitted string shows
		prec = time.Second
		if i := strings.IndexByte(a.IssueInstant, '.'); i >= 0 {
			frac := strings.TrimRight(a.IssueInstant[i+1:], "Z")
			prec = time.Second
			for k := 0; k < len(frac) && k < 9; k++ {
				prec /= 10
			}
			if prec < time.Microsecond {
				prec = time.Nanosecond
			}
		}
	}
	parse := func(name, s string) (time.Time, bool) {
		t, err := time.Parse(layout, s)
		if err != nil && !configured {
			t, err = time.Parse(time.RFC3339Nano, s)
		}
		if err != nil {
			add("timestamp-layout", "%s %q does not parse with the configured layout %q", name, s, layout)
			return t, false
		}
		return t, true
	}
	ii, ok1 := parse("IssueInstant", a.IssueInstant)
	nb, ok2 := parse("NotBefore", a.NotBefore)
	na, ok3 := parse("NotOnOrAfter", a.NotOnOrAfter)
	if ok1 && ok2 && ok3 {
		if !nb.Equal(ii) {
			add("notbefore", "NotBefore %s differs from IssueInstant %s", a.NotBefore, a.IssueInstant)
		}
		if ii.Before(t0.Truncate(prec)) || ii.After(t1) {
			add("issueinstant", "IssueInstant %s outside the bracket of the call [%s, %s]", a.IssueInstant, t0.UTC().Format(time.RFC3339Nano), t1.UTC().Format(time.RFC3339Nano))
		}
		if life := na.Sub(ii); life != 5*time.Minute {
			add("lifetime", "NotOnOrAfter - IssueInstant = %s, configured lifetime 5m0s", life)
		}
		if a.SubjNotOnOrAfter != a.NotOnOrAfter {
			add("subject-notonorafter", "SubjectConfirmationData NotOnOrAfter %q, Conditions NotOnOrAfter %q", a.SubjNotOnOrAfter, a.NotOnOrAfter)
		}
	}
	if resp.IssueInstant != a.IssueInstant {
		if ri, ok := parse("Response IssueInstant", resp.IssueInstant); ok && (ri.Before(t0.Truncate(prec)) || ri.After(t1)) {
			add("issueinstant", "Response IssueInstant %s outside the bracket of the call", resp.IssueInstant)
		}
	}
	// IDs
	if resp.ID == a.ID {
		add("ids-not-distinct", "response and assertion share the ID %q", resp.ID)
	}
	for _, id := range []string{resp.ID, a.ID} {
		if !xt.IsNCName(id) {
			add("id-not-ncname", "ID %q is not a legal xs:ID", id)
		} else if !freshID(id) {
			add("id-reused", "ID %q was already used by an earlier message of this run", id)
		}
	}
	return
}

func TestC03(t *testing.T) {
	col := ev.For("C03", "exploration", c03Rule)
	col.Assume("the IdP and the harness read the same wall clock; the assertion lifetime is the library default of 5 minutes (no option changes it)")
	searchRapid(t, col, genC03Case, func(c C03Case) []*ev.Violation {
		wspec := c.Spec
		if c.Noise {
			wspec = withNoise(wspec)
		}
		w := mustBuild(wspec)
		if c.Noise {
			runNoise(w, wspec)
		}
		req := c.Spec.Requests[0]
		u := c.Spec.Users[0]
		hr := obs.HTTPReq{Method: "GET", Path: c.Spec.IdP.Route("callback"), RawQuery: "id=" + qesc(req.ID), Host: c.Host, Headers: c.Headers}
		if c.Method == "POST" {
			hr = obs.HTTPReq{Method: "POST", Path: c.Spec.IdP.Route("callback"), ContentType: "application/x-www-form-urlencoded", Body: "id=" + qesc(req.ID), Host: c.Host, Headers: c.Headers}
		}
		if c.KeyWindow != "" {
			w.Store.RotateResponseKey("idp-response@" + c.KeyWindow)
		}
		if c.EarlierAudience != "" {
			w.Store.SetApp(req.AppID, c.EarlierAudience)
			obs.Do(w.Handler, hr)
			w.Store.SetApp(req.AppID, c.Spec.Apps[req.AppID])
			w.Store.ResetLog()
		}
		if c.Twice {
			first := obs.Do(w.Handler, hr)
			if fd := obs.Decode(first); fd != nil {
				if fr := obs.ReadResponse(obs.FindResponse(fd.Root())); fr != nil {
					freshID(fr.ID)
					for _, a := range fr.Assertions {
						freshID(a.ID)
					}
				}
			}
			w.Store.ResetLog()
		}
		if c.Fault != "" {
			op := c.FaultOp
			if op == "" {
				op = "SetUserinfoWithUserID"
			}
			w.Store.SetFaults([]world.Fault{{Op: op, Occurrence: 0, Kind: c.Fault}})
		}
		t0 := time.Now()
		rep := obs.Do(w.Handler, hr)
		t1 := time.Now()
		host := effHost(SSOCase{Spec: c.Spec, Host: c.Host, Headers: c.Headers})
		vs, d := c03Compare(c.Spec, host, req, u, rep, t0, t1)
		if c.Fault != "" && rep.Panic == "" {
			// a failed lookup may be answered with any error; only a Success response is held to the statement
			success := false
			if d.Doc != nil {
				if r := obs.ReadResponse(obs.FindResponse(d.Root())); r != nil && r.Success() {
					success = true
				}
			}
			if !success {
				vs = nil
			}
		}
		if c.Noise && noiseLeak(rep) {
			vs = append(vs, ev.V("C03/foreign-state-in-reply", "the reply carries data of an unrelated service provider / user that used the provider earlier"))
		}
		var special []string
		for name, s := range map[string]string{"reqid": req.AuthRequestID, "acs": req.ACS, "relay": req.RelayState, "audience": c.Spec.Apps[req.AppID], "username": u.Username} {
			if xt.HasSpecial(s) {
				special = append(special, name)
			}
		}
		attrSpecial := false
		for _, a := range expectedAttrs(u) {
			for _, s := range append([]string{a.Name, a.FriendlyName, a.NameFormat}, a.Values...) {
				if xt.HasSpecial(s) {
					attrSpecial = true
				}
			}
		}
		if attrSpecial {
			special = append(special, "attributes")
		}
		sort.Strings(special)
		shape := fmt.Sprintf("std=%d/custom=%d", len(expectedAttrs(u))-len(u.Custom), len(u.Custom))
		classes := []string{"binding/" + shortBinding(req.Binding), "issuer/" + c.Spec.IdP.IssuerMode, "timeformat/" + c.Spec.IdP.TimeFormat, "reply/" + d.Kind, "attrs/" + shape, "userlookup-fault/" + c.Fault}
		for _, s := range special {
			classes = append(classes, "special/"+s)
		}
		col.Case(len(special) > 0, ev.Fingerprint(req.Binding, special, shape, c.Spec.IdP.IssuerMode, c.Spec.IdP.TimeFormat, c.Spec.IdP.Endpoint("metadata").Path), classes, func() any {
			return map[string]any{"stored_request": req, "user": u, "audience": c.Spec.Apps[req.AppID], "reply": d.Kind, "response_xml": short(string(d.XML), 700)}
		})
		return vs
	})
}
