package props

// C18 — Wire encoding round-trips and cannot be restructured by data.

import (
	"bytes"
	"encoding/base64"
	"fmt"
	"net/http/httptest"
	"sort"
	"strings"
	"testing"
	"unicode/utf8"

	sxml "github.com/zitadel/saml/pkg/provider/xml"
	"github.com/zitadel/saml/pkg/provider/xml/md"
	"github.com/zitadel/saml/pkg/provider/xml/saml"
	"github.com/zitadel/saml/pkg/provider/xml/samlp"
	"github.com/zitadel/saml/pkg/provider/xml/soap"
	"github.com/zitadel/saml/pkg/provider/xml/xml_dsig"
	"pgregory.net/rapid"

	"verif/harness/ev"
	"verif/harness/obs"
	"verif/harness/spsim"
	"verif/harness/world"
	"verif/harness/xt"
)

const c18Rule = "rapid: (codec) byte strings of 0..1 MiB - random, repetitive, text, already-compressed - through DeflateAndBase64 then InflateAndDecode with the DEFLATE identifier, and near-miss encoding identifiers (case change, blanks, prefix, suffix, other URNs, percent signs: escaped once more, malformed escapes) which must yield an error and no data; (struct) Response with a full assertion, LogoutResponse, SOAP response envelope, EntityDescriptor with organisation / contact / key data, AuthnRequest and LogoutRequest values whose every string field is drawn from an any-bytes alphabet (long runs of multi-byte characters that make the document span several output buffers, XML metacharacters, ]]>, entity look-alikes, CR/LF/TAB, NUL and other controls, U+FFFE/FFFF, lone surrogates, invalid UTF-8, astral characters), marshalled with the library's Marshal / WriteXMLMarshalled; (handler) the same kind of strings as stored request fields and user attributes through the callback, and as request ID / element names through the SSO and logout error paths. Oracle: the output is exactly one document for the harness's strict XML reader; its element/attribute skeleton equals that of the same value marshalled with benign strings of the same emptiness pattern; every leaf read back by the strict reader equals the input (legal strings: exactly; otherwise: equal after removing illegal characters from the input and U+FFFD from the output); the library's own decoder followed by the marshaller reproduces the bytes. Non-trivial: a leaf contains a metacharacter, ]]>, a control character or invalid UTF-8. Distinct by (message type, hostile classes, leaf kind)."

type C18Case struct {
	Kind   string   `json:"kind"`
	Data   string   `json:"data_b64,omitempty"` // codec: base64 of the bytes
	EncID  string   `json:"encoding_id,omitempty"`
	// handler-callback: how the stored request wants its reply delivered ("" body, "post", "redirect") and whether the user has
	// several hundred group values on top (replies too long for any redirect length limit)
	Delivery string `json:"delivery,omitempty"`
	Big      bool   `json:"big,omitempty"`
	Values []string `json:"values,omitempty"`
}

var c18Kinds = []string{"handler-metadata", "codec", "encoding-id", "response", "response", "logout-response", "soap", "metadata", "authn-request", "logout-request", "handler-callback", "handler-sso-error", "handler-logout-error", "endpoint-encoding-id"}

// c18Magic: byte sequences that tools sniff for at the start (or strip from the end) of data - byte order marks, container
// signatures, the first characters of an XML document, white space, padding. To the codec they are bytes like any others.
var c18MagicPrefix = []string{"\xef\xbb\xbf", "\xef\xbb\xbf<", "\xff\xfe", "\xfe\xff", "<", "<?xml", "<?xml version=\"1.0\"?>", " <", "\n", "\x1f\x8b\x08", "x\x9c", "x\x01", "PK\x03\x04", "\x00", "\x00\x00\xfe\xff", "=", "%"}
var c18MagicSuffix = []string{"\n", "\r\n", " ", "\x00", "\x00\x00\x00", "=", "==", "\xef\xbb\xbf", "\x1a"}

func genBytes(t *rapid.T) []byte {
	b := genBytesPlain(t)
	switch rapid.IntRange(0, 7).Draw(t, "magic") {
	case 0:
		b = append([]byte(rapid.SampledFrom(c18MagicPrefix).Draw(t, "magic-prefix")), b...)
	case 1:
		b = append(b, rapid.SampledFrom(c18MagicSuffix).Draw(t, "magic-suffix")...)
	case 2:
		b = []byte(rapid.SampledFrom(c18MagicPrefix).Draw(t, "magic-only")) // nothing but the mark
	}
	return b
}

func genBytesPlain(t *rapid.T) []byte {
	switch rapid.IntRange(0, 7).Draw(t, "bytekind") {
	case 6:
		// natural-language-like text over a small alphabet, a few hundred bytes: the DEFLATE stream of such input is a
		// dynamic-Huffman block whose first bytes vary widely with the input (0x3C '<', 0x1F, 0x78 ... all occur)
		words := []string{"the", "quick", "brown", "fox", "jumps", "over", "lazy", "dog", "pack", "my", "box", "with", "five", "dozen", "liquor", "jugs", "sphinx", "of", "black", "quartz", "judge", "vow", "a", "and", "saml", "request"}
		n := rapid.IntRange(20, 120).Draw(t, "nwords")
		var b bytes.Buffer
		for i := 0; i < n; i++ {
			b.WriteString(rapid.SampledFrom(words).Draw(t, "word"))
			b.WriteString(rapid.SampledFrom([]string{" ", " ", " ", ", ", ". ", "\n"}).Draw(t, "sep"))
		}
		return b.Bytes()
	case 7:
		// a real message of the protocol
		return xt.Write(spsim.NewAuthnReq("_"+rapid.StringMatching(`[a-f0-9]{4,32}`).Draw(t, "msgid"), "https://sp"+rapid.StringMatching(`[a-z]{1,12}`).Draw(t, "msgsp")+".example/metadata").Tree(plainStyle), plainStyle.W)
	case 0:
		return rapid.SliceOfN(rapid.Byte(), 0, 200).Draw(t, "small")
	case 1:
		n := rapid.IntRange(0, 1<<20).Draw(t, "n")
		unit := rapid.SliceOfN(rapid.Byte(), 1, 64).Draw(t, "unit")
		return bytes.Repeat(unit, n/len(unit)+1)[:n]
	case 2:
		return []byte(xt.AnyString(40).Draw(t, "text"))
	case 3:
		// pseudo-random, incompressible: a xorshift stream seeded by a drawn value
		n := rapid.IntRange(0, 1<<18).Draw(t, "n")
		x := rapid.Uint64Min(1).Draw(t, "seed")
		b := make([]byte, n)
		for i := range b {
			x ^= x << 13
			x ^= x >> 7
			x ^= x << 17
			b[i] = byte(x)
		}
		return b
	case 4:
		return bytes.Repeat([]byte{0}, rapid.IntRange(0, 1<<20).Draw(t, "zeros"))
	default:
		return spsim.Deflate([]byte(xt.AnyString(60).Draw(t, "predeflated")))
	}
}

var c18EncodingIDs = []string{"", sxml.EncodingDeflate, strings.ToLower(sxml.EncodingDeflate), strings.ToUpper(sxml.EncodingDeflate), sxml.EncodingDeflate + " ", " " + sxml.EncodingDeflate, sxml.EncodingDeflate + "\x00", sxml.EncodingDeflate[:len(sxml.EncodingDeflate)-1],
	sxml.EncodingDeflate + "2", "DEFLATE", "deflate", "gzip", "urn:oasis:names:tc:SAML:2.0:bindings:URL-Encoding", "urn:oasis:names:tc:SAML:2.0:bindings:URL-Encoding:GZIP", "none", "base64", "\x00",
	// identifiers with percent signs: escaped once more, badly escaped, or just containing one
	"%", "100%", "%zz", "%2", "%%", sxml.EncodingDeflate + "%", sxml.EncodingDeflate + "%2", "%" + sxml.EncodingDeflate, "urn%3Aoasis%3Anames%3Atc%3ASAML%3A2.0%3Abindings%3AURL-Encoding%3ADEFLATE",
	"urn%253Aoasis%253Anames", "+", "%00", "%20", "urn:oasis:names:tc:SAML:2.0:bindings:URL-Encoding:DEFLATE%00", "\t", "\n", sxml.EncodingDeflate + "\n", "urn:oasis:names:tc:SAML:2.0:bindings:URL-Encoding:DEFLATE;q=1", "*"}

const c18NValues = 40

func genC18Case(t *rapid.T) C18Case {
	c := C18Case{Kind: pick(t, "kind", c18Kinds)}
	switch c.Kind {
	case "codec":
		c.Data = base64.StdEncoding.EncodeToString(genBytes(t))
	case "encoding-id":
		c.Data = base64.StdEncoding.EncodeToString([]byte(xt.AnyString(8).Draw(t, "payload")))
		c.EncID = rapid.SampledFrom(c18EncodingIDs).Draw(t, "encid")
	case "endpoint-encoding-id":
		c.EncID = rapid.SampledFrom(c18EncodingIDs).Draw(t, "encid")
		c.Delivery = rapid.SampledFrom([]string{"sso-post", "sso-redirect", "slo-post", "slo-redirect"}).Draw(t, "endpoint")
		c.Big = rapid.Bool().Draw(t, "deflated") // whether the payload sent is a DEFLATE stream
	default:
		if c.Kind == "handler-metadata" {
			c.Delivery = rapid.SampledFrom([]string{"idp.example", "xn--bcher-kva.idp.example", "login--eu.idp.example", "a--b--c.example:8443", "UPPER.Example", "[2001:db8::1]:8443", "idp.example.", strings.Repeat("label.", 40) + "example"}).Draw(t, "mdhost")
			c.Big = rapid.Bool().Draw(t, "signedmd")
		}
		if c.Kind == "handler-callback" {
			c.Delivery = rapid.SampledFrom([]string{"", "post", "redirect", "redirect"}).Draw(t, "delivery")
			c.Big = rapid.IntRange(0, 2).Draw(t, "big") == 0
		}
		legalOnly := rapid.IntRange(0, 2).Draw(t, "legalonly") == 0
		// one case in five: long values dense in multi-byte characters, so that the document spans several output buffers
		// and characters fall across their boundaries at many alignments
		long := rapid.IntRange(0, 4).Draw(t, "long") == 0
		for i := 0; i < c18NValues; i++ {
			if long && i%7 == 3 {
				n := rapid.IntRange(300, 3000).Draw(t, "longlen")
				unit := rapid.SampledFrom([]string{"€", "ü", "𝄞", "€a", "aü€𝄞", "日本語x"}).Draw(t, "longunit")
				c.Values = append(c.Values, strings.Repeat("a", rapid.IntRange(0, 3).Draw(t, "longshift"))+strings.Repeat(unit, n/len(unit)+1))
				continue
			}
			switch rapid.IntRange(0, 5).Draw(t, "vkind") {
			case 0:
				c.Values = append(c.Values, "")
			case 1:
				c.Values = append(c.Values, fmt.Sprintf("plain%d", i))
			default:
				if legalOnly {
					c.Values = append(c.Values, xt.LegalString(5).Draw(t, "value"))
				} else {
					c.Values = append(c.Values, xt.AnyString(5).Draw(t, "value"))
				}
			}
		}
	}
	return c
}

// isLegalXML reports whether s consists of legal XML characters in valid UTF-8.
func isLegalXML(s string) bool {
	for i := 0; i < len(s); {
		r, w := utf8.DecodeRuneInString(s[i:])
		if r == utf8.RuneError && w == 1 {
			return false
		}
		if !xt.IsChar(r) {
			return false
		}
		i += w
	}
	return true
}

func stripIllegal(s string) string {
	var b strings.Builder
	for i := 0; i < len(s); {
		r, w := utf8.DecodeRuneInString(s[i:])
		if !(r == utf8.RuneError && w == 1) && xt.IsChar(r) && r != 0xFFFD {
			b.WriteString(s[i : i+w])
		}
		i += w
	}
	return b.String()
}

// taker hands out the values of a case in order.
type taker struct {
	vals []string
	i    int
}

func (t *taker) next() string {
	v := t.vals[t.i%len(t.vals)]
	t.i++
	return v
}

func buildAssertion(v *taker) saml.AssertionType {
	return saml.AssertionType{
		Version: v.next(), Id: v.next(), IssueInstant: v.next(),
		Issuer: saml.NameIDType{Format: v.next(), Text: v.next()},
		Subject: &saml.SubjectType{
			NameID: &saml.NameIDType{Format: v.next(), SPNameQualifier: v.next(), Text: v.next()},
			SubjectConfirmation: []saml.SubjectConfirmationType{{Method: v.next(), SubjectConfirmationData: &saml.SubjectConfirmationDataType{
				NotOnOrAfter: v.next(), Recipient: v.next(), InResponseTo: v.next(), Address: v.next()}}},
		},
		Conditions: &saml.ConditionsType{NotBefore: v.next(), NotOnOrAfter: v.next(), AudienceRestriction: []saml.AudienceRestrictionType{{Audience: []string{v.next(), v.next()}}}},
		AttributeStatement: []saml.AttributeStatementType{{Attribute: []*saml.AttributeType{
			{Name: v.next(), NameFormat: v.next(), FriendlyName: v.next(), AttributeValue: []string{v.next(), v.next(), v.next()}},
			{Name: v.next(), AttributeValue: []string{v.next()}},
		}}},
		AuthnStatement: []saml.AuthnStatementType{{AuthnInstant: v.next(), SessionIndex: v.next(), AuthnContext: saml.AuthnContextType{AuthnContextClassRef: v.next()}}},
	}
}

func buildResponse(v *taker) *samlp.ResponseType {
	return &samlp.ResponseType{
		Id: v.next(), InResponseTo: v.next(), Version: v.next(), IssueInstant: v.next(), Destination: v.next(), Consent: v.next(),
		Issuer:    &saml.NameIDType{Format: v.next(), Text: v.next()},
		Status:    samlp.StatusType{StatusCode: samlp.StatusCodeType{Value: v.next()}, StatusMessage: v.next()},
		Assertion: buildAssertion(v),
	}
}

func buildValue(kind string, vals []string) any {
	v := &taker{vals: vals}
	switch kind {
	case "response":
		return buildResponse(v)
	case "logout-response":
		return &samlp.LogoutResponseType{Id: v.next(), InResponseTo: v.next(), Version: v.next(), IssueInstant: v.next(), Destination: v.next(),
			Issuer: &saml.NameIDType{Format: v.next(), Text: v.next()}, Status: samlp.StatusType{StatusCode: samlp.StatusCodeType{Value: v.next()}, StatusMessage: v.next()}}
	case "soap":
		return &soap.ResponseEnvelope{Body: soap.ResponseBody{Response: buildResponse(v)}}
	case "metadata":
		return &md.EntityDescriptorType{
			EntityID: md.EntityIDType(v.next()), Id: v.next(), ValidUntil: v.next(), CacheDuration: v.next(),
			IDPSSODescriptor: &md.IDPSSODescriptorType{
				WantAuthnRequestsSigned: v.next(), Id: v.next(), ProtocolSupportEnumeration: md.AnyURIListType(v.next()), ErrorURL: v.next(),
				KeyDescriptor:       []md.KeyDescriptorType{{Use: md.KeyTypes(v.next()), KeyInfo: xml_dsig.KeyInfoType{KeyName: []string{v.next()}, X509Data: []xml_dsig.X509DataType{{X509Certificate: v.next()}}}}},
				SingleSignOnService: []md.EndpointType{{Binding: v.next(), Location: v.next()}},
				SingleLogoutService: []md.EndpointType{{Binding: v.next(), Location: v.next(), ResponseLocation: v.next()}},
				NameIDFormat:        []string{v.next()},
				AttributeProfile:    []string{v.next()},
				Attribute:           []*saml.AttributeType{{Name: v.next(), NameFormat: v.next(), AttributeValue: []string{v.next()}}},
				Organization: &md.OrganizationType{OrganizationName: []md.LocalizedNameType{{Text: v.next()}}, OrganizationDisplayName: []md.LocalizedNameType{{Text: v.next()}},
					OrganizationURL: []md.LocalizedURIType{{Text: v.next()}}},
				ContactPerson: []md.ContactType{{ContactType: md.ContactTypeType(v.next()), Company: v.next(), GivenName: v.next(), SurName: v.next(), EmailAddress: []string{v.next()}, TelephoneNumber: []string{v.next()}}},
			},
		}
	case "authn-request":
		return &samlp.AuthnRequestType{
			ForceAuthn: v.next(), IsPassive: v.next(), ProtocolBinding: v.next(), AssertionConsumerServiceIndex: v.next(), AssertionConsumerServiceURL: v.next(),
			AttributeConsumingServiceIndex: v.next(), ProviderName: v.next(), Id: v.next(), Version: v.next(), IssueInstant: v.next(), Destination: v.next(), Consent: v.next(),
			Issuer:       &saml.NameIDType{Format: v.next(), Text: v.next()},
			NameIDPolicy: &samlp.NameIDPolicyType{Format: v.next(), SPNameQualifier: v.next()},
			Conditions:   &saml.ConditionsType{NotBefore: v.next(), NotOnOrAfter: v.next()},
			Subject:      &saml.SubjectType{NameID: &saml.NameIDType{Text: v.next()}},
		}
	case "logout-request":
		return &samlp.LogoutRequestType{Id: v.next(), Version: v.next(), IssueInstant: v.next(), Destination: v.next(), Reason: v.next(), NotOnOrAfter: v.next(),
			Issuer: &saml.NameIDType{Text: v.next()}, NameID: &saml.NameIDType{Format: v.next(), Text: v.next()}, SessionIndex: []string{v.next(), v.next()}}
	}
	panic("unknown struct kind " + kind)
}

func benignFor(vals []string) []string {
	out := make([]string, len(vals))
	for i, v := range vals {
		if v != "" {
			out[i] = fmt.Sprintf("benign%04d", i)
		}
	}
	return out
}

// compareTrees walks the real and the benign tree in parallel; benign leaves name the value index.
func compareTrees(kind string, real, benign *xt.Node, vals []string) *ev.Violation {
	if real.Skeleton() != benign.Skeleton() {
		return ev.V("C18/structure-altered-by-data:"+kind, "the element/attribute skeleton differs from that of the same value marshalled with benign strings")
	}
	rl, bl := real.Leaves(), benign.Leaves()
	if len(rl) != len(bl) {
		return ev.V("C18/structure-altered-by-data:"+kind, "%d leaves, benign rendering has %d", len(rl), len(bl))
	}
	for i := range bl {
		b := bl[i].Value
		if !strings.HasPrefix(b, "benign") || len(b) != 10 {
			if rl[i].Value != b && !strings.Contains(bl[i].Path, "@xmlns") {
				return ev.V("C18/fixed-leaf-changed:"+kind, "%s: %q, benign rendering has %q", rl[i].Path, short(rl[i].Value, 80), b)
			}
			continue
		}
		var idx int
		fmt.Sscanf(b[6:], "%d", &idx)
		want, got := vals[idx], rl[i].Value
		if isLegalXML(want) {
			if got != want {
				return ev.V("C18/legal-value-altered:"+kind, "%s: put in %q, generic parser reads %q", rl[i].Path, short(want, 80), short(got, 80))
			}
		} else if stripIllegal(got) != stripIllegal(want) {
			return ev.V("C18/value-mangled-beyond-replacement:"+kind, "%s: put in %q, generic parser reads %q", rl[i].Path, short(want, 80), short(got, 80))
		}
	}
	return nil
}

func marshalVia(kind string, v any) ([]byte, error) {
	if kind == "soap" || kind == "metadata" {
		rec := httptest.NewRecorder()
		err := sxml.WriteXMLMarshalled(rec, v)
		return rec.Body.Bytes(), err
	}
	return sxml.Marshal(v)
}

// redecode runs the library's own decoder on the bytes and marshals the result again.
func redecode(kind string, x []byte) ([]byte, error, bool) {
	b64 := base64.StdEncoding.EncodeToString(x)
	var v any
	var err error
	switch kind {
	case "response":
		v, err = sxml.DecodeResponse("", false, string(x))
	case "metadata":
		v, err = sxml.ParseMetadataXmlIntoStruct(x)
	case "authn-request":
		v, err = sxml.DecodeAuthNRequest("", b64)
	case "logout-request":
		v, err = sxml.DecodeLogoutRequest("", b64)
	default:
		return nil, nil, false
	}
	if err != nil {
		return nil, err, true
	}
	out, err := marshalVia(kind, v)
	return out, err, true
}

func c18Struct(c C18Case) []*ev.Violation {
	real, err := marshalVia(c.Kind, buildValue(c.Kind, c.Values))
	if err != nil {
		return nil // refusing to encode is not a wire message
	}
	ben, err := marshalVia(c.Kind, buildValue(c.Kind, benignFor(c.Values)))
	if err != nil {
		panic("harness: benign value does not marshal: " + err.Error())
	}
	rdoc, err := xt.Parse(real)
	if err != nil {
		return []*ev.Violation{ev.V("C18/not-one-well-formed-document:"+c.Kind, "%v", err)}
	}
	if !rdoc.HasDecl {
		return []*ev.Violation{ev.V("C18/no-xml-declaration:"+c.Kind, "message without XML declaration")}
	}
	bdoc, err := xt.Parse(ben)
	if err != nil {
		panic("harness: benign rendering does not parse: " + err.Error())
	}
	if v := compareTrees(c.Kind, rdoc.Root, bdoc.Root, c.Values); v != nil {
		return []*ev.Violation{v}
	}
	if again, err, ok := redecode(c.Kind, real); ok {
		if err != nil {
			return []*ev.Violation{ev.V("C18/own-decoder-rejects-own-output:"+c.Kind, "%v", err)}
		}
		d2, err := xt.Parse(again)
		if err != nil {
			return []*ev.Violation{ev.V("C18/own-decoder-roundtrip:"+c.Kind, "re-marshalled value does not parse: %v", err)}
		}
		if e := xt.Equal(rdoc.Root, d2.Root); e != nil {
			return []*ev.Violation{ev.V("C18/own-decoder-roundtrip:"+c.Kind, "the library's decoder followed by its marshaller does not reproduce the message: %v", e)}
		}
	}
	return nil
}

func c18Handler(c C18Case) []*ev.Violation {
	v := &taker{vals: c.Values}
	mk := func(vals []string) (world.Spec, obs.HTTPReq) {
		tk := &taker{vals: vals}
		spec := stdSpec()
		spec.SPs[1].AuthnRequestsSigned = A
		switch c.Kind {
		case "handler-callback":
			u := world.UserSpec{UserID: "uid-x", LoginName: "l", Email: tk.next(), FullName: tk.next(), GivenName: tk.next(), Surname: tk.next(), Username: tk.next(), UserIDAttr: tk.next(),
				Custom: []world.CustomAttr{{Name: "c1" + tk.next(), FriendlyName: tk.next(), NameFormat: tk.next(), Values: []string{tk.next(), tk.next()}}}}
			if c.Big {
				// in the same attribute: the order in which several custom attributes are emitted is not defined
				u.Custom[0].Values = append(u.Custom[0].Values, bigValues(600, "c18")...)
			}
			spec.Users = append(spec.Users, u)
			spec.Apps = map[string]string{"app-x": "aud" + tk.next()}
			acsURL, binding := "", world.BindPost
			switch c.Delivery {
			case "post":
				acsURL = "https://sp.example/acs"
			case "redirect":
				acsURL, binding = "https://sp.example/acs", world.BindRedirect
			}
			spec.Requests = []world.RequestSpec{{ID: "c18", AppID: "app-x", RelayState: tk.next(), ACS: acsURL, Binding: binding, AuthRequestID: tk.next(), UserID: "uid-x", Done: true}}
			return spec, callbackReq(spec.IdP, "c18")
		case "handler-metadata":
			// the metadata document as the endpoint serves it: configured texts (organisation, contact, error URL) are data, and so
			// is the host an entity ID is derived from (c.Delivery: names with "--", long names, upper case)
			spec.IdP.IssuerMode, spec.IdP.IssuerPath = "host", "/saml"
			spec.IdP.Organisation = &world.OrgSpec{Name: tk.next(), DisplayName: tk.next(), URL: tk.next()}
			spec.IdP.Contact = &world.ContactSpec{ContactType: "technical", Company: tk.next(), GivenName: tk.next(), SurName: tk.next(), Email: tk.next(), Phone: tk.next()}
			spec.IdP.ErrorURL = tk.next()
			if c.Big {
				spec.IdP.MetadataSigAlg = world.AlgRSASHA256
			}
			return spec, obs.HTTPReq{Method: "GET", Path: spec.IdP.Route("metadata"), Host: c.Delivery}
		case "handler-sso-error":
			a := spsim.NewAuthnReq("id"+stripIllegal(tk.next()), spec.SPs[0].EntityID)
			a.Destination = "https://elsewhere.example/" + stripIllegal(tk.next())
			a.ProviderName = stripIllegal(tk.next())
			if len(vals) > 1 && vals[1] != "" { // emptiness is the same in the benign twin
				// unregistered issuer: its text is echoed in the status message of the error reply
				a.Issuer = "https://unregistered.example/" + stripIllegal(tk.next())
			}
			r, _, _ := spsim.Encode(spec.IdP.Route("sso"), xt.Write(a.Tree(plainStyle), plainStyle.W), spsim.Transport{Binding: "post", Plus: true, Encoding: A, RelayState: tk.next()}, nil)
			return spec, r
		default:
			l := spsim.NewLogoutReq("id"+stripIllegal(tk.next()), "https://unregistered.example/"+stripIllegal(tk.next()), stripIllegal(tk.next()))
			r, _, _ := spsim.Encode(spec.IdP.Route("slo"), xt.Write(l.Tree(plainStyle), plainStyle.W), spsim.Transport{Binding: "post", Plus: true, Encoding: A, RelayState: tk.next()}, nil)
			return spec, r
		}
	}
	_ = v
	run := func(vals []string) (*obs.Decoded, obs.Reply) {
		spec, hr := mk(vals)
		rep := obs.Do(mustBuild(spec).Handler, hr)
		return obs.Decode(rep), rep
	}
	d, rep := run(c.Values)
	if rep.Panic != "" {
		return []*ev.Violation{ev.V("C18/panic", "handler panicked: %s", short(rep.Panic, 100))}
	}
	if d.XML == nil {
		return nil
	}
	if d.Doc == nil {
		return []*ev.Violation{ev.V("C18/not-one-well-formed-document:"+c.Kind, "%s (reply kind %s)", d.XMLErr, d.Kind)}
	}
	bd, brep := run(benignFor(c.Values))
	if bd.Doc == nil {
		panic("harness: benign handler run produced no document")
	}
	// the transport layer of a redirect reply is an encoding like any other: the parameters of the query are those of the same
	// flow with benign strings (data such as the RelayState cannot add, drop or split parameters)
	if d.Kind == obs.KindRedirectSAML && bd.Kind == obs.KindRedirectSAML {
		names := func(loc string) string {
			_, q, _ := strings.Cut(loc, "?")
			var out []string
			for _, kv := range strings.Split(q, "&") {
				k, _, _ := strings.Cut(kv, "=")
				out = append(out, k)
			}
			return strings.Join(out, ",")
		}
		if got, want := names(rep.Header.Get("Location")), names(brep.Header.Get("Location")); got != want {
			return []*ev.Violation{ev.V("C18/redirect-query-restructured-by-data", "parameters of the redirect URL: %s; with benign strings: %s", got, want)}
		}
	}
	// IDs, timestamps and signature values differ between two runs: compare the structure and the controlled leaves
	strip := func(n *xt.Node) *xt.Node {
		cp := n.Clone()
		cp.Walk(func(e *xt.Node) {
			for _, s := range e.ChildrenNamed(world.NSDS, "Signature") {
				e.RemoveChild(s)
			}
		})
		return cp
	}
	rr, br := strip(d.Root()), strip(bd.Root())
	if rr.Skeleton() != br.Skeleton() {
		return []*ev.Violation{ev.V("C18/structure-altered-by-data:"+c.Kind, "the reply's element/attribute skeleton differs from that of the same flow with benign strings")}
	}
	rl, bl := rr.Leaves(), br.Leaves()
	for i := range bl {
		b := bl[i].Value
		j := strings.Index(b, "benign")
		if j < 0 || len(b) < j+10 {
			continue
		}
		var idx int
		if _, err := fmt.Sscanf(b[j+6:j+10], "%d", &idx); err != nil || idx >= len(c.Values) {
			continue
		}
		want := c.Values[idx]
		if c.Kind != "handler-callback" && c.Kind != "handler-metadata" {
			want = stripIllegal(want) // these values travel inside a request document first
		}
		got := rl[i].Value
		if !strings.Contains(stripIllegal(got), stripIllegal(want)) {
			return []*ev.Violation{ev.V("C18/value-mangled-beyond-replacement:"+c.Kind, "%s: put in %q, generic parser reads %q", rl[i].Path, short(want, 80), short(got, 80))}
		}
		if isLegalXML(want) && !strings.Contains(got, want) {
			return []*ev.Violation{ev.V("C18/legal-value-altered:"+c.Kind, "%s: put in %q, generic parser reads %q", rl[i].Path, short(want, 80), short(got, 80))}
		}
	}
	return nil
}

func c18Run(c C18Case) []*ev.Violation {
	switch c.Kind {
	case "codec":
		data, _ := base64.StdEncoding.DecodeString(c.Data)
		enc, err := sxml.DeflateAndBase64(data)
		if err != nil {
			return []*ev.Violation{ev.V("C18/codec-encode-error", "DeflateAndBase64: %v", err)}
		}
		// a second message is encoded before the first result is used: results must be independent values
		other := append([]byte("second message "), data...)
		enc2, err2 := sxml.DeflateAndBase64(other)
		encCopy := string(enc)
		if err2 == nil {
			if dec2, err := sxml.InflateAndDecode(sxml.EncodingDeflate, true, string(enc2)); err != nil || !bytes.Equal(dec2, other) {
				return []*ev.Violation{ev.V("C18/codec-roundtrip-differs", "second of two encodings does not decode to its input (%v)", err)}
			}
		}
		if string(enc) != encCopy {
			return []*ev.Violation{ev.V("C18/codec-result-overwritten", "the result of the first encoding changed while a second message was encoded or decoded")}
		}
		dec, err := sxml.InflateAndDecode(sxml.EncodingDeflate, true, string(enc))
		if err != nil {
			return []*ev.Violation{ev.V("C18/codec-roundtrip-error", "InflateAndDecode of %d encoded bytes (%d original): %v", len(enc), len(data), err)}
		}
		if !bytes.Equal(dec, data) {
			return []*ev.Violation{ev.V("C18/codec-roundtrip-differs", "%d bytes in, %d bytes out", len(data), len(dec))}
		}
		// the harness's own inflater must agree with the library's encoder
		raw, err := base64.StdEncoding.DecodeString(string(enc))
		if err != nil {
			return []*ev.Violation{ev.V("C18/codec-not-standard-base64", "%v", err)}
		}
		if own, err := inflateAll(raw); err != nil || !bytes.Equal(own, data) {
			return []*ev.Violation{ev.V("C18/codec-not-raw-deflate", "an independent inflater does not recover the input: %v", err)}
		}
	case "encoding-id":
		payload, _ := base64.StdEncoding.DecodeString(c.Data)
		for _, b64 := range []bool{true, false} {
			msg := string(payload)
			if b64 {
				msg = base64.StdEncoding.EncodeToString(spsim.Deflate(payload))
			}
			out, err := sxml.InflateAndDecode(c.EncID, b64, msg)
			known := c.EncID == "" || c.EncID == sxml.EncodingDeflate
			if !known && (err == nil || len(out) > 0) {
				return []*ev.Violation{ev.V("C18/unknown-encoding-passed-through", "encoding identifier %q: err=%v, %d bytes returned", c.EncID, err, len(out))}
			}
		}
	case "endpoint-encoding-id":
		// the same clause at the endpoints: a request that names an encoding the IdP does not know is refused, whatever the payload
		spec := stdSpec()
		w := mustBuild(spec)
		var x []byte
		route := spec.IdP.Route("sso")
		if strings.HasPrefix(c.Delivery, "sso") {
			x = xt.Write(spsim.NewAuthnReq("_c18enc", spec.SPs[0].EntityID).Tree(plainStyle), plainStyle.W)
		} else {
			route = spec.IdP.Route("slo")
			x = xt.Write(spsim.NewLogoutReq("_c18enc", spec.SPs[0].EntityID, "usermark0").Tree(plainStyle), plainStyle.W)
		}
		if c.Big {
			x = spsim.Deflate(x)
		}
		msg := qesc(base64.StdEncoding.EncodeToString(x))
		params := "SAMLRequest=" + msg + "&RelayState=rs&SAMLEncoding=" + qesc(c.EncID)
		hr := obs.HTTPReq{Method: "GET", Path: route, RawQuery: params}
		if strings.HasSuffix(c.Delivery, "post") {
			hr = obs.HTTPReq{Method: "POST", Path: route, ContentType: "application/x-www-form-urlencoded", Body: params}
		}
		rep := obs.Do(w.Handler, hr)
		if rep.Panic != "" {
			return []*ev.Violation{ev.V("C18/panic", "handler panicked: %s", short(rep.Panic, 100))}
		}
		known := c.EncID == "" || c.EncID == sxml.EncodingDeflate
		accepted := len(w.Store.CallsOf("CreateAuthRequest")) > 0
		if d := obs.Decode(rep); d.Doc != nil {
			if r := obs.ReadResponse(obs.FindResponse(d.Root())); r != nil && r.Success() {
				accepted = true
			}
		}
		if !known && accepted {
			return []*ev.Violation{ev.V("C18/unknown-encoding-passed-through", "%s request with SAMLEncoding=%q was accepted", c.Delivery, c.EncID)}
		}
	case "handler-callback", "handler-sso-error", "handler-logout-error", "handler-metadata":
		return c18Handler(c)
	default:
		return c18Struct(c)
	}
	return nil
}

func TestC18(t *testing.T) {
	col := ev.For("C18", "exploration", c18Rule)
	searchRapid(t, col, genC18Case, func(c C18Case) []*ev.Violation {
		vs := c18Run(c)
		set := map[string]bool{}
		nontrivial := false
		switch c.Kind {
		case "codec":
			data, _ := base64.StdEncoding.DecodeString(c.Data)
			set[fmt.Sprintf("size<=2^%d", bitLen(len(data)))] = true
			nontrivial = len(data) > 0
		case "encoding-id":
			set["encid:"+fmt.Sprintf("%q", c.EncID)] = true
			nontrivial = c.EncID != "" && c.EncID != sxml.EncodingDeflate
		default:
			for _, v := range c.Values {
				for _, cl := range xt.SpecialClasses(v) {
					set[cl] = true
				}
				if strings.Contains(v, "]]>") {
					set["cdata-end"] = true
				}
				if !utf8.ValidString(v) {
					set["invalid-utf8"] = true
				}
			}
			nontrivial = len(set) > 0
		}
		var cls []string
		for k := range set {
			cls = append(cls, k)
		}
		sort.Strings(cls)
		classes := []string{"kind/" + c.Kind}
		for _, k := range cls {
			classes = append(classes, "class/"+k)
		}
		col.Case(nontrivial, ev.Fingerprint(c.Kind, cls), classes, func() any {
			s := map[string]any{"kind": c.Kind, "classes": cls}
			if len(c.Values) > 0 {
				s["values"] = c.Values[:8]
			}
			if c.Kind == "encoding-id" {
				s["encoding_id"] = c.EncID
			}
			return s
		})
		return vs
	})
}

func bitLen(n int) int {
	b := 0
	for n > 0 {
		b++
		n >>= 1
	}
	return b
}
