package props

// C01 — No Success assertion without completed authentication.
//
// Histories: a generated program of SSO acceptances, directly seeded stored requests (every
// state, binding and consumer URL), login completions, injected storage faults and callback
// calls with every kind of id expression and parameter placement, executed against one provider
// and the model storage. The invariant is evaluated after every callback.

import (
	"fmt"
	"strings"
	"testing"
	"time"

	"pgregory.net/rapid"

	"verif/harness/ev"
	"verif/harness/obs"
	"verif/harness/spsim"
	"verif/harness/world"
	"verif/harness/xt"
)

const c01Rule = "rapid-generated histories (6..40 operations) over one provider: sso (valid AuthnRequest accepted through the real SSO endpoint), seed (stored request inserted directly: pending or done, with or without a user attached, bindings POST / Redirect / Artifact / empty, any consumer URL incl. empty, ids that are case / blank / percent-encoding twins of each other), complete (login completion for an existing or unknown user; also landing in the middle of a callback: the storage hands out its live record and the completion - user attached and done set, atomically - falls before the handler's n-th read of Done()/GetUserID()), fault (user-info, signing-key - error / nil / no key / no certificate / empty certificate -, or application lookup failure on the next callback) and callback with id expressions {exact, unknown, empty, upper-case twin, blank-padded, percent-encoded twin, '+' / blank / separator twins, prefix, id of another session} placed in the query, the form body, both, or repeated - or handed to the exported Provider.AuthCallbackResponse the way an application with its own login UI does. Invariant after every callback: a Success Response implies that one of the supplied id values names a stored request that is done, and the NameID / attributes are those of that request's user; any other reply has a non-Success status (or is a plain HTTP error) and its decoded layers contain no user marker, no non-empty NameID, no AttributeValue and no SignatureValue; user info is fetched only for a named, done request. Evaluations count callbacks (the unit the invariant is evaluated on), not histories. Non-trivial: a callback issued while at least one pending and one done request exist. Distinct by (state of the named ids, id expression, placement, binding, fault)."

type C01Op struct {
	Kind      string             `json:"kind"` // sso | seed | complete | fault | callback
	SP        int                `json:"sp,omitempty"`
	Binding   string             `json:"binding,omitempty"`
	Relay     string             `json:"relay,omitempty"`
	Seed      *world.RequestSpec `json:"seed,omitempty"`
	Ref       int                `json:"ref,omitempty"`
	Ref2      int                `json:"ref2,omitempty"`
	User      string             `json:"user,omitempty"`
	IDExpr    string             `json:"id_expr,omitempty"`
	Placement string             `json:"placement,omitempty"`
	FaultOp   string             `json:"fault_op,omitempty"`
	FaultKind string             `json:"fault_kind,omitempty"`
	// LiveAt > 0: the storage hands out its live record for the named (pending) request and the login completion by LiveUser
	// lands before the handler's LiveAt-th access to Done()/GetUserID() - a completion interleaved with one callback.
	LiveAt   int    `json:"live_at,omitempty"`
	LiveUser string `json:"live_user,omitempty"`
}

type C01Case struct {
	Spec world.Spec `json:"spec"`
	Ops  []C01Op    `json:"ops"`
}

var c01SeedIDs = []string{"seed-a", "Seed-A", "SEED-A", "seed-a ", " seed-a", "seed%2Da", "seed-b", "seed-b2", "s", "seed/../x", "seed&id=seed-b", "séed", "seed+c", "seed+c", "seed+c", "seed c", "seed%20c", "seed+c+d", "seed_c", "seed.c"}

var c01IDExprs = []string{"exact", "exact", "exact", "unknown", "empty", "upper", "lower", "blank-suffix", "blank-prefix", "percent-twin", "prefix", "suffix-junk", "plus-as-blank", "plus-as-blank", "blank-as-plus", "sep-twin"}
var c01Placements = []string{"query", "query", "form", "both-same", "query-ref+form-other", "query-other+form-ref", "repeat-ref-other", "repeat-other-ref", "api", "api"}

func genC01Case(t *rapid.T) C01Case {
	spec := stdSpec()
	spec.IdP.SignatureAlgorithm = rapid.SampledFrom([]string{world.AlgRSASHA256, world.AlgRSASHA256, world.AlgRSASHA1, "urn:example:unusable-algorithm"}).Draw(t, "sigalg")
	spec.SPs[1].AuthnRequestsSigned = A // all three SPs accept unsigned requests here
	// configuration fields that have nothing to say about who gets an assertion
	spec.IdP.IDPInsecure = rapid.Bool().Draw(t, "idp-insecure-field")
	spec.IdP.Insecure = rapid.IntRange(0, 3).Draw(t, "allow-insecure") == 0
	big := stdUser(7)
	big.UserID, big.LoginName = "uid-big", "loginbig@users.example"
	big.Custom = append(big.Custom, world.CustomAttr{Name: "groups", NameFormat: "urn:oasis:names:tc:SAML:2.0:attrname-format:basic", Values: bigValues(400, "c01")})
	spec.Users = append(spec.Users, big) // a record whose response does not fit a redirect URL of a few kilobytes
	same := stdUser(8)
	same.UserID, same.LoginName = "samename@users.example", "samename@users.example"
	spec.Users = append(spec.Users, same) // a directory keyed by login name: the user's id IS the login name
	c := C01Case{Spec: spec}
	n := rapid.IntRange(6, 40).Draw(t, "nops")
	for i := 0; i < n; i++ {
		kind := rapid.SampledFrom([]string{"sso", "seed", "seed", "complete", "complete", "fault", "callback", "callback", "callback", "callback"}).Draw(t, "op")
		op := C01Op{Kind: kind}
		switch kind {
		case "sso":
			op.SP = rapid.IntRange(0, 2).Draw(t, "sp")
			op.Binding = rapid.SampledFrom([]string{"post", "redirect"}).Draw(t, "binding")
			op.Relay = rapid.SampledFrom(relayStates).Draw(t, "relay")
		case "seed":
			sp := rapid.IntRange(0, 2).Draw(t, "sp")
			done := rapid.IntRange(0, 2).Draw(t, "done") == 0
			user := rapid.SampledFrom([]string{"", "uid-0", "uid-big", "uid-1", "uid-unknown", "uid-big", "samename@users.example"}).Draw(t, "user")
			if done && user == "" {
				user = "uid-0"
			}
			op.Seed = &world.RequestSpec{
				ID: rapid.SampledFrom(c01SeedIDs).Draw(t, "seedid"), AppID: fmt.Sprintf("app-%d", sp),
				RelayState:    rapid.SampledFrom(append(relayStates[1:], bigString(9000, "bigrelay-"))).Draw(t, "relay"),
				ACS:           rapid.SampledFrom([]string{fmt.Sprintf("https://sp%d.example/acs/post", sp), "", "https://elsewhere.example/acs?x=1&y=2"}).Draw(t, "acs"),
				Binding:       rapid.SampledFrom([]string{world.BindPost, world.BindRedirect, world.BindPost, world.BindRedirect, world.BindArtifact, ""}).Draw(t, "binding"),
				AuthRequestID: "_orig-" + fmt.Sprint(i), UserID: user, Done: done,
			}
			if rapid.IntRange(0, 9).Draw(t, "unknownapp") == 0 {
				op.Seed.AppID = "app-unknown"
			}
		case "complete":
			op.Ref = rapid.IntRange(0, 50).Draw(t, "ref")
			op.User = rapid.SampledFrom([]string{"uid-0", "uid-big", "uid-1", "uid-0", "uid-1", "uid-unknown", "uid-big", "samename@users.example"}).Draw(t, "user")
		case "fault":
			op.FaultOp = rapid.SampledFrom([]string{"SetUserinfoWithUserID", "SetUserinfoWithUserID", "GetResponseSigningKey", "GetEntityIDByAppID", "AuthRequestByID"}).Draw(t, "faultop")
			op.FaultKind = rapid.SampledFrom([]string{"error", "error", "errval"}).Draw(t, "faultkind0")
			if op.FaultOp == "SetUserinfoWithUserID" {
				op.FaultKind = rapid.SampledFrom([]string{"error", "partial", "partial"}).Draw(t, "faultkind1")
			}
			if op.FaultOp == "GetResponseSigningKey" {
				op.FaultKind = rapid.SampledFrom([]string{"error", "nil", "nokey", "zerokey", "nocert", "emptycert", "mismatch", "mismatch", "errval"}).Draw(t, "faultkind")
			}
		case "callback":
			op.Ref = rapid.IntRange(0, 50).Draw(t, "ref")
			op.Ref2 = rapid.IntRange(0, 50).Draw(t, "ref2")
			op.IDExpr = rapid.SampledFrom(c01IDExprs).Draw(t, "idexpr")
			op.Placement = rapid.SampledFrom(c01Placements).Draw(t, "placement")
			if rapid.IntRange(0, 4).Draw(t, "live") == 0 {
				op.IDExpr = "exact"
				op.LiveAt = rapid.IntRange(1, 5).Draw(t, "liveat")
				op.LiveUser = rapid.SampledFrom([]string{"uid-0", "uid-1", "uid-big", "samename@users.example"}).Draw(t, "liveuser")
			}
		}
		c.Ops = append(c.Ops, op)
	}
	return c
}

func c01IDValue(expr, id string) string {
	switch expr {
	case "unknown":
		return "no-such-request-" + id
	case "empty":
		return ""
	case "upper":
		return strings.ToUpper(id)
	case "lower":
		return strings.ToLower(id)
	case "blank-suffix":
		return id + " "
	case "blank-prefix":
		return " " + id
	case "percent-twin":
		if len(id) > 0 {
			return fmt.Sprintf("%%%02X", id[0]) + id[1:] // after one decoding still a literal %XX
		}
		return "%2D"
	case "prefix":
		if len(id) > 1 {
			return id[:len(id)-1]
		}
		return ""
	case "suffix-junk":
		return id + "\x00x"
	case "plus-as-blank":
		// what an id with a '+' becomes when it travels unescaped through form decoding
		if strings.Contains(id, "+") {
			return strings.ReplaceAll(id, "+", " ")
		}
		return "seed c" // the blank twin of an id that histories often store with a '+'
	case "blank-as-plus":
		if strings.Contains(id, " ") {
			return strings.ReplaceAll(id, " ", "+")
		}
		return id + "+x"
	case "sep-twin":
		// other separator characters in place of the id's
		return strings.NewReplacer("-", "_", "_", "-", "+", "%2B", ".", "-").Replace(id)
	}
	return id
}

type c01Stats struct {
	callbacks, nontrivial int
	classes               map[string]int
	fps                   map[string]bool
	sample                []any
}

// c01Execute runs a history and returns the first violation of the invariant.
func c01Execute(c C01Case, st *c01Stats) []*ev.Violation {
	w := mustBuild(c.Spec)
	var ids []string // ids of stored requests in creation order (the program refers to them by index)
	markers := map[string][]string{}
	var allMarkers []string
	for _, u := range c.Spec.Users {
		markers[u.UserID] = userMarkers(u)
		allMarkers = append(allMarkers, userMarkers(u)...)
		allMarkers = append(allMarkers, u.UserID, u.LoginName) // identifiers of the subject count as well
	}
	users := map[string]world.UserSpec{}
	for _, u := range c.Spec.Users {
		users[u.UserID] = u
	}
	var pendingFault *world.Fault
	for step, op := range c.Ops {
		switch op.Kind {
		case "sso":
			s := SSOCase{Spec: c.Spec, Host: defHost, SP: op.SP, Req: spsim.NewAuthnReq(fmt.Sprintf("_c01-%d", step), c.Spec.SPs[op.SP].EntityID), Style: plainStyle,
				Tr: spsim.Transport{Binding: op.Binding, Plus: true, Encoding: A, RelayState: op.Relay}}
			hr, _, err := ssoRender(s, time.Now())
			if err != nil {
				panic("harness: " + err.Error())
			}
			before := len(w.Store.RequestIDs())
			obs.Do(w.Handler, hr)
			after := w.Store.RequestIDs()
			if len(after) > before {
				ids = append(ids, after[len(after)-1])
			}
		case "seed":
			known := false
			for _, id := range ids {
				if id == op.Seed.ID {
					known = true
				}
			}
			w.Store.PutRequest(*op.Seed)
			if !known {
				ids = append(ids, op.Seed.ID)
			}
		case "complete":
			if len(ids) > 0 {
				w.Store.CompleteLogin(ids[op.Ref%len(ids)], op.User)
			}
		case "fault":
			pendingFault = &world.Fault{Op: op.FaultOp, Occurrence: 0, Kind: op.FaultKind}
		case "callback":
			ref, other := "seed-none", "seed-none2"
			if len(ids) > 0 {
				ref, other = ids[op.Ref%len(ids)], ids[op.Ref2%len(ids)]
			}
			v1 := c01IDValue(op.IDExpr, ref)
			var supplied []string
			hr := obs.HTTPReq{Method: "GET", Path: c.Spec.IdP.Route("callback")}
			switch op.Placement {
			case "query":
				hr.RawQuery = "id=" + qesc(v1)
				supplied = []string{v1}
			case "form":
				hr.Method, hr.ContentType, hr.Body = "POST", "application/x-www-form-urlencoded", "id="+qesc(v1)
				supplied = []string{v1}
			case "both-same":
				hr.Method, hr.ContentType, hr.Body, hr.RawQuery = "POST", "application/x-www-form-urlencoded", "id="+qesc(v1), "id="+qesc(v1)
				supplied = []string{v1}
			case "query-ref+form-other":
				hr.Method, hr.ContentType, hr.Body, hr.RawQuery = "POST", "application/x-www-form-urlencoded", "id="+qesc(other), "id="+qesc(v1)
				supplied = []string{v1, other}
			case "query-other+form-ref":
				hr.Method, hr.ContentType, hr.Body, hr.RawQuery = "POST", "application/x-www-form-urlencoded", "id="+qesc(v1), "id="+qesc(other)
				supplied = []string{v1, other}
			case "repeat-ref-other":
				hr.RawQuery = "id=" + qesc(v1) + "&id=" + qesc(other)
				supplied = []string{v1, other}
			case "repeat-other-ref":
				hr.RawQuery = "id=" + qesc(other) + "&id=" + qesc(v1)
				supplied = []string{v1, other}
			case "api":
				// not through the endpoint: the exported Provider.AuthCallbackResponse, as an application with its own login UI uses it
				supplied = []string{v1}
			}
			if pendingFault != nil {
				w.Store.SetFaults([]world.Fault{*pendingFault})
			}
			w.Store.ResetLog()
			if pendingFault != nil {
				w.Store.SetFaults([]world.Fault{*pendingFault})
			}
			// snapshot of the named requests before the call
			type named struct {
				id   string
				spec world.RequestSpec
			}
			var doneNamed []named
			stateOfFirst := "absent"
			anyPending, anyDone := false, false
			for _, id := range w.Store.RequestIDs() {
				if r := w.Store.Request(id); r != nil {
					if r.S.Done {
						anyDone = true
					} else {
						anyPending = true
					}
				}
			}
			for i, sid := range supplied {
				if r := w.Store.Request(sid); r != nil {
					if r.S.Done {
						doneNamed = append(doneNamed, named{sid, r.S})
					}
					if i == 0 {
						stateOfFirst = map[bool]string{true: "done", false: "pending"}[r.S.Done]
					}
				}
			}
			live := false
			if r := w.Store.Request(v1); op.LiveAt > 0 && r != nil && !r.S.Done {
				live = true
				w.Store.ArmLive(v1, op.LiveAt-1, op.LiveUser)
			}
			var rep obs.Reply
			if op.Placement == "api" {
				rep = apiCallback(w, defHost, v1)
			} else {
				rep = obs.Do(w.Handler, hr)
			}
			if live {
				if w.Store.LiveFired() {
					// the completion landed during this callback: from then on the request is done, by LiveUser and nobody else
					doneNamed = append(doneNamed, named{v1, w.Store.Request(v1).S})
					stateOfFirst = "completing"
				}
				w.Store.DisarmLive()
				st.classes[fmt.Sprintf("live-completion/at-access-%d/landed=%v", op.LiveAt, stateOfFirst == "completing")]++
			}
			calls := w.Store.Calls()
			faultName := "none"
			if pendingFault != nil {
				faultName = pendingFault.Op + ":" + pendingFault.Kind
			}
			w.Store.SetFaults(nil)
			pendingFault = nil

			if rep.Panic != "" {
				return []*ev.Violation{ev.V("C01/panic", "step %d: handler panicked: %s", step, short(rep.Panic, 100))}
			}
			d := obs.Decode(rep)
			var resp *obs.ResponseInfo
			if d.Doc != nil {
				resp = obs.ReadResponse(obs.FindResponse(d.Root()))
			}
			fail := func(key, f string, a ...any) []*ev.Violation {
				return []*ev.Violation{ev.V("C01/"+key, fmt.Sprintf("step %d (%s %s, first id %s, fault %s): ", step, op.IDExpr, op.Placement, stateOfFirst, faultName)+f, a...)}
			}
			nt := anyPending && anyDone
			st.callbacks++
			if nt {
				st.nontrivial++
			}
			bindingOfFirst := ""
			if r := w.Store.Request(supplied[0]); r != nil {
				bindingOfFirst = shortBinding(r.S.Binding)
			}
			outcome := "non-success"
			if resp.Success() {
				outcome = "success"
			} else if resp == nil {
				outcome = "http-" + fmt.Sprint(rep.Status)
			}
			st.classes["callback/"+stateOfFirst+"/"+outcome]++
			st.classes["idexpr/"+op.IDExpr]++
			st.classes["placement/"+op.Placement]++
			st.classes["fault/"+faultName]++
			if nt {
				st.fps[ev.Fingerprint(stateOfFirst, op.IDExpr, op.Placement, bindingOfFirst, faultName, outcome, len(doneNamed))] = true
			}
			if len(st.sample) < 6 && nt {
				st.sample = append(st.sample, map[string]any{"step": step, "stored": w.Store.RequestIDs(), "supplied_ids": supplied, "placement": op.Placement, "state_of_first_id": stateOfFirst, "fault": faultName, "reply": d.Kind, "status": rep.Status, "outcome": outcome})
			}

			// (c) user info is only fetched for a named, done request
			for _, cl := range calls {
				if cl.Op == "SetUserinfoWithUserID" && len(doneNamed) == 0 {
					return fail("userinfo-fetched-without-done-request", "SetUserinfoWithUserID%v called although no supplied id names a completed request (supplied %q)", cl.Args, supplied)
				}
				if cl.Op == "SetUserinfoWithUserID" && len(cl.Args) >= 2 {
					ok := false
					for _, nreq := range doneNamed {
						ok = ok || nreq.spec.UserID == cl.Args[1]
					}
					if !ok {
						return fail("userinfo-fetched-for-another-user", "SetUserinfoWithUserID%v: the user is not the one who completed any named request %v", cl.Args, doneNamed)
					}
				}
			}
			if resp.Success() {
				// (a)
				for _, cl := range calls {
					if cl.Faulted && (cl.Op == "SetUserinfoWithUserID" || cl.Op == "GetResponseSigningKey") {
						return fail("success-despite-failure", "Success response although %s failed (%s)", cl.Op, faultName)
					}
				}
				if alg := c.Spec.IdP.SignatureAlgorithm; alg != world.AlgRSASHA1 && alg != world.AlgRSASHA256 {
					return fail("success-despite-failure", "Success response although the configured signature algorithm %q cannot sign", alg)
				}
				if len(doneNamed) == 0 {
					return fail("success-without-completed-request", "Success response although none of the supplied ids %q names a stored request that is done", supplied)
				}
				if len(resp.Assertions) != 1 {
					return fail("success-assertion-count", "%d assertions", len(resp.Assertions))
				}
				a := resp.Assertions[0]
				match := false
				for _, nreq := range doneNamed {
					u, ok := users[nreq.spec.UserID]
					if ok && a.NameID == u.Username && attrMultisetDiff(expectedAttrs(u), a.Attrs) == "" {
						match = true
					}
				}
				if !match {
					return fail("assertion-about-another-user", "Success assertion (NameID %q, %d attributes) is not about the user of any named completed request %v", a.NameID, len(a.Attrs), doneNamed)
				}
				continue
			}
			// (b) no user data in any other reply
			texts := replyTexts(rep, d)
			if m, found := containsAny(allMarkers, texts...); found {
				return fail("user-data-in-failure-reply", "reply (status %d, %s) contains the user marker %q", rep.Status, d.Kind, m)
			}
			if resp != nil {
				if resp.Status == "" {
					return fail("response-without-status", "Response without a status code")
				}
				for _, a := range resp.Assertions {
					if has, what := a.CarriesUserData(); has {
						return fail("user-data-in-failure-reply", "non-Success response carries %s", what)
					}
				}
				if resp.Signature != nil {
					return fail("signature-in-failure-reply", "non-Success response carries a Signature")
				}
			} else if d.Kind == obs.KindPostForm || d.Kind == obs.KindRedirectSAML || d.Kind == obs.KindXML {
				if d.Doc == nil {
					return fail("failure-reply-not-decodable", "%s reply whose SAML message does not parse: %s", d.Kind, d.XMLErr)
				}
			}
			if d.Doc != nil {
				var leak string
				d.Root().Walk(func(n *xt.Node) {
					if (n.Local == "AttributeValue" || n.Local == "SignatureValue") && leak == "" {
						leak = n.Local
					}
				})
				if leak != "" {
					return fail("user-data-in-failure-reply", "non-Success reply contains a %s element", leak)
				}
			}
			if len(d.RawParam("Signature")) > 0 {
				return fail("signature-in-failure-reply", "redirect of a non-Success reply carries a Signature parameter")
			}
		}
	}
	return nil
}

func TestC01(t *testing.T) {
	col := ev.For("C01", "exploration", c01Rule)
	searchRapid(t, col, genC01Case, func(c C01Case) []*ev.Violation {
		st := &c01Stats{classes: map[string]int{}, fps: map[string]bool{}}
		vs := c01Execute(c, st)
		for k, n := range st.classes {
			col.Count(k, n)
		}
		col.Count("callbacks", st.callbacks)
		col.Count("callbacks-nontrivial", st.nontrivial)
		var fps []string
		for f := range st.fps {
			fps = append(fps, f)
		}
		// the evaluated unit is the callback (the invariant runs after each); histories are counted as a class
		col.Bulk(st.callbacks, fps)
		col.Count("histories", 1)
		for _, s := range st.sample[:minInt(len(st.sample), 1)] {
			col.Sample(s)
		}
		return vs
	})
}

func minInt(a, b int) int {
	if a < b {
		return a
	}
	return b
}
