package props

// C11 — Published metadata matches what the IdP actually does.

import (
	"bytes"
	"encoding/base64"
	"fmt"
	"sort"
	"strings"
	"testing"
	"time"

	"pgregory.net/rapid"

	"verif/harness/ev"
	"verif/harness/obs"
	"verif/harness/spsim"
	"verif/harness/world"
	"verif/harness/xt"
)

const c11Rule = "rapid: provider configurations (static issuer with/without path, trailing slash, port; Host- and Forwarded-derived issuers with path; each of the six endpoints default / custom path with or without leading slash / nested path / external URL; WantAuthRequestsSigned in {'', false, 0, true, 1}; response algorithm; metadata signing on/off; encryption algorithm, organisation, contact, validity, cache duration, error URL set/unset; time format) x request Host / Forwarded values. Oracle: the served metadata is one well-formed md:EntityDescriptor; its entityID equals the Issuer of the replies that the SSO, callback, logout and attribute-query handlers produce for the same request host; every advertised Location is the configured URL, or issuer-without-trailing-slash + '/' + path whose path part is a route on which a valid request of the matching kind is handled by the matching handler (AuthnRequest -> 303 login redirect, callback -> Response, LogoutRequest -> LogoutResponse Success, AttributeQuery -> SOAP Success, certificate -> PEM); the signing KeyDescriptor certificate is the certificate endpoint's PEM and the KeyInfo certificate of an issued assertion, and verifies it; WantAuthnRequestsSigned is advertised as true/1 exactly when an unsigned, otherwise valid request from an SP that does not itself require signing is refused (and, when advertised, also refused through the redirect binding and as a form whose action URL repeats the message in its query). Non-trivial: a non-default path, an issuer with path / trailing slash, or a host-derived issuer. Distinct by configuration vector."

type C11Case struct {
	Spec    world.Spec  `json:"spec"`
	Host    string      `json:"host"`
	Headers [][2]string `json:"headers,omitempty"`
	// Rotate: after a first round of requests the storage rolls the response-signing key over and everything is checked again.
	Rotate bool `json:"rotate_key,omitempty"`
}

var c11Paths = map[string][]string{
	"metadata":    {"/metadata", "md", "/saml/v2/metadata", "entity.xml", "/métadonnées", "meta data", "/md/"},
	"certificate": {"certificate", "/cert", "keys/signing.crt"},
	"callback":    {"login", "/login/callback", "cb"},
	"sso":         {"SSO", "/sso", "auth/signon", "/a/b/c/sso", "/saml/sso/", "sso/"},
	"slo":         {"SLO", "/slo", "auth/logout", "saml/slo/"},
	"attribute":   {"attribute", "/attr", "query/attributes", "/attr/"},
}

func genC11Case(t *rapid.T) C11Case {
	idp := genIdPConfig(t, worldOpts{issuerModes: []string{"static", "static", "host", "forwarded"}, signingFlags: false})
	if idp.IssuerMode == "static" && rapid.IntRange(0, 5).Draw(t, "oddissuer") == 0 {
		idp.Issuer = rapid.SampledFrom([]string{"https://idp.example/métadonnées", "https://idp.example/tenant a", "https://idp.example/a%20b", "https://bücher.example/saml", "https://xn--bcher-kva.example/saml", "https://idp--staging.example", "https://idp.example/a--b/--", "https://idp.example/--x"}).Draw(t, "oddissuerv")
		if idp.Insecure {
			idp.Issuer = strings.Replace(idp.Issuer, "https://", "http://", 1)
		}
	}
	idp.WantAuthRequestsSigned = rapid.SampledFrom([]string{"", "", "false", "0", "true", "1", "true", "1", "True", "TRUE", "T", "t", "False", "yes", "on", " true", "01"}).Draw(t, "want")
	idp.Endpoints = map[string]world.EndpointSpec{}
	names := []string{"metadata", "certificate", "callback", "sso", "slo", "attribute"}
	for _, name := range names {
		switch rapid.IntRange(0, 3).Draw(t, "ep-"+name) {
		case 0: // default
		case 1, 2:
			idp.Endpoints[name] = world.EndpointSpec{Path: rapid.SampledFrom(c11Paths[name]).Draw(t, "path-"+name)}
		case 3:
			idp.Endpoints[name] = world.EndpointSpec{Path: rapid.SampledFrom(c11Paths[name]).Draw(t, "path-"+name), URL: "https://edge.example/public/" + name}
		}
	}
	if rapid.IntRange(0, 4).Draw(t, "nested") == 0 {
		// one path family: the endpoints live below the metadata path (or the metadata path is a prefix of theirs)
		base := rapid.SampledFrom([]string{"/saml", "/saml/", "/metadata", "/idp", "/"}).Draw(t, "nestedbase")
		idp.Endpoints["metadata"] = world.EndpointSpec{Path: base}
		b := strings.TrimSuffix(base, "/")
		idp.Endpoints["sso"] = world.EndpointSpec{Path: b + "/sso"}
		idp.Endpoints["slo"] = world.EndpointSpec{Path: strings.TrimPrefix(b+"/slo", "/")}
		idp.Endpoints["attribute"] = world.EndpointSpec{Path: b + "/attribute"}
		if rapid.Bool().Draw(t, "nestedcert") {
			idp.Endpoints["certificate"] = world.EndpointSpec{Path: b + "/certificate"}
			idp.Endpoints["callback"] = world.EndpointSpec{Path: b + "/login"}
		}
	}
	if rapid.Bool().Draw(t, "mdsig") {
		idp.MetadataSigAlg = rapid.SampledFrom([]string{world.AlgRSASHA1, world.AlgRSASHA256}).Draw(t, "mdalg")
	}
	if rapid.Bool().Draw(t, "enc") {
		idp.EncryptionAlgorithm = "http://www.w3.org/2001/04/xmlenc#aes256-cbc"
	}
	if rapid.Bool().Draw(t, "org") {
		idp.Organisation = &world.OrgSpec{Name: xt.TameString(3).Draw(t, "orgname"), DisplayName: "Org", URL: "https://org.example"}
	}
	if rapid.Bool().Draw(t, "contact") {
		idp.Contact = &world.ContactSpec{ContactType: "technical", Company: "C", GivenName: xt.TameString(3).Draw(t, "cgiven"), SurName: "S", Email: "mailto:a@b.example", Phone: "+1"}
	}
	idp.ValidUntilSec = rapid.SampledFrom([]int{0, 60, 86400}).Draw(t, "validuntil")
	idp.CacheDuration = rapid.SampledFrom([]string{"", "PT5M"}).Draw(t, "cache")
	idp.ErrorURL = rapid.SampledFrom([]string{"", "https://idp.example/error"}).Draw(t, "errorurl")
	idp.TimeFormat = rapid.SampledFrom([]string{"", "", time.RFC3339}).Draw(t, "timeformat")
	spec := stdSpec()
	spec.IdP = idp
	spec.SPs[1].AuthnRequestsSigned = A
	spec.Requests = []world.RequestSpec{{ID: "c11-done", AppID: "app-0", RelayState: "rs", ACS: "https://sp0.example/acs/post", Binding: world.BindPost, AuthRequestID: "_c11", UserID: "uid-0", Done: true}}
	spec.KeysPerIssuer = rapid.IntRange(0, 2).Draw(t, "keysperissuer") == 0
	switch rapid.IntRange(0, 5).Draw(t, "interceptors") {
	case 0:
		spec.IdP.InterceptorNeutral = true
	case 1:
		// the application resolves the tenant itself and puts its issuer into the context of every request
		spec.IdP.InterceptorIssuer = rapid.SampledFrom([]string{"https://tenant-from-interceptor.example/saml", "https://tenant-from-interceptor.example"}).Draw(t, "interceptorissuer")
		spec.IdP.InterceptorNeutral = rapid.Bool().Draw(t, "interceptorboth")
	}
	c := C11Case{Spec: spec, Host: rapid.SampledFrom(append(reqHosts, "UPPER.Example", "idp.example.", "localhost:8080", "xn--bcher-kva.idp.example", "idp--staging.example:8443", "a--b--c.example",
		// a Host header may be as long as the server accepts: the entity ID derived from it exceeds every schema facet
		strings.Repeat("long-label-of-the-tenant.", 44)+"idp.example", strings.Repeat("x", 4000)+".idp.example:8443")).Draw(t, "host")}
	c.Rotate = rapid.IntRange(0, 2).Draw(t, "rotate") == 0
	if idp.IssuerMode == "forwarded" && rapid.Bool().Draw(t, "fwd") {
		c.Headers = [][2]string{{"Forwarded", "for=192.0.2.9;host=" + rapid.SampledFrom([]string{"public.idp.example", "\"proxy.example:444\"", "xn--public-idp.example"}).Draw(t, "fwdhost")}}
	}
	return c
}

func c11Run(c C11Case) (vs []*ev.Violation, summary map[string]any) {
	w := mustBuild(c.Spec)
	vs, summary = c11Round(c, w, "")
	if len(vs) == 0 {
		// what is published while the key store is down: an error, or a document that still names the signing certificate - never
		// a description of an IdP without key
		for _, kind := range []string{"error", "nil", "timeout"} {
			w.Store.SetFaults([]world.Fault{{Op: "GetResponseSigningKey", Occurrence: 0, Kind: kind}})
			rep := obs.Do(w.Handler, obs.HTTPReq{Method: "GET", Path: c.Spec.IdP.Route("metadata"), Host: c.Host, Headers: c.Headers})
			w.Store.SetFaults(nil)
			if rep.Panic != "" {
				vs = append(vs, ev.V("C11/panic", "metadata handler panicked while the key store failed (%s): %s", kind, rep.Panic))
				break
			}
			if rep.Status != 200 {
				continue
			}
			doc, err := xt.Parse(rep.Body)
			if err != nil {
				vs = append(vs, ev.V("C11/metadata-not-well-formed", "while the key store failed (%s): %v", kind, err))
				break
			}
			n := 0
			doc.Root.Walk(func(e *xt.Node) {
				if e.Space == world.NSDS && e.Local == "X509Certificate" && strings.TrimSpace(e.Text()) != "" {
					n++
				}
			})
			if n == 0 {
				vs = append(vs, ev.V("C11/no-signing-keydescriptor", "metadata served with status 200 while the key store failed (%s) names no signing certificate", kind))
				break
			}
		}
		w.Store.ResetLog()
	}
	if c.Rotate && len(vs) == 0 {
		w.Store.RotateResponseKey("sp-2048")
		w.Store.ResetLog()
		w.Store.PutRequest(c.Spec.Requests[0])
		vs2, s2 := c11Round(c, w, "after key roll-over: ")
		vs = append(vs, vs2...)
		summary["after_rotation"] = s2
	}
	return
}

func c11Round(c C11Case, w *world.World, stage string) (vs []*ev.Violation, summary map[string]any) {
	add := func(key, f string, a ...any) { vs = append(vs, ev.V("C11/"+key, stage+f, a...)) }
	summary = map[string]any{}
	cfg := c.Spec.IdP
	do := func(r obs.HTTPReq) obs.Reply {
		r.Host = c.Host
		r.Headers = append(r.Headers, c.Headers...)
		return obs.Do(w.Handler, r)
	}
	rep := do(obs.HTTPReq{Method: "GET", Path: cfg.Route("metadata")})
	if rep.Panic != "" {
		add("panic", "metadata handler panicked: %s", rep.Panic)
		return
	}
	if rep.Status != 200 {
		add("metadata-not-served", "GET %s -> %d %s", cfg.Route("metadata"), rep.Status, short(string(rep.Body), 100))
		return
	}
	doc, err := xt.Parse(rep.Body)
	if err != nil {
		add("metadata-not-well-formed", "%v", err)
		return
	}
	root := doc.Root
	if root.Space != world.NSMD || root.Local != "EntityDescriptor" {
		add("metadata-root", "document element {%s}%s", root.Space, root.Local)
		return
	}
	entityID := root.AttrV("entityID")
	summary["entityID"] = entityID
	host := effHost(SSOCase{Spec: c.Spec, Host: c.Host, Headers: c.Headers})
	issuer := cfg.ExpectedIssuer(host)
	idpd := root.Child(world.NSMD, "IDPSSODescriptor")
	aad := root.Child(world.NSMD, "AttributeAuthorityDescriptor")
	if idpd == nil || aad == nil {
		add("metadata-descriptors", "IDPSSODescriptor present %v, AttributeAuthorityDescriptor present %v", idpd != nil, aad != nil)
		return
	}
	// advertised locations
	locs := map[string][]string{}
	for _, e := range idpd.ChildrenNamed(world.NSMD, "SingleSignOnService") {
		locs["sso"] = append(locs["sso"], e.AttrV("Location"))
	}
	for _, e := range idpd.ChildrenNamed(world.NSMD, "SingleLogoutService") {
		locs["slo"] = append(locs["slo"], e.AttrV("Location"))
	}
	for _, e := range aad.ChildrenNamed(world.NSMD, "AttributeService") {
		locs["attribute"] = append(locs["attribute"], e.AttrV("Location"))
	}
	locs["metadata"] = []string{entityID}
	summary["locations"] = locs
	base := strings.TrimSuffix(issuer, "/")
	routes := map[string]string{}
	for _, name := range []string{"metadata", "sso", "slo", "attribute"} {
		if len(locs[name]) == 0 {
			add("location-missing", "no %s location advertised", name)
			continue
		}
		ep := cfg.Endpoint(name)
		for _, l := range locs[name] {
			if ep.URL != "" {
				if l != ep.URL {
					add("location-not-configured-url", "%s advertised at %q, configured URL %q", name, l, ep.URL)
				}
				continue
			}
			if !strings.HasPrefix(l, base+"/") {
				add("location-not-under-issuer", "%s advertised at %q, issuer in effect %q", name, l, issuer)
				continue
			}
			routes[name] = strings.TrimPrefix(l, base)
		}
		if ep.URL != "" {
			routes[name] = cfg.Route(name)
		}
	}
	if len(vs) > 0 {
		return
	}
	routes["callback"] = cfg.Route("callback")
	routes["certificate"] = cfg.Route("certificate")

	// every route must be served by the matching handler; collect the Issuers of the replies
	issuers := map[string]string{}
	now := time.Now()
	wr := func(n *xt.Node) []byte { return xt.Write(n, plainStyle.W) }
	{ // metadata route derived from the entityID
		r := do(obs.HTTPReq{Method: "GET", Path: routes["metadata"]})
		if d, err := xt.Parse(r.Body); err != nil || d.Root.Local != "EntityDescriptor" {
			add("route-not-served:metadata", "GET %s -> %d", routes["metadata"], r.Status)
		}
	}
	{ // SSO: a valid unsigned request from SP 0
		a := spsim.NewAuthnReq("_c11-sso", c.Spec.SPs[0].EntityID)
		a.IssueInstant = spsim.Instant(now, 0)
		a.Destination = locs["sso"][0]
		hr, _, _ := spsim.Encode(routes["sso"], wr(a.Tree(plainStyle)), spsim.Transport{Binding: "post", Plus: true, Encoding: A, RelayState: "rs"}, nil)
		r := do(hr)
		okCalls, _ := createCalls(w)
		accepted := len(okCalls) == 1 && r.Status == 303
		adv, hasAdv := idpd.Attr("WantAuthnRequestsSigned")
		advTrue := hasAdv && (adv == "true" || adv == "1")
		summary["want_advertised"] = adv
		summary["unsigned_accepted"] = accepted
		d := obs.Decode(r)
		switch {
		case accepted && advTrue:
			add("want-signed-advertised-but-unsigned-accepted", "WantAuthnRequestsSigned=%q is advertised, yet an unsigned request was accepted", adv)
		case !accepted && !advTrue:
			msg := ""
			if d.Doc != nil {
				if resp := obs.ReadResponse(obs.FindResponse(d.Root())); resp != nil {
					msg = resp.Status + " " + resp.StatusMessage
				}
			}
			add("valid-unsigned-request-refused", "WantAuthnRequestsSigned=%q (present %v) is advertised, yet an unsigned valid request addressed to the advertised location %q was refused on route %q: status %d %s %s", adv, hasAdv, locs["sso"][0], routes["sso"], r.Status, d.Kind, short(msg, 160))
		}
		// the same unsigned request travelling in other ways: through the redirect binding, and as a form whose action URL
		// repeats the message in its query - however a request is classified, what is advertised as required is required
		if advTrue {
			for i, via := range []string{"redirect", "post+query", "post+query-deflated", "post from a provider that registered no certificate", "redirect from a provider that registered no certificate"} {
				from := c.Spec.SPs[0].EntityID
				if strings.Contains(via, "no certificate") {
					from = c.Spec.SPs[2].EntityID
				}
				b := spsim.NewAuthnReq(fmt.Sprintf("_c11-sso-%d", i), from)
				b.IssueInstant = spsim.Instant(now, 0)
				b.Destination = locs["sso"][0]
				var hr2 obs.HTTPReq
				switch via {
				case "redirect", "redirect from a provider that registered no certificate":
					hr2, _, _ = spsim.Encode(routes["sso"], wr(b.Tree(plainStyle)), spsim.Transport{Binding: "redirect", Plus: true, Encoding: A, RelayState: "rs"}, nil)
				case "post from a provider that registered no certificate":
					hr2, _, _ = spsim.Encode(routes["sso"], wr(b.Tree(plainStyle)), spsim.Transport{Binding: "post", Plus: true, Encoding: A, RelayState: "rs"}, nil)
				case "post+query":
					hr2, _, _ = spsim.Encode(routes["sso"], wr(b.Tree(plainStyle)), spsim.Transport{Binding: "post", Plus: true, Encoding: A, RelayState: "rs"}, nil)
					hr2.RawQuery = hr2.Body
				default:
					hr2, _, _ = spsim.Encode(routes["sso"], wr(b.Tree(plainStyle)), spsim.Transport{Binding: "post", Plus: true, Encoding: A, RelayState: "rs"}, nil)
					q, _, _ := spsim.Encode(routes["sso"], wr(b.Tree(plainStyle)), spsim.Transport{Binding: "redirect", Plus: true, Encoding: A, RelayState: "rs"}, nil)
					hr2.RawQuery = q.RawQuery
				}
				before, _ := createCalls(w)
				r2 := do(hr2)
				after, _ := createCalls(w)
				if len(after) > len(before) || r2.Status == 303 {
					add("want-signed-advertised-but-unsigned-accepted", "WantAuthnRequestsSigned=%q is advertised, yet an unsigned request sent as %s was accepted (status %d)", adv, via, r2.Status)
				}
			}
		}
		// an error reply of the SSO handler, for its Issuer
		bad, _, _ := spsim.Encode(routes["sso"], []byte("<not-saml/>"), spsim.Transport{Binding: "post", Plus: true, Encoding: A, RelayState: A}, nil)
		rb := do(bad)
		db := obs.Decode(rb)
		if resp := obs.ReadResponse(obs.FindResponse(db.Root())); resp != nil && resp.Kind == "Response" {
			issuers["sso"] = resp.Issuer
		} else {
			add("route-not-served:sso", "POST %s with an undecodable request -> status %d %s, expected a SAML Response", routes["sso"], rb.Status, db.Kind)
		}
	}
	var issuedAssertion *obs.AssertionInfo
	var issuedWire []byte
	{ // callback
		r := do(obs.HTTPReq{Method: "GET", Path: routes["callback"], RawQuery: "id=c11-done"})
		d := obs.Decode(r)
		if resp := obs.ReadResponse(obs.FindResponse(d.Root())); resp != nil && resp.Kind == "Response" {
			issuers["callback"] = resp.Issuer
			if resp.Success() && len(resp.Assertions) == 1 {
				issuedAssertion, issuedWire = resp.Assertions[0], d.XML
				issuers["assertion"] = resp.Assertions[0].Issuer
			}
		} else {
			add("route-not-served:callback", "GET %s?id=... -> status %d %s", routes["callback"], r.Status, d.Kind)
		}
	}
	{ // logout
		l := spsim.NewLogoutReq("_c11-slo", c.Spec.SPs[0].EntityID, "usermark0")
		l.IssueInstant = spsim.Instant(now.Add(-10*time.Second), 0)
		hr, _, _ := spsim.Encode(routes["slo"], wr(l.Tree(plainStyle)), spsim.Transport{Binding: "post", Plus: true, Encoding: A, RelayState: A}, nil)
		r := do(hr)
		d := obs.Decode(r)
		if d.Doc != nil && d.Root().Local == "LogoutResponse" {
			resp := obs.ReadResponse(d.Root())
			issuers["slo"] = resp.Issuer
			if !resp.Success() && cfg.TimeFormat == "" {
				add("route-handler:slo", "valid LogoutRequest on %s -> %s %s", routes["slo"], resp.Status, resp.StatusMessage)
			}
		} else {
			add("route-not-served:slo", "POST %s -> status %d %s", routes["slo"], r.Status, d.Kind)
		}
	}
	{ // attribute query
		q := spsim.NewAttrQuery("_c11-aq", c.Spec.SPs[0].EntityID, "login0@users.example")
		q.IssueInstant = spsim.Instant(now, 0)
		q.Destination = locs["attribute"][0]
		hr, _, _ := spsim.Encode(routes["attribute"], wr(spsim.Envelope(q.QueryTree(plainStyle), "soap")), spsim.Transport{Binding: "soap"}, nil)
		r := do(hr)
		d := obs.Decode(r)
		if resp := obs.ReadResponse(obs.FindResponse(d.Root())); resp != nil && resp.Success() {
			issuers["attribute"] = resp.Issuer
		} else {
			add("route-not-served:attribute", "AttributeQuery addressed to the advertised location %q on route %s -> status %d %s %s", locs["attribute"][0], routes["attribute"], r.Status, d.Kind, short(string(r.Body), 120))
		}
	}
	var names []string
	for k := range issuers {
		names = append(names, k)
	}
	sort.Strings(names)
	for _, k := range names {
		if issuers[k] != entityID {
			add("issuer-differs-from-entityid:"+k, "metadata entityID %q, Issuer of the %s reply %q", entityID, k, issuers[k])
		}
	}
	summary["issuers"] = issuers
	// certificates
	var mdCert string
	for _, kd := range idpd.ChildrenNamed(world.NSMD, "KeyDescriptor") {
		if u := kd.AttrV("use"); u == "signing" {
			if x := kd.Path("KeyInfo", "X509Data", "X509Certificate"); x != nil {
				mdCert = strings.Join(strings.Fields(x.Text()), "")
			}
		}
	}
	if mdCert == "" {
		add("no-signing-keydescriptor", "IDPSSODescriptor has no KeyDescriptor use=signing with a certificate")
		return
	}
	rc := do(obs.HTTPReq{Method: "GET", Path: routes["certificate"]})
	dc := obs.Decode(rc)
	if dc.Kind != obs.KindPEM {
		add("route-not-served:certificate", "GET %s -> %d %s", routes["certificate"], rc.Status, dc.Kind)
	} else {
		body := string(rc.Body)
		b64 := strings.Join(strings.Fields(strings.NewReplacer("-----BEGIN CERTIFICATE-----", "", "-----END CERTIFICATE-----", "").Replace(body)), "")
		der1, _ := base64.StdEncoding.DecodeString(b64)
		der2, _ := base64.StdEncoding.DecodeString(mdCert)
		if !bytes.Equal(der1, der2) || len(der1) == 0 {
			add("certificate-endpoint-differs", "the certificate endpoint does not serve the certificate of the signing KeyDescriptor")
		}
	}
	if issuedAssertion != nil {
		if v := verifyEnvelopedOnWire("assertion", issuedWire, issuedAssertion.Node, mdCert, map[string]int{}); v != nil {
			add("published-key-does-not-verify-assertion", "%s: %s", v.Key, v.What)
		}
	}
	return
}

func TestC11(t *testing.T) {
	col := ev.For("C11", "exploration", c11Rule)
	searchRapid(t, col, genC11Case, func(c C11Case) []*ev.Violation {
		vs, summary := c11Run(c)
		cfg := c.Spec.IdP
		var vec []string
		for _, name := range []string{"metadata", "certificate", "callback", "sso", "slo", "attribute"} {
			e, custom := cfg.Endpoints[name]
			switch {
			case !custom:
				vec = append(vec, name+"=default")
			case e.URL != "":
				vec = append(vec, name+"=url")
			case strings.HasPrefix(e.Path, "/"):
				vec = append(vec, name+"=/path")
			default:
				vec = append(vec, name+"=path")
			}
		}
		nondefault := len(cfg.Endpoints) > 0 || cfg.IssuerMode != "static" || strings.Count(cfg.Issuer, "/") > 2
		classes := []string{"issuer/" + cfg.IssuerMode, "want/" + cfg.WantAuthRequestsSigned, fmt.Sprintf("mdsigned=%v", cfg.MetadataSigAlg != "")}
		classes = append(classes, vec...)
		col.Case(nondefault, ev.Fingerprint(vec, cfg.IssuerMode, cfg.Issuer, cfg.IssuerPath, cfg.WantAuthRequestsSigned, cfg.Insecure, c.Host, cfg.MetadataSigAlg != ""), classes, func() any {
			return map[string]any{"idp": cfg, "host": c.Host, "headers": c.Headers, "observed": summary}
		})
		return vs
	})
}
