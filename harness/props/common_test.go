package props

import (
	"encoding/json"
	"fmt"
	"io"
	"log"
	"os"
	"sync"
	"testing"
	"time"

	"github.com/sirupsen/logrus"
	"github.com/zitadel/logging"
	"pgregory.net/rapid"

	"verif/harness/ev"
)

func TestMain(m *testing.M) {
	// The IdP must not depend on the zone of the process it runs in: the checks run it in a zone that is hours away from
	// UTC (east or west, with a quarter-hour offset, chosen by the seed); the harness itself only ever formats UTC.
	zones := []*time.Location{time.FixedZone("VERIF+0545", 5*3600+45*60), time.FixedZone("VERIF-0930", -(9*3600 + 30*60)), time.FixedZone("VERIF+1300", 13*3600)}
	time.Local = zones[int(uint64(ev.Seed())%uint64(len(zones)))]
	logging.SetOutput(io.Discard)
	logging.SetLevel(logrus.PanicLevel)
	log.SetOutput(io.Discard)
	os.Exit(m.Run())
}

// searchRapid drives one property: gen draws a concrete, JSON-serialisable case; run executes
// it against the real code and returns every violation its oracle found. Violations whose
// root-cause key is an open known finding are counted and skipped, so the search continues
// around them; anything else fails the case (rapid then shrinks it) and becomes the replay file.
func searchRapid[C any](t *testing.T, col *ev.Collector, gen func(*rapid.T) C, run func(C) []*ev.Violation) {
	t.Helper()
	if os.Getenv("VERIF_REPLAY") != "" {
		replayCase(t, col, run)
		return
	}
	col.SetReplayTest(t.Name())
	defer func() { col.Report(t.Failed()) }()
	survey := os.Getenv("VERIF_SURVEY") != ""
	seen := map[string]int{}
	defer func() {
		for k, n := range seen {
			fmt.Printf("SURVEY %6d %s\n", n, k)
		}
	}()
	rapid.Check(t, func(rt *rapid.T) {
		c := gen(rt)
		if survey {
			for _, v := range run(c) {
				if v != nil {
					if seen[v.Key] == 0 {
						fmt.Printf("SURVEY-FIRST %s: %s\n", v.Key, v.What)
					}
					seen[v.Key]++
				}
			}
			return
		}
		if v := firstUnknown(col, run(c)); v != nil {
			col.Fail(v, c)
			rt.Fatalf("%s: %s", v.Key, v.What)
		}
	})
}

func firstUnknown(col *ev.Collector, vs []*ev.Violation) *ev.Violation {
	for _, v := range vs {
		if v == nil {
			continue
		}
		if !col.IsKnown(v) {
			return v
		}
	}
	return nil
}

// replayCase re-executes a saved concrete case without the generator library.
func replayCase[C any](t *testing.T, col *ev.Collector, run func(C) []*ev.Violation) {
	path := os.Getenv("VERIF_REPLAY")
	b, err := os.ReadFile(path)
	if err != nil {
		fmt.Printf("HARNESS-FAILURE cannot read replay %s: %v\n", path, err)
		os.Exit(2)
	}
	var f struct {
		Case C `json:"case"`
	}
	if err := json.Unmarshal(b, &f); err != nil {
		fmt.Printf("HARNESS-FAILURE cannot decode replay %s: %v\n", path, err)
		os.Exit(2)
	}
	defer func() { col.Report(t.Failed()) }()
	if v := firstUnknown(col, run(f.Case)); v != nil {
		col.Fail(v, f.Case)
		t.Fatalf("%s: %s", v.Key, v.What)
	}
	fmt.Printf("REPLAY-OK property=%s file=%s\n", col.ID, path)
}

// runPlain wraps a non-rapid search (enumerators): body reports violations through fail().
func runPlain(t *testing.T, col *ev.Collector, replayTest string, body func(fail func(v *ev.Violation, c any))) {
	t.Helper()
	if os.Getenv("VERIF_REPLAY") != "" {
		t.Skip("replay runs through " + replayTest)
	}
	col.SetReplayTest(replayTest)
	defer func() { col.Report(t.Failed()) }()
	stop := false
	seenKeys := map[string]bool{}
	var mu sync.Mutex
	body(func(v *ev.Violation, c any) {
		mu.Lock()
		defer mu.Unlock()
		if col.IsKnown(v) {
			return
		}
		if !seenKeys[v.Key] {
			seenKeys[v.Key] = true
			fmt.Printf("  distinct-violation-key %s: %s\n", v.Key, v.What)
		}
		if stop {
			return
		}
		stop = true
		col.Fail(v, c)
		t.Errorf("%s: %s", v.Key, v.What)
	})
}
