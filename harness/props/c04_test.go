package props

// C04 — Every signature the IdP emits verifies under a conformant verifier.

import (
	"bytes"
	"crypto/rsa"
	"crypto/x509"
	"encoding/base64"
	"encoding/pem"
	"fmt"
	"strings"
	"testing"
	"time"

	"pgregory.net/rapid"

	"verif/harness/dsigref"
	"verif/harness/ev"
	"verif/harness/obs"
	"verif/harness/spsim"
	"verif/harness/world"
	"verif/harness/xt"
)

const c04Rule = "rapid: signed artefacts of four kinds - POST-binding Success responses and Redirect-binding Success responses at the callback (stored requests seeded directly with any, also empty, consumer URL, or persisted by the SSO endpoint itself from SP metadata whose ACS Location has query strings and special characters), SOAP attribute-query responses, signed metadata - with strings drawn from an XML-legal alphabet rich in & < > \" ' CR LF TAB, edge blanks, entity look-alikes, non-ASCII and astral characters in every position that reaches the signed bytes (user attribute names / values / formats, NameID, audience, recipient, request ID, RelayState, organisation and contact data, entity IDs), signature algorithms rsa-sha1 / rsa-sha256. Oracle: the wire bytes are parsed by the harness's strict reader; Reference URI designates the enclosing element; enveloped-signature + own exclusive C14N digest equals DigestValue; SignedInfo verifies (crypto/rsa) under the certificate published in the metadata KeyDescriptor, which equals the certificate endpoint's PEM and the KeyInfo certificate; goxmldsig is run on the same bytes and a violation is raised only when both reject. Redirect: the reference HTTP-Redirect verifier works from the raw Location header. A Success assertion without a verifiable signature is a violation. Non-trivial: a signed string contains one of & < > \" CR LF TAB, an edge blank or a non-BMP character. Distinct by (artefact kind, algorithm, special-character classes, text/attribute position)."

type C04Case struct {
	Kind   string          `json:"kind"` // post | redirect | attrquery | metadata
	Spec   world.Spec      `json:"spec"`
	Host   string          `json:"host"`
	ViaSSO bool            `json:"via_sso,omitempty"`
	ReqID  string          `json:"request_id,omitempty"`
	Query  spsim.AttrQuery `json:"query"`
	Relay  string          `json:"relay_state,omitempty"`
	Noise  bool            `json:"noise,omitempty"`
	// Rotate: the storage rolls the response-signing key over after the noise round (or a first metadata fetch).
	Rotate bool `json:"rotate_key,omitempty"`
	// RotateTo: the key pair rolled over to ("" = sp-2048): also certificates minted for the response key with a validity window
	// relative to now (about to expire, valid since a moment ago) - valid certificates all of them
	RotateTo string `json:"rotate_to,omitempty"`
	// ViaAPI: the response is obtained through the exported Provider.AuthCallbackResponse (applications with their own login
	// UI), not through the callback endpoint
	ViaAPI bool `json:"via_api,omitempty"`
}

// c04Tame switches the string generators of a case to characters that need no escaping.
var c04Tame bool

func c04Str(max int) *rapid.Generator[string] {
	if c04Tame {
		return xt.TameString(max)
	}
	return xt.LegalString(max)
}

func genNonEmptyLegal(t *rapid.T, label string, max int) string {
	s := c04Str(max).Draw(t, label)
	if s == "" {
		return "v"
	}
	return s
}

// genSpecialUser draws a user record whose strings come from the XML-legal alphabet.
func genSpecialUser(t *rapid.T, n int) world.UserSpec {
	opt := func(label string) string {
		switch rapid.IntRange(0, 3).Draw(t, label+"-mode") {
		case 0:
			return ""
		case 1:
			return fmt.Sprintf("%s%d", label, n)
		}
		return genNonEmptyLegal(t, label, 5)
	}
	u := world.UserSpec{UserID: fmt.Sprintf("uid-%d", n), LoginName: fmt.Sprintf("login%d@users.example", n),
		Email: opt("email"), FullName: opt("fullname"), GivenName: opt("given"), Surname: opt("surname"), Username: opt("username"), UserIDAttr: opt("useridattr")}
	if rapid.IntRange(0, 9).Draw(t, "bare") == 0 {
		// a record with nothing but (perhaps) a user name: the attribute statement is empty
		u.Email, u.FullName, u.GivenName, u.Surname, u.UserIDAttr = "", "", "", "", ""
		if rapid.Bool().Draw(t, "bare-no-username") {
			u.Username = ""
		}
		return u
	}
	nc := rapid.IntRange(0, 3).Draw(t, "ncustom")
	seen := map[string]bool{}
	for i := 0; i < nc; i++ {
		name := opt("cname")
		if rapid.IntRange(0, 4).Draw(t, "cname-like-standard") == 0 {
			// a custom attribute may well be called like one of the six standard ones (or nearly so)
			name = rapid.SampledFrom([]string{"Email", "SurName", "FirstName", "FullName", "UserName", "UserID", "email", "Username", "UserId"}).Draw(t, "cname-standard")
		}
		if seen[name] {
			continue
		}
		seen[name] = true
		ca := world.CustomAttr{Name: name, FriendlyName: opt("cfriendly"), NameFormat: rapid.SampledFrom([]string{"", "urn:oasis:names:tc:SAML:2.0:attrname-format:basic", "urn:x?a=1&b=2"}).Draw(t, "cformat")}
		nv := rapid.IntRange(0, 3).Draw(t, "nvalues")
		for k := 0; k < nv; k++ {
			ca.Values = append(ca.Values, c04Str(5).Draw(t, "cvalue"))
		}
		u.Custom = append(u.Custom, ca)
	}
	// the user store may fill in defaults first and override them (every setter called twice; the last call is the record)
	u.Overridden = rapid.IntRange(0, 3).Draw(t, "overridden") == 0
	return u
}

func genC04Case(t *rapid.T) C04Case {
	c04Tame = rapid.IntRange(0, 2).Draw(t, "tame") == 0
	defer func() { c04Tame = false }()
	c := C04Case{Kind: rapid.SampledFrom([]string{"post", "post", "redirect", "attrquery", "metadata"}).Draw(t, "kind"), Host: rapid.SampledFrom(reqHosts).Draw(t, "host")}
	idp := genIdPConfig(t, worldOpts{issuerModes: []string{"static", "host"}})
	spec := world.Spec{IdP: idp}
	// a storage that keeps one response-signing key per issuer (tenant): what is signed for a request must be signed with the
	// key whose certificate is published for that request's issuer
	spec.KeysPerIssuer = rapid.IntRange(0, 2).Draw(t, "keysperissuer") == 0
	sp := stdSP(0)
	// what the provider wishes for, and how long copies of its metadata may be kept: nothing of it unsigns what leaves the IdP
	sp.WantAssertionsSigned = rapid.SampledFrom([]string{"", "", "true", "false", "0", "1"}).Draw(t, "wantassertionssigned")
	sp.AuthnRequestsSigned = rapid.SampledFrom([]string{A, A, "false", "0"}).Draw(t, "spsigned")
	sp.ValidUntil = rapid.SampledFrom([]string{"", "", "@future", "@past"}).Draw(t, "validuntil")
	switch c.Kind {
	case "attrquery":
		if rapid.Bool().Draw(t, "oddentity") {
			sp.EntityID = genNonEmptyLegal(t, "entityid", 5)
		}
	case "metadata":
		spec.IdP.MetadataSigAlg = rapid.SampledFrom([]string{world.AlgRSASHA1, world.AlgRSASHA256}).Draw(t, "mdalg")
		if rapid.Bool().Draw(t, "org") {
			spec.IdP.Organisation = &world.OrgSpec{Name: c04Str(5).Draw(t, "orgname"), DisplayName: c04Str(5).Draw(t, "orgdisplay"), URL: c04Str(5).Draw(t, "orgurl")}
		}
		if rapid.Bool().Draw(t, "contact") {
			spec.IdP.Contact = &world.ContactSpec{ContactType: rapid.SampledFrom([]string{"technical", "support", ""}).Draw(t, "ctype"), Company: c04Str(4).Draw(t, "company"), GivenName: c04Str(4).Draw(t, "cgiven"),
				SurName: c04Str(4).Draw(t, "csur"), Email: c04Str(4).Draw(t, "cmail"), Phone: c04Str(4).Draw(t, "cphone")}
		}
		if rapid.Bool().Draw(t, "enc") {
			spec.IdP.EncryptionAlgorithm = "http://www.w3.org/2001/04/xmlenc#aes256-cbc"
		}
		spec.IdP.ErrorURL = c04Str(3).Draw(t, "errorurl")
		spec.IdP.CacheDuration = rapid.SampledFrom([]string{"", "PT1H"}).Draw(t, "cache")
	}
	u := genSpecialUser(t, 0)
	spec.Users = []world.UserSpec{u}
	binding := world.BindPost
	if c.Kind == "redirect" {
		binding = world.BindRedirect
	}
	if c.Kind == "post" || c.Kind == "redirect" {
		c.ViaSSO = rapid.IntRange(0, 3).Draw(t, "viasso") == 0
		acsChoices := []string{"https://sp0.example/acs", "https://sp0.example/acs?tenant=a&x=1", "https://sp0.example/acs?q=\"x\"", "https://sp0.example/a<b>c", "https://sp0.example/acs/ü/𝄞", "https://sp0.example/acs?r=a b"}
		if c.ViaSSO {
			sp.ACS = []world.ACSSpec{acs(binding, rapid.SampledFrom(acsChoices).Draw(t, "acs"), "0", A)}
			c.Relay = rapid.SampledFrom(relayStates[1:]).Draw(t, "relay")
		} else {
			acsURL := rapid.SampledFrom(append(acsChoices, "", c04Str(4).Draw(t, "acsany"))).Draw(t, "sacs")
			spec.Apps = map[string]string{"app-x": genNonEmptyLegal(t, "audience", 5)}
			c.ReqID = "seeded-c04"
			spec.Requests = []world.RequestSpec{{ID: c.ReqID, AppID: "app-x", RelayState: c04Str(4).Draw(t, "srelay"), ACS: acsURL, Binding: binding,
				AuthRequestID: c04Str(4).Draw(t, "sreqid"), UserID: u.UserID, Done: true}}
		}
	}
	spec.SPs = []world.SPSpec{sp}
	if c.Kind == "attrquery" {
		q := spsim.NewAttrQuery(genNonEmptyLegal(t, "qid", 4), sp.EntityID, u.LoginName)
		if rapid.Bool().Draw(t, "filter") && len(u.Custom) > 0 {
			q.Attrs = []spsim.QAttr{{Name: u.Custom[0].Name, NameFormat: u.Custom[0].NameFormat, FriendlyName: A}}
			if u.Email != "" {
				q.Attrs = append(q.Attrs, spsim.QAttr{Name: "Email", NameFormat: "urn:oasis:names:tc:SAML:2.0:attrname-format:basic", FriendlyName: A})
			}
		} else if rapid.IntRange(0, 3).Draw(t, "nomatch") == 0 {
			// only attributes the user does not have: the answer is an assertion with an empty attribute statement
			q.Attrs = []spsim.QAttr{{Name: "NoSuchAttribute", NameFormat: "urn:oasis:names:tc:SAML:2.0:attrname-format:basic", FriendlyName: A}}
		}
		c.Query = q
	}
	c.Spec = spec
	c.Noise = rapid.IntRange(0, 2).Draw(t, "noise") == 0
	c.Rotate = rapid.IntRange(0, 3).Draw(t, "rotate") == 0
	if c.Rotate {
		c.RotateTo = rapid.SampledFrom([]string{"", "", "idp-response@-3600:120", "idp-response@-20:86400", "sp-2048@-86400:240"}).Draw(t, "rotateto")
	}
	c.ViaAPI = (c.Kind == "post" || c.Kind == "redirect") && rapid.IntRange(0, 3).Draw(t, "viaapi") == 0
	switch rapid.IntRange(0, 11).Draw(t, "big") {
	case 0:
		c.Spec.Users[0].Custom = append(c.Spec.Users[0].Custom, world.CustomAttr{Name: "groups-big", Values: bigValues(rapid.SampledFrom([]int{150, 400}).Draw(t, "nbig"), "c04")})
	case 1:
		c.Spec.Users[0].Custom = append(c.Spec.Users[0].Custom, world.CustomAttr{Name: "blob-big", Values: []string{bigString(12000, "c04-")}})
	}
	if rapid.IntRange(0, 9).Draw(t, "keyfault") == 0 {
		// the storage hands out a certificate that belongs to another key (half-finished roll-over): nothing signed with it may leave as Success
		c.Spec.Faults = []world.Fault{{Op: "GetResponseSigningKey", Occurrence: 0, Kind: "mismatch"}}
	}
	return c
}

// publishedCert fetches the metadata for host and returns the signing certificate it publishes and the certificate endpoint's.
func publishedCert(w *world.World, host string) (mdCertB64 string, pemDER []byte, mdDoc *xt.Doc, mdRaw []byte, err error) {
	rep := obs.Do(w.Handler, obs.HTTPReq{Method: "GET", Path: w.Spec.IdP.Route("metadata"), Host: host})
	if rep.Status != 200 {
		return "", nil, nil, rep.Body, fmt.Errorf("metadata status %d: %s", rep.Status, short(string(rep.Body), 100))
	}
	mdRaw = rep.Body
	mdDoc, err = xt.Parse(rep.Body)
	if err != nil {
		return "", nil, nil, mdRaw, fmt.Errorf("metadata not well-formed: %v", err)
	}
	if idp := mdDoc.Root.Child(world.NSMD, "IDPSSODescriptor"); idp != nil {
		for _, kd := range idp.ChildrenNamed(world.NSMD, "KeyDescriptor") {
			if u := kd.AttrV("use"); u == "signing" || u == "" {
				if x := kd.Path("KeyInfo", "X509Data", "X509Certificate"); x != nil {
					mdCertB64 = strings.Join(strings.Fields(x.Text()), "")
				}
			}
		}
	}
	crep := obs.Do(w.Handler, obs.HTTPReq{Method: "GET", Path: w.Spec.IdP.Route("certificate"), Host: host})
	if blk, _ := pem.Decode(crep.Body); blk != nil {
		pemDER = blk.Bytes
	}
	return
}

type c04Verdict struct {
	v             *ev.Violation
	verified      bool
	signedStrings []string
}

// verifyEnvelopedOnWire verifies the signature of node (an element with an ID attribute) found in wire.
func verifyEnvelopedOnWire(kind string, wire []byte, node *xt.Node, certB64 string, stats map[string]int) *ev.Violation {
	sig := node.Child(world.NSDS, "Signature")
	if sig == nil {
		return ev.V("C04/unsigned:"+kind, "%s carries no ds:Signature", kind)
	}
	pub, err := dsigref.CertPublicKey(certB64)
	if err != nil {
		return ev.V("C04/published-certificate-unusable", "certificate published in metadata: %v", err)
	}
	res := dsigref.VerifyEnveloped(node, sig, pub)
	der, _ := base64.StdEncoding.DecodeString(certB64)
	cert, _ := x509.ParseCertificate(der)
	var gerr error
	if cert != nil {
		gerr = dsigref.VerifyWithGoxmldsig(wire, node.AttrV("ID"), cert)
	} else {
		gerr = fmt.Errorf("no certificate")
	}
	if res.KeyInfoCertB64 != "" && res.KeyInfoCertB64 != certB64 {
		return ev.V("C04/keyinfo-certificate-differs-from-published", "KeyInfo certificate of the %s signature is not the certificate published in the metadata", kind)
	}
	switch {
	case res.OK && gerr == nil:
		return nil
	case res.OK != (gerr == nil):
		stats["verifier-disagreement"]++
		fmt.Printf("WARNING C04 verifier disagreement on %s: own=%v (%s) goxmldsig=%v\n", kind, res.OK, res.Reason, gerr)
		return nil
	}
	key := "C04/signature-does-not-verify:" + kind
	if res.UnescapedDigestMatch && res.SignatureOK {
		key = "C04/xmlsig-canon-unescaped"
	}
	v := ev.V(key, "%s signature: own verifier: %s; goxmldsig: %v", kind, res.Reason, gerr)
	v.Detail = map[string]any{"referenced_canonical": short(res.ReferencedCanonical, 1500), "digest_ok": res.DigestOK, "signedinfo_signature_ok": res.SignatureOK}
	return v
}

func c04Run(c C04Case, stats map[string]int) (vs []*ev.Violation, signedStrings map[string][]string, artefact string) {
	wspec := c.Spec
	if c.Noise {
		wspec = withNoise(wspec)
	}
	w := mustBuild(wspec)
	if c.Noise {
		runNoise(w, wspec)
	}
	if c.Rotate {
		obs.Do(w.Handler, obs.HTTPReq{Method: "GET", Path: c.Spec.IdP.Route("metadata"), Host: c.Host})
		to := c.RotateTo
		if to == "" {
			to = "sp-2048"
		}
		w.Store.RotateResponseKey(to)
	}
	signedStrings = map[string][]string{}
	add := func(v *ev.Violation) {
		if v != nil {
			vs = append(vs, v)
		}
	}
	mdCert, pemDER, mdDoc, mdRaw, err := publishedCert(w, c.Host)
	if err != nil {
		add(ev.V("C04/metadata-unavailable", "%v", err))
		return
	}
	if der, _ := base64.StdEncoding.DecodeString(mdCert); !bytes.Equal(der, pemDER) || len(der) == 0 {
		add(ev.V("C04/certificate-endpoint-differs-from-metadata", "the certificate endpoint serves a different certificate than the metadata KeyDescriptor"))
		return
	}
	if c.Kind == "metadata" {
		artefact = short(string(mdRaw), 700)
		root := mdDoc.Root
		sig := root.Child(world.NSDS, "Signature")
		if sig == nil {
			add(ev.V("C04/unsigned:metadata", "metadata signing is configured (%s) but the EntityDescriptor carries no Signature", c.Spec.IdP.MetadataSigAlg))
			return
		}
		var kiCert string
		if x := sig.Path("KeyInfo", "X509Data", "X509Certificate"); x != nil {
			kiCert = strings.Join(strings.Fields(x.Text()), "")
		}
		if kiCert != world.Key("idp-metadata").CertB64() {
			add(ev.V("C04/metadata-keyinfo-not-the-metadata-key", "metadata signature KeyInfo is not the certificate of the metadata signing key"))
			return
		}
		if sm := sig.Path("SignedInfo", "SignatureMethod"); sm == nil || sm.AttrV("Algorithm") != c.Spec.IdP.MetadataSigAlg {
			add(ev.V("C04/metadata-signature-algorithm", "configured %s, emitted %v", c.Spec.IdP.MetadataSigAlg, sm))
		}
		add(verifyEnvelopedOnWire("metadata", mdRaw, root, kiCert, stats))
		for _, l := range root.Leaves() {
			signedStrings[posOf(l.Path)] = append(signedStrings[posOf(l.Path)], l.Value)
		}
		return
	}
	var rep obs.Reply
	usedID := ""
	switch c.Kind {
	case "attrquery":
		x := xt.Write(spsim.Envelope(c.Query.Rendered(time.Now()).QueryTree(plainStyle), "soap"), plainStyle.W)
		hr, _, _ := spsim.Encode(c.Spec.IdP.Route("attribute"), x, spsim.Transport{Binding: "soap"}, nil)
		hr.Host = c.Host
		rep = obs.Do(w.Handler, hr)
	default:
		id := c.ReqID
		if c.ViaSSO {
			s := SSOCase{Spec: c.Spec, Host: c.Host, SP: 0, Req: spsim.NewAuthnReq("_c04-via-sso", c.Spec.SPs[0].EntityID), Style: plainStyle,
				Tr: spsim.Transport{Binding: "post", Plus: true, Encoding: A, RelayState: c.Relay}}
			hr, _, err := ssoRender(s, time.Now())
			if err != nil {
				panic("harness: " + err.Error())
			}
			srep := obs.Do(w.Handler, hr)
			okCalls, _ := createCalls(w)
			if len(okCalls) != 1 {
				panic(fmt.Sprintf("harness: SSO step of a C04 case was not accepted: status %d %s", srep.Status, short(string(srep.Body), 300)))
			}
			id = okCalls[0].Args[len(okCalls[0].Args)-1]
			w.Store.CompleteLogin(id, c.Spec.Users[0].UserID)
		}
		usedID = id
		if c.ViaAPI {
			rep = apiCallback(w, c.Host, id)
		} else {
			rep = obs.Do(w.Handler, obs.HTTPReq{Method: "GET", Path: c.Spec.IdP.Route("callback"), RawQuery: "id=" + qesc(id), Host: c.Host})
		}
	}
	if rep.Panic != "" {
		add(ev.V("C04/panic", "handler panicked: %s", short(rep.Panic, 100)))
		return
	}
	d := obs.Decode(rep)
	artefact = fmt.Sprintf("%s status=%d %s", d.Kind, rep.Status, short(string(d.XML), 600))
	if d.Kind == obs.KindHTTPError {
		stats["http-error-reply"]++
		return // no artefact emitted (e.g. unsupported algorithm): nothing to verify
	}
	if d.XML != nil && d.Doc == nil {
		add(ev.V("C04/artefact-not-well-formed", "%s reply does not parse: %s", c.Kind, d.XMLErr))
		return
	}
	if d.Doc == nil {
		stats["no-saml-message"]++
		return
	}
	resp := obs.ReadResponse(obs.FindResponse(d.Root()))
	if resp == nil || !resp.Success() {
		stats["non-success-reply"]++
		add(c04StraySignature("non-Success reply", d, mdCert))
		return
	}
	if len(resp.Assertions) != 1 {
		add(ev.V("C04/success-without-single-assertion", "%d assertions in a Success response", len(resp.Assertions)))
		return
	}
	a := resp.Assertions[0]
	for _, l := range a.Node.Leaves() {
		if !strings.Contains(l.Path, "/Signature/") {
			signedStrings[posOf(l.Path)] = append(signedStrings[posOf(l.Path)], l.Value)
		}
	}
	if d.Kind == obs.KindRedirectSAML {
		pub, err := dsigref.CertPublicKey(mdCert)
		if err != nil {
			add(ev.V("C04/published-certificate-unusable", "%v", err))
			return
		}
		res := dsigref.VerifyRedirect(d.RawQuery, "SAMLResponse", pub)
		if !res.OK {
			key := "C04/redirect-signature-does-not-verify"
			if !res.HasSig {
				key = "C04/unsigned:redirect-success"
			}
			add(ev.V(key, "redirect Success response: %s (query %s)", res.Reason, short(d.RawQuery[strings.Index(d.RawQuery, "&")+1:], 300)))
		} else if res.SigAlg != c.Spec.IdP.SignatureAlgorithm {
			add(ev.V("C04/redirect-signature-algorithm", "configured %s, SigAlg parameter %s", c.Spec.IdP.SignatureAlgorithm, res.SigAlg))
		}
		// the URL actually sent must be the consumer URL plus the SAML parameters
		loc := rep.Header.Get("Location")
		acsURL := resp.Destination
		qm := strings.Count(acsURL, "?")
		if i := strings.Index(loc, "SAMLResponse="); i > 0 {
			sep := loc[i-1]
			if (qm == 0 && sep != '?') || (qm > 0 && sep != '&') {
				add(ev.V("C04/redirect-url-malformed-query", "consumer URL %q, parameters appended with %q: %s", acsURL, string(sep), short(loc, 120)))
			}
		}
		// the next reply of the same provider through the same binding is a failure (a request whose login is not completed):
		// whatever signature parameters it carries must be its own
		w.Store.PutRequest(world.RequestSpec{ID: "c04-pending", AppID: c.Spec.SPs[0].AppID, RelayState: "rs-pending", ACS: resp.Destination, Binding: world.BindRedirect, AuthRequestID: "_c04pending"})
		rep2 := obs.Do(w.Handler, obs.HTTPReq{Method: "GET", Path: c.Spec.IdP.Route("callback"), RawQuery: "id=c04-pending", Host: c.Host})
		if rep2.Panic == "" {
			add(c04StraySignature("failure reply after a Success reply", obs.Decode(rep2), mdCert))
		}
		return
	}
	if c.ViaAPI {
		if st := w.Store.Request(usedID); usedID != "" && st != nil && st.S.Binding == world.BindRedirect && st.S.ACS != "" {
			// redirect delivery is the caller's job: the library hands the signature over in the Response value
			if rep.Header.Get("X-Api-Signature") == "" || rep.Header.Get("X-Api-SigAlg") == "" {
				add(ev.V("C04/unsigned:api-redirect", "Provider.AuthCallbackResponse returned a Success response for redirect delivery without Signature / SigAlg (%q, %q)", rep.Header.Get("X-Api-Signature"), rep.Header.Get("X-Api-SigAlg")))
			}
			return
		}
	}
	// enveloped signature on the assertion
	add(verifyEnvelopedOnWire("assertion/"+c.Kind, d.XML, a.Node, mdCert, stats))
	if a.Signature != nil {
		if sm := a.Signature.Path("SignedInfo", "SignatureMethod"); sm == nil || sm.AttrV("Algorithm") != c.Spec.IdP.SignatureAlgorithm {
			add(ev.V("C04/assertion-signature-algorithm", "configured %s, emitted %v", c.Spec.IdP.SignatureAlgorithm, sm.AttrV("Algorithm")))
		}
	}
	return
}

// c04StraySignature: a reply that is not a Success response need not be signed, but a query-string signature it does carry is
// an emitted signature like any other and has to verify over the URL it is part of.
func c04StraySignature(what string, d *obs.Decoded, mdCert string) *ev.Violation {
	if d.Kind != obs.KindRedirectSAML || !strings.Contains("&"+d.RawQuery, "&Signature=") {
		return nil
	}
	pub, err := dsigref.CertPublicKey(mdCert)
	if err != nil {
		return nil
	}
	if res := dsigref.VerifyRedirect(d.RawQuery, "SAMLResponse", pub); !res.OK {
		return ev.V("C04/stray-signature-does-not-verify", "%s carries Signature / SigAlg parameters that do not verify: %s", what, res.Reason)
	}
	return nil
}

func posOf(path string) string {
	if strings.Contains(path, "@") {
		return "attr"
	}
	return "text"
}

var _ = rsa.PublicKey{}

func c04Special(s string) bool {
	for _, r := range s {
		switch r {
		case '&', '<', '>', '"', '\r', '\n', '\t':
			return true
		}
		if r > 0xFFFF {
			return true
		}
	}
	return len(s) > 0 && (s[0] == ' ' || s[len(s)-1] == ' ')
}

func TestC04(t *testing.T) {
	col := ev.For("C04", "exploration", c04Rule)
	stats := map[string]int{}
	defer func() {
		for k, v := range stats {
			col.Count("stat/"+k, v)
		}
	}()
	searchRapid(t, col, genC04Case, func(c C04Case) []*ev.Violation {
		st := map[string]int{}
		vs, signed, artefact := c04Run(c, st)
		for k, v := range st {
			stats[k] += v
		}
		classSet := map[string]bool{}
		nontrivial := false
		for pos, strs := range signed {
			for _, s := range strs {
				if c04Special(s) {
					nontrivial = true
				}
				for _, cl := range xt.SpecialClasses(s) {
					classSet[pos+":"+cl] = true
				}
			}
		}
		var cls []string
		for k := range classSet {
			cls = append(cls, k)
		}
		sortStrings(cls)
		alg := c.Spec.IdP.SignatureAlgorithm
		if c.Kind == "metadata" {
			alg = c.Spec.IdP.MetadataSigAlg
		}
		classes := []string{"kind/" + c.Kind, "alg/" + shortBinding(alg), fmt.Sprintf("verified-or-known=%v", len(vs) == 0)}
		if c.ViaSSO {
			classes = append(classes, "via-sso")
		}
		for _, v := range vs {
			classes = append(classes, "outcome/"+v.Key)
		}
		if len(vs) == 0 && len(signed) > 0 {
			classes = append(classes, "outcome/verified")
			if nontrivial {
				classes = append(classes, "outcome/verified-with-special-characters")
			}
		}
		col.Case(nontrivial && len(signed) > 0, ev.Fingerprint(c.Kind, alg, cls, c.ViaSSO), classes, func() any {
			return map[string]any{"kind": c.Kind, "alg": alg, "special_classes": cls, "artefact": artefact}
		})
		return vs
	})
}

func sortStrings(s []string) {
	for i := 1; i < len(s); i++ {
		for j := i; j > 0 && s[j] < s[j-1]; j-- {
			s[j], s[j-1] = s[j-1], s[j]
		}
	}
}
