package props

// C05 — Unsigned or forged AuthnRequests are never accepted when signing is required.
//
// The simulated SP signs one (sometimes two) original messages; an attacker then mutates what
// travels. "Accepted" = a successful CreateAuthRequest. Criterion (a), signing required: the
// request the IdP acted on (the AuthnRequestType it handed to storage, and for Redirect the
// RelayState) must be field-for-field one of the originals the SP signed for that binding, and
// the harness's own verifier must accept what was sent. Criterion (b), always: every non-empty
// signature value the request bears verifies.

import (
	"encoding/base64"
	"fmt"
	"strings"
	"testing"
	"time"

	"github.com/zitadel/saml/pkg/provider/xml/samlp"
	"pgregory.net/rapid"

	"verif/harness/dsigref"
	"verif/harness/ev"
	"verif/harness/obs"
	"verif/harness/spsim"
	"verif/harness/world"
	"verif/harness/xt"
)

const c05Rule = "rapid: SP metadata (AuthnRequestsSigned absent/false/0/true/1 x zero or one RSA certificate) x IdP WantAuthRequestsSigned {'', false, true, 1} x an original AuthnRequest validly signed by the simulated SP (POST: enveloped XML-DSig; Redirect: query-string signature; rsa-sha1 / rsa-sha256) or unsigned, then 0..2 mutations from a catalogue: field edits after signing, signature stripping, emptied / bit-flipped SignatureValue, DigestValue and query Signature, algorithm substitution, signing with an unregistered key (with its own, the registered or no KeyInfo certificate), Issuer switched to another SP, signature wrapping (signed original moved into Extensions or ds:Object under a forged document element that carries the copied Signature; same-ID variant), RelayState changed / dropped / added after signing, message re-encoded after signing, duplicate SAMLRequest / RelayState parameters (also under percent-escaped parameter names), parameters split between query and body, moving a message or its signature to the other binding, a byte string that is the signed message when read as XML and a forged one when inflated (POST binding, SAMLEncoding announcing DEFLATE), embedded bogus ds:Signature, bogus Signature form parameter, arbitrary bytes in Signature / SigAlg. One case in five addresses the second clause alone: nobody requires signing, the original is signed, exactly one signature-affecting mutation (nine SigAlg substitutions incl. unimplemented and re-spelled URIs). Non-trivial: a mutated or cross-binding case derived from a valid signature (under a configuration that requires signing it exercises the first clause, otherwise the second). Distinct by (mutation set, binding, flags)."

type C05Case struct {
	Spec    world.Spec     `json:"spec"`
	Host    string         `json:"host"`
	SP      int            `json:"sp"`
	Orig    spsim.AuthnReq `json:"original"`
	Style   spsim.XMLStyle `json:"style"`
	Binding string         `json:"binding"` // post | redirect
	Alg     string         `json:"alg"`     // "" = the SP does not sign
	KeyName string         `json:"key_name"`
	CertOf  string         `json:"cert_of,omitempty"`
	KeyInfo bool           `json:"key_info"`
	Relay   string         `json:"relay_state"`
	Mut     []Defect       `json:"mutations,omitempty"`
	Noise   bool           `json:"noise,omitempty"`
	// KeyFault: the response-signing key retrieval fails while the request is served (the IdP reads it to build its own descriptor)
	KeyFault string `json:"key_fault,omitempty"`
	// Hist: the sending service provider was registered without signing requirement and / or with another certificate (the
	// rogue key's) at first, used the IdP, and was then re-registered as the spec says.
	Hist *History `json:"history,omitempty"`
	// OrigFirst: the user agent first presents the original as the SP signed it (it is accepted or not - no matter), then the
	// case's request arrives at the same provider instance: what was verified a moment ago lends nothing to what follows.
	OrigFirst bool `json:"original_presented_first,omitempty"`
}

var c05PostMutations = []Defect{
	{Name: "edit-attr", Param: "ID"}, {Name: "edit-attr", Param: "AssertionConsumerServiceURL"}, {Name: "edit-attr", Param: "ProtocolBinding"}, {Name: "edit-attr", Param: "ProviderName"}, {Name: "edit-attr", Param: "ForceAuthn"},
	{Name: "edit-issuer-other-sp"}, {Name: "strip-sig"}, {Name: "empty-sigvalue"}, {Name: "empty-digest"}, {Name: "flip-sigvalue"}, {Name: "flip-digest"},
	{Name: "sigalg-subst", Param: world.AlgRSASHA1}, {Name: "sigalg-subst", Param: world.AlgRSASHA256}, {Name: "sigalg-subst", Param: "urn:example:none"}, {Name: "digestalg-subst"},
	{Name: "wrap-extensions"}, {Name: "wrap-object"}, {Name: "wrap-same-id"}, {Name: "wrap-sig-last"},
	{Name: "wrap-whole", Param: "Body/extensions"}, {Name: "wrap-whole", Param: "Body/child"}, {Name: "wrap-whole", Param: "soap:Body/child"}, {Name: "wrap-whole", Param: "Envelope/extensions"}, {Name: "wrap-whole", Param: "AuthnRequest/extensions"},
	{Name: "rogue-key"}, {Name: "rogue-key-registered-cert"}, {Name: "rogue-key-no-keyinfo"},
	{Name: "as-redirect"}, {Name: "add-signature-param", Param: "QUJD"}, {Name: "add-signature-param", Param: "!!"}, {Name: "add-sigalg-param"},
	{Name: "dup-signature-element"}, {Name: "add-child-after-signing"}, {Name: "remove-keyinfo"}, {Name: "change-relaystate"},
	{Name: "deflate-polyglot"}, {Name: "deflate-polyglot"}, {Name: "repeat-in-query"},
	{Name: "relabel-charset", Param: "ISO-8859-1"}, {Name: "relabel-charset", Param: "windows-1252"}, {Name: "relabel-charset", Param: "UTF-16"}, {Name: "relabel-charset", Param: "latin1"}, {Name: "relabel-charset", Param: "ISO-8859-15"}, {Name: "relabel-charset", Param: "iso-8859-1"},
}

var c05RedirectMutations = []Defect{
	{Name: "edit-message", Param: "ID"}, {Name: "edit-message", Param: "AssertionConsumerServiceURL"}, {Name: "edit-message", Param: "ProtocolBinding"},
	{Name: "change-relaystate"}, {Name: "drop-relaystate"}, {Name: "add-relaystate"},
	{Name: "strip-signature"}, {Name: "strip-sig-and-alg"}, {Name: "empty-signature"}, {Name: "flip-signature"}, {Name: "junk-signature", Param: "QUJDRA=="}, {Name: "junk-signature", Param: "%%%"},
	{Name: "sigalg-subst", Param: world.AlgRSASHA1}, {Name: "sigalg-subst", Param: world.AlgRSASHA256}, {Name: "sigalg-subst", Param: "urn:example:none"}, {Name: "sigalg-subst", Param: "http://www.w3.org/2000/09/xmldsig#dsa-sha1"},
	{Name: "sigalg-subst", Param: "http://www.w3.org/2001/04/xmldsig-more#rsa-sha512"}, {Name: "sigalg-subst", Param: "http://www.w3.org/2001/04/xmldsig-more#ecdsa-sha256"}, {Name: "sigalg-subst", Param: "rsa-sha256"},
	{Name: "sigalg-subst", Param: "HTTP://WWW.W3.ORG/2001/04/XMLDSIG-MORE#RSA-SHA256"}, {Name: "sigalg-subst", Param: world.AlgRSASHA256 + " "},
	{Name: "rogue-key"}, {Name: "edit-issuer-other-sp"},
	{Name: "dup-samlrequest-forged-first"}, {Name: "dup-samlrequest-forged-last"}, {Name: "forged-in-body"}, {Name: "signature-in-body"},
	{Name: "as-post"}, {Name: "embedded-bad-dsig"}, {Name: "reencode-message"},
	{Name: "escaped-name-forged-first", Param: "SAMLReques%74"}, {Name: "escaped-name-forged-first", Param: "%53AMLRequest"}, {Name: "escaped-name-forged-last", Param: "SAMLReques%74"}, {Name: "escaped-name-relaystate-first", Param: "RelayStat%65"},
}

func genC05Case(t *rapid.T) C05Case {
	spec := genSSOWorld(t, worldOpts{minACS: 1, maxACS: 2, signingFlags: true, maxSPs: 3})
	// one case in five looks at the second clause only ("whatever the configuration, a non-empty signature value that does not
	// verify is never accepted"): nobody requires signing, the original is signed, one signature-affecting mutation
	clauseB := rapid.IntRange(0, 4).Draw(t, "clause-b") == 0
	if clauseB {
		spec.IdP.WantAuthRequestsSigned = rapid.SampledFrom([]string{"", "false", "0"}).Draw(t, "want-b")
	}
	// bias towards configurations that require signing
	if !clauseB && rapid.Bool().Draw(t, "forcewant") {
		spec.IdP.WantAuthRequestsSigned = rapid.SampledFrom([]string{"true", "1"}).Draw(t, "want")
	}
	c := C05Case{Spec: spec, Host: defHost}
	c.SP = rapid.IntRange(0, len(spec.SPs)-1).Draw(t, "sp")
	if clauseB {
		spec.SPs[c.SP].AuthnRequestsSigned = rapid.SampledFrom([]string{A, "false", "0"}).Draw(t, "spflag-b")
	} else if rapid.Bool().Draw(t, "forcesp") {
		spec.SPs[c.SP].AuthnRequestsSigned = rapid.SampledFrom([]string{"true", "1"}).Draw(t, "spflag")
	}
	// the rogue key may well be a certificate the provider registered - for encryption: that gives it no say in signatures
	for i := range spec.SPs {
		if rapid.IntRange(0, 2).Draw(t, "enckey") == 0 {
			spec.SPs[i].EncKeyFirst = "rogue"
		}
	}
	if len(spec.SPs[c.SP].KeyNames) > 0 && rapid.IntRange(0, 5).Draw(t, "certwindow") == 0 {
		// the registered signing certificate has expired, or is not valid yet: whatever an IdP makes of that, it is no
		// reason to accept what the key did not sign
		spec.SPs[c.SP].KeyNames[0] += rapid.SampledFrom([]string{"@expired", "@future"}).Draw(t, "certwindowv")
	}
	c.Orig = genValidAuthn(t, spec, c.SP, c.Host)
	maybePassive(t, &c.Orig)
	c.Orig.ProtocolBinding = rapid.SampledFrom([]string{A, world.BindPost, world.BindRedirect}).Draw(t, "pb")
	c.Style = genXMLStyle(t)
	c.Binding = rapid.SampledFrom([]string{"post", "redirect"}).Draw(t, "binding")
	c.Relay = rapid.SampledFrom(relayStates).Draw(t, "relay")
	if c.Binding == "redirect" && c.Relay == "" {
		c.Relay = A
	}
	c.KeyInfo = true
	if len(spec.SPs[c.SP].KeyNames) > 0 && (clauseB || rapid.IntRange(0, 5).Draw(t, "unsigned") != 0) {
		c.Alg = rapid.SampledFrom([]string{world.AlgRSASHA1, world.AlgRSASHA256}).Draw(t, "alg")
		c.KeyName = spec.SPs[c.SP].KeyNames[0]
		c.KeyInfo = rapid.IntRange(0, 3).Draw(t, "keyinfo") != 0
	}
	encOnly := false
	if len(spec.SPs[c.SP].KeyNames) == 0 && spec.SPs[c.SP].EncKeyFirst != "" && rapid.Bool().Draw(t, "sign-with-encryption-key") {
		// a provider that registered no signing certificate signs with the key of its encryption certificate
		c.Alg = rapid.SampledFrom([]string{world.AlgRSASHA1, world.AlgRSASHA256}).Draw(t, "alg-enc")
		c.KeyName = ""
		encOnly = true
	}
	c.Noise = rapid.IntRange(0, 2).Draw(t, "noise") == 0
	if rapid.IntRange(0, 7).Draw(t, "keyfault") == 0 {
		c.KeyFault = rapid.SampledFrom([]string{"error", "nil", "emptycert"}).Draw(t, "keyfaultkind")
	}
	if rapid.IntRange(0, 3).Draw(t, "history") == 0 {
		c.Hist = genHistory(t, spec, c.SP, func(e *world.SPSpec) {
			if rapid.Bool().Draw(t, "earlier-unsigned") {
				e.AuthnRequestsSigned = rapid.SampledFrom([]string{A, "false"}).Draw(t, "earlier-flag")
			}
			if rapid.Bool().Draw(t, "earlier-key") {
				e.KeyNames = []string{"rogue"}
			}
		}, false)
	}
	if rapid.IntRange(0, 3).Draw(t, "stranger-before") == 0 {
		// a moment ago somebody the storage has never heard of sent an unsigned request with every optional part filled in
		// (refused): nothing of it belongs to the request that follows
		if c.Hist == nil {
			c.Hist = &History{SP: c.SP}
		}
		c.Hist.Warmups = append([]string{"sso-unknown"}, c.Hist.Warmups...)
	}
	c.OrigFirst = rapid.IntRange(0, 3).Draw(t, "origfirst") == 0
	n := rapid.SampledFrom([]int{0, 1, 1, 1, 2}).Draw(t, "nmut")
	cat := c05PostMutations
	if c.Binding == "redirect" {
		cat = c05RedirectMutations
	}
	if clauseB {
		n = 1
		var sub []Defect
		for _, m := range cat {
			switch m.Name {
			case "sigalg-subst", "flip-signature", "junk-signature", "change-relaystate", "drop-relaystate", "add-relaystate", "edit-message", "edit-attr", "rogue-key", "rogue-key-registered-cert", "rogue-key-no-keyinfo", "flip-sigvalue", "flip-digest", "digestalg-subst", "reencode-message", "add-child-after-signing", "edit-issuer-other-sp", "deflate-polyglot", "relabel-charset":
				sub = append(sub, m)
			}
		}
		if len(sub) > 0 {
			cat = sub
		}
	}
	for i := 0; i < n; i++ {
		c.Mut = append(c.Mut, pick(t, "mutation", cat))
	}
	if c.has("relabel-charset") {
		// there is something to misread: the provider's name is not ASCII
		c.Orig.ProviderName = "Café Zürich – ünï"
	}
	if encOnly {
		c.Mut = []Defect{{Name: rapid.SampledFrom([]string{"rogue-key", "rogue-key-no-keyinfo"}).Draw(t, "encmut")}}
		if c.Binding == "redirect" {
			c.Mut = []Defect{{Name: "rogue-key"}}
		}
	}
	return c
}

func (c C05Case) has(name string) bool {
	for _, m := range c.Mut {
		if m.Name == name {
			return true
		}
	}
	return false
}

func (c C05Case) mutNames() []string {
	var out []string
	for _, m := range c.Mut {
		out = append(out, m.Name)
	}
	return out
}

const forgedMark = "forged-by-attacker"

func flipB64(s string) string {
	s = strings.TrimSpace(s)
	if len(s) < 8 {
		return s + "AAAA"
	}
	b := []byte(s)
	i := len(b) / 2
	if b[i] == 'A' {
		b[i] = 'B'
	} else {
		b[i] = 'A'
	}
	return string(b)
}

type c05Rendered struct {
	HR        obs.HTTPReq
	Signed    bool   // the SP produced a signature for this binding
	SignedRS  string // RelayState covered by the redirect signature (A = none)
	OrigRoot  *xt.Node
	SentInURL bool
}

// c05Render signs the original and applies the mutations.
func c05Render(c C05Case, now time.Time) c05Rendered {
	spec := c.Spec
	orig := c.Orig.Rendered(now)
	tree := orig.Tree(c.Style)
	out := c05Rendered{OrigRoot: tree.Clone(), SignedRS: c.Relay}
	keyName, certOf, keyInfo := c.KeyName, c.CertOf, c.KeyInfo
	for _, m := range c.Mut {
		switch m.Name {
		case "rogue-key":
			keyName, certOf = "rogue", ""
		case "rogue-key-registered-cert":
			keyName, certOf = "rogue", c.KeyName
		case "rogue-key-no-keyinfo":
			keyName, keyInfo = "rogue", false
		}
	}
	otherSP := spec.SPs[(c.SP+1)%len(spec.SPs)].EntityID
	setForged := func(root *xt.Node, attr string) {
		switch attr {
		case "ID":
			root.SetAttr("ID", "_"+forgedMark)
		case "AssertionConsumerServiceURL":
			root.SetAttr("AssertionConsumerServiceURL", "https://"+forgedMark+".example/acs")
		case "ProtocolBinding":
			if root.AttrV("ProtocolBinding") == world.BindRedirect {
				root.SetAttr("ProtocolBinding", world.BindPost)
			} else {
				root.SetAttr("ProtocolBinding", world.BindRedirect)
			}
		case "ProviderName":
			root.SetAttr("ProviderName", forgedMark)
		case "ForceAuthn":
			if root.AttrV("ForceAuthn") == "true" {
				root.SetAttr("ForceAuthn", "false")
			} else {
				root.SetAttr("ForceAuthn", "true")
			}
		}
	}
	if c.Binding == "post" {
		if c.Alg != "" && keyName != "" {
			out.Signed = keyName == c.KeyName
			if err := spsim.SignTree(tree, spsim.Signing{Alg: c.Alg, KeyName: keyName, KeyInfo: keyInfo, CertOf: certOf, CertLayout: "plain", DSPrefix: "ds"}); err != nil {
				panic("harness: " + err.Error())
			}
		}
		sig := func() *xt.Node { return tree.Child(world.NSDS, "Signature") }
		for _, m := range c.Mut {
			switch m.Name {
			case "edit-attr":
				setForged(tree, m.Param)
			case "edit-issuer-other-sp":
				if is := tree.Child(world.NSSAML, "Issuer"); is != nil {
					is.Children = nil
					is.AddText(otherSP)
				}
			case "strip-sig":
				if s := sig(); s != nil {
					tree.RemoveChild(s)
				}
			case "empty-sigvalue":
				if s := sig(); s != nil {
					if sv := s.Child(world.NSDS, "SignatureValue"); sv != nil {
						sv.Children = nil
					}
				}
			case "empty-digest":
				if s := sig(); s != nil {
					if dv := s.Path("SignedInfo", "Reference", "DigestValue"); dv != nil {
						dv.Children = nil
					}
				}
			case "flip-sigvalue":
				if s := sig(); s != nil {
					if sv := s.Child(world.NSDS, "SignatureValue"); sv != nil {
						v := flipB64(sv.Text())
						sv.Children = nil
						sv.AddText(v)
					}
				}
			case "flip-digest":
				if s := sig(); s != nil {
					if dv := s.Path("SignedInfo", "Reference", "DigestValue"); dv != nil {
						v := flipB64(dv.Text())
						dv.Children = nil
						dv.AddText(v)
					}
				}
			case "sigalg-subst":
				if s := sig(); s != nil {
					if sm := s.Path("SignedInfo", "SignatureMethod"); sm != nil && sm.AttrV("Algorithm") != m.Param {
						sm.SetAttr("Algorithm", m.Param)
					}
				}
			case "digestalg-subst":
				if s := sig(); s != nil {
					if dm := s.Path("SignedInfo", "Reference", "DigestMethod"); dm != nil {
						if dm.AttrV("Algorithm") == dsigref.DigSHA1 {
							dm.SetAttr("Algorithm", dsigref.DigSHA256)
						} else {
							dm.SetAttr("Algorithm", dsigref.DigSHA1)
						}
					}
				}
			case "remove-keyinfo":
				if s := sig(); s != nil {
					if ki := s.Child(world.NSDS, "KeyInfo"); ki != nil {
						s.RemoveChild(ki)
					}
				}
			case "dup-signature-element":
				if s := sig(); s != nil {
					cp := s.Clone()
					if sv := cp.Child(world.NSDS, "SignatureValue"); sv != nil {
						sv.Children = nil
						sv.AddText("QUJDRA==")
					}
					tree.InsertAt(0, cp)
				}
			case "add-child-after-signing":
				tree.Add(xt.NewElem(tree.Prefix, world.NSSAMLP, "Scoping").SetAttr("ProxyCount", "9"))
			case "wrap-whole":
				// the forged request bears no signature of its own; the genuine signed request travels inside it, whole, as the only
				// child of an element with a name verifiers like to look for
				if sig() == nil {
					break
				}
				name, where, _ := strings.Cut(m.Param, "/")
				forged := out.OrigRoot.Clone()
				forged.SetAttr("AssertionConsumerServiceURL", "https://"+forgedMark+".example/acs")
				forged.SetAttr("ProviderName", forgedMark)
				forged.SetAttr("ID", "_"+forgedMark)
				var holder *xt.Node
				if pfx, local, ok := strings.Cut(name, ":"); ok {
					holder = xt.NewElem(pfx, world.NSSOAP, local).Declare(pfx, world.NSSOAP)
				} else if name == "AuthnRequest" {
					holder = xt.NewElem("w", "urn:example:wrapper", "AuthnRequest").Declare("w", "urn:example:wrapper")
				} else {
					holder = xt.NewElem("", "", name)
					holder.NS = append(holder.NS, xt.NSDecl{Prefix: "", URI: ""})
				}
				holder.Add(tree.Clone())
				pos := 0
				for i, ch := range forged.Children {
					if ch.Kind == xt.KindElem && ch.Elem.Local == "Issuer" {
						pos = i + 1
					}
				}
				if where == "extensions" {
					ext := xt.NewElem(forged.Prefix, world.NSSAMLP, "Extensions")
					ext.Add(holder)
					forged.InsertAt(pos, ext)
				} else {
					forged.InsertAt(pos, holder)
				}
				tree = forged
			case "wrap-extensions", "wrap-object", "wrap-same-id", "wrap-sig-last":
				s := sig()
				if s == nil {
					break
				}
				signedOrig := tree
				forged := out.OrigRoot.Clone()
				forged.SetAttr("AssertionConsumerServiceURL", "https://"+forgedMark+".example/acs")
				forged.SetAttr("ProviderName", forgedMark)
				if m.Name != "wrap-same-id" {
					forged.SetAttr("ID", "_"+forgedMark)
				}
				sigCopy := s.Clone()
				inner := signedOrig.Clone()
				if is := inner.Child(world.NSDS, "Signature"); is != nil && m.Name != "wrap-sig-last" {
					inner.RemoveChild(is)
				}
				switch m.Name {
				case "wrap-object":
					obj := xt.NewElem(sigCopy.Prefix, world.NSDS, "Object")
					obj.Add(inner)
					sigCopy.Add(obj)
				default:
					ext := forged.Child(world.NSSAMLP, "Extensions")
					if ext == nil {
						ext = xt.NewElem(forged.Prefix, world.NSSAMLP, "Extensions")
						pos := 0
						for i, ch := range forged.Children {
							if ch.Kind == xt.KindElem && ch.Elem.Local == "Issuer" {
								pos = i + 1
							}
						}
						forged.InsertAt(pos, ext)
					}
					ext.Add(inner)
				}
				pos := 0
				for i, ch := range forged.Children {
					if ch.Kind == xt.KindElem && ch.Elem.Local == "Issuer" {
						pos = i + 1
					}
				}
				if m.Name == "wrap-sig-last" {
					forged.Add(sigCopy)
				} else {
					forged.InsertAt(pos, sigCopy)
				}
				tree = forged
			}
		}
		xmlb := xt.Write(tree, c.Style.W)
		tr := spsim.Transport{Binding: "post", Plus: true, Encoding: A, RelayState: c.Relay}
		if c.has("deflate-polyglot") && sig() != nil {
			// one byte string, two documents: as XML it is the message the SP signed; announced as DEFLATE-encoded it inflates to a
			// forged, unsigned message with the signed one in a comment in front of it. Whoever verifies one reading and acts on the
			// other accepts what nobody signed.
			ws := c.Style.W
			ws.Decl, ws.Misc = "", ""
			forged := out.OrigRoot.Clone()
			forged.SetAttr("ID", "_"+forgedMark)
			forged.SetAttr("AssertionConsumerServiceURL", "https://"+forgedMark+".example/acs")
			forged.SetAttr("ProviderName", forgedMark)
			if s, ok := spsim.DeflatePolyglot(xt.Write(tree, ws), xt.Write(forged, ws)); ok {
				xmlb = s
				tr.Encoding = spsim.EncodingDeflate
			}
		}
		for _, m := range c.Mut {
			if m.Name == "relabel-charset" {
				// the signed bytes behind an XML declaration that names another encoding: the declaration is outside the signed
				// element, so whoever honours it reads other characters than the signer wrote
				ws := c.Style.W
				ws.Decl = ""
				xmlb = append([]byte("<?xml version=\"1.0\" encoding=\""+m.Param+"\"?>\n"), xt.Write(tree, ws)...)
			}
		}
		if c.has("change-relaystate") {
			tr.RelayState = "changed-" + forgedMark
		}
		if c.has("as-redirect") {
			tr.Binding = "redirect"
			out.SentInURL = true
		}
		for _, m := range c.Mut {
			switch m.Name {
			case "add-signature-param":
				tr.Extra = strings.TrimPrefix(tr.Extra+"&Signature="+qesc(m.Param), "&")
			case "add-sigalg-param":
				tr.Extra = strings.TrimPrefix(tr.Extra+"&SigAlg="+qesc(world.AlgRSASHA256)+"&Signature="+qesc("QUJDRA=="), "&")
			}
		}
		hr, _, err := spsim.Encode(spec.IdP.Route("sso"), xmlb, tr, nil)
		if err != nil {
			panic("harness: " + err.Error())
		}
		if c.has("repeat-in-query") && c.Alg == "" && len(c.Mut) == 1 {
			// an unsigned message as a form whose action URL repeats the parameters in its query
			hr.RawQuery = hr.Body
		}
		hr.Host = c.Host
		out.HR = hr
		return out
	}

	// redirect binding
	if c.has("embedded-bad-dsig") {
		// the SP (or someone before the signing step) put a bogus enveloped signature into the message
		if err := spsim.SignTree(tree, spsim.Signing{Alg: world.AlgRSASHA256, KeyName: "rogue", KeyInfo: true, CertLayout: "plain", DSPrefix: "ds"}); err != nil {
			panic("harness: " + err.Error())
		}
	}
	xmlb := xt.Write(tree, c.Style.W)
	tr := spsim.Transport{Binding: "redirect", Plus: true, Encoding: A, RelayState: c.Relay}
	var rs *spsim.Signing
	if c.Alg != "" && keyName != "" {
		rs = &spsim.Signing{Alg: c.Alg, KeyName: keyName}
		out.Signed = keyName == c.KeyName
	}
	hr, _, err := spsim.Encode(spec.IdP.Route("sso"), xmlb, tr, rs)
	if err != nil {
		panic("harness: " + err.Error())
	}
	out.SentInURL = true
	params := strings.Split(hr.RawQuery, "&")
	get := func(name string) (int, string) {
		for i, p := range params {
			if strings.HasPrefix(p, name+"=") {
				return i, p[len(name)+1:]
			}
		}
		return -1, ""
	}
	set := func(name, val string) {
		if i, _ := get(name); i >= 0 {
			params[i] = name + "=" + val
		} else {
			params = append(params, name+"="+val)
		}
	}
	del := func(name string) {
		if i, _ := get(name); i >= 0 {
			params = append(params[:i:i], params[i+1:]...)
		}
	}
	forgedMsg := func(attr string) string {
		f := tree.Clone()
		setForged(f, attr)
		return qesc(base64.StdEncoding.EncodeToString(spsim.Deflate(xt.Write(f, c.Style.W))))
	}
	body := ""
	for _, m := range c.Mut {
		switch m.Name {
		case "edit-message":
			set("SAMLRequest", forgedMsg(m.Param))
		case "edit-issuer-other-sp":
			f := tree.Clone()
			if is := f.Child(world.NSSAML, "Issuer"); is != nil {
				is.Children = nil
				is.AddText(otherSP)
			}
			set("SAMLRequest", qesc(base64.StdEncoding.EncodeToString(spsim.Deflate(xt.Write(f, c.Style.W)))))
		case "reencode-message":
			// same XML, different DEFLATE stream (stored blocks): the signed octets change
			set("SAMLRequest", qesc(base64.StdEncoding.EncodeToString(spsim.Deflate(append([]byte(" "), xmlb...)))))
		case "change-relaystate":
			set("RelayState", "changed-"+forgedMark)
		case "drop-relaystate":
			del("RelayState")
		case "add-relaystate":
			if i, _ := get("RelayState"); i < 0 {
				params = append(params, "RelayState=added-"+forgedMark)
			} else {
				set("RelayState", "added-"+forgedMark)
			}
		case "strip-signature":
			del("Signature")
		case "strip-sig-and-alg":
			del("Signature")
			del("SigAlg")
		case "empty-signature":
			if i, _ := get("Signature"); i >= 0 {
				set("Signature", "")
			}
		case "flip-signature":
			if i, v := get("Signature"); i >= 0 {
				dec, _ := pctDecode(v)
				set("Signature", qesc(flipB64(dec)))
			}
		case "junk-signature":
			set("Signature", qesc(m.Param))
			if i, _ := get("SigAlg"); i < 0 {
				set("SigAlg", qesc(world.AlgRSASHA256))
			}
		case "sigalg-subst":
			if i, v := get("SigAlg"); i >= 0 {
				if d, _ := pctDecode(v); d != m.Param {
					set("SigAlg", qesc(m.Param))
				}
			}
		case "dup-samlrequest-forged-first":
			params = append([]string{"SAMLRequest=" + forgedMsg("ID")}, params...)
		case "dup-samlrequest-forged-last":
			params = append(params, "SAMLRequest="+forgedMsg("ID"))
		case "escaped-name-forged-first":
			// a parameter name is percent-decoded like a value: SAMLReques%74 is SAMLRequest for every form parser
			params = append([]string{m.Param + "=" + forgedMsg("ID")}, params...)
		case "escaped-name-forged-last":
			params = append(params, m.Param+"="+forgedMsg("ID"))
		case "escaped-name-relaystate-first":
			params = append([]string{m.Param + "=changed-" + forgedMark}, params...)
		case "forged-in-body":
			body = "SAMLRequest=" + forgedMsg("ID")
		case "signature-in-body":
			if i, v := get("Signature"); i >= 0 {
				body = strings.TrimPrefix(body+"&Signature="+v, "&")
				del("Signature")
			}
		}
	}
	hr.RawQuery = strings.Join(params, "&")
	if body != "" {
		hr.Method, hr.ContentType, hr.Body = "POST", "application/x-www-form-urlencoded", body
	}
	if c.has("as-post") {
		// the query signature travels with a POST-binding message
		_, alg := get("SigAlg")
		_, sg := get("Signature")
		tr2 := spsim.Transport{Binding: "post", Plus: true, Encoding: A, RelayState: c.Relay}
		if sg != "" {
			tr2.Extra = "SigAlg=" + alg + "&Signature=" + sg
		}
		hr, _, _ = spsim.Encode(spec.IdP.Route("sso"), xmlb, tr2, nil)
		out.SentInURL = false
	}
	hr.Host = c.Host
	out.HR = hr
	return out
}

// proj reads the fields of a request the IdP acted on.
func projStruct(r *samlp.AuthnRequestType) map[string]string {
	m := map[string]string{
		"ID": r.Id, "Version": r.Version, "IssueInstant": r.IssueInstant, "Destination": r.Destination, "Consent": r.Consent,
		"ProtocolBinding": r.ProtocolBinding, "ACSURL": r.AssertionConsumerServiceURL, "ACSIndex": r.AssertionConsumerServiceIndex,
		"AttrConsumingIndex": r.AttributeConsumingServiceIndex, "ProviderName": r.ProviderName, "ForceAuthn": r.ForceAuthn, "IsPassive": r.IsPassive,
	}
	if r.Issuer != nil {
		m["Issuer"] = r.Issuer.Text
		m["IssuerFormat"] = r.Issuer.Format
	}
	if r.NameIDPolicy != nil {
		m["NameIDPolicy.Format"] = r.NameIDPolicy.Format
		m["NameIDPolicy.SPNameQualifier"] = r.NameIDPolicy.SPNameQualifier
	}
	if r.Conditions != nil {
		m["Conditions.NotBefore"] = r.Conditions.NotBefore
		m["Conditions.NotOnOrAfter"] = r.Conditions.NotOnOrAfter
	}
	if r.Subject != nil && r.Subject.NameID != nil {
		m["Subject"] = r.Subject.NameID.Text
	}
	return m
}

// projTree reads the same fields from the harness's tree of the original.
func projTree(root *xt.Node) map[string]string {
	m := map[string]string{
		"ID": root.AttrV("ID"), "Version": root.AttrV("Version"), "IssueInstant": root.AttrV("IssueInstant"), "Destination": root.AttrV("Destination"), "Consent": root.AttrV("Consent"),
		"ProtocolBinding": root.AttrV("ProtocolBinding"), "ACSURL": root.AttrV("AssertionConsumerServiceURL"), "ACSIndex": root.AttrV("AssertionConsumerServiceIndex"),
		"AttrConsumingIndex": root.AttrV("AttributeConsumingServiceIndex"), "ProviderName": root.AttrV("ProviderName"), "ForceAuthn": root.AttrV("ForceAuthn"), "IsPassive": root.AttrV("IsPassive"),
	}
	if is := root.Child(world.NSSAML, "Issuer"); is != nil {
		m["Issuer"] = is.Text()
		m["IssuerFormat"] = is.AttrV("Format")
	}
	if p := root.Child(world.NSSAMLP, "NameIDPolicy"); p != nil {
		m["NameIDPolicy.Format"] = p.AttrV("Format")
		m["NameIDPolicy.SPNameQualifier"] = p.AttrV("SPNameQualifier")
	}
	if cd := root.Child(world.NSSAML, "Conditions"); cd != nil {
		m["Conditions.NotBefore"] = cd.AttrV("NotBefore")
		m["Conditions.NotOnOrAfter"] = cd.AttrV("NotOnOrAfter")
	}
	if s := root.Child(world.NSSAML, "Subject"); s != nil {
		if n := s.Child(world.NSSAML, "NameID"); n != nil {
			m["Subject"] = n.Text()
		}
	}
	return m
}

func projDiff(a, b map[string]string) []string {
	var out []string
	for k, v := range a {
		if b[k] != v {
			out = append(out, fmt.Sprintf("%s: acted on %q, signed %q", k, v, b[k]))
		}
	}
	for k, v := range b {
		if _, ok := a[k]; !ok && v != "" {
			out = append(out, fmt.Sprintf("%s: acted on nothing, signed %q", k, v))
		}
	}
	return out
}

type c05Outcome struct {
	accepted bool
	required bool
	vs       []*ev.Violation
	kind     string
}

func c05Run(c C05Case) c05Outcome {
	wspec := c.Spec
	if c.Noise {
		wspec = withNoise(wspec)
	}
	w := buildWithHistory(wspec, c.Hist, c.Host)
	if c.Noise {
		runNoise(w, wspec)
		w.Store.ResetLog()
	}
	if c.KeyFault != "" {
		w.Store.SetFaults([]world.Fault{{Op: "GetResponseSigningKey", Occurrence: 0, Kind: c.KeyFault}})
	}
	now := time.Now()
	if c.OrigFirst && len(c.Mut) > 0 {
		plain := c
		plain.Mut = nil
		obs.Do(w.Handler, c05Render(plain, now).HR)
		w.Store.ResetLog()
	}
	rd := c05Render(c, now)
	rep := obs.Do(w.Handler, rd.HR)
	out := c05Outcome{kind: obs.Decode(rep).Kind}
	if rep.Panic != "" {
		out.vs = append(out.vs, ev.V("C05/panic", "handler panicked: %s", short(rep.Panic, 100)))
		return out
	}
	okCalls, _ := createCalls(w)
	out.accepted = len(okCalls) > 0
	sent := evalSent(c.Spec, func(string) bool { return true }, c.Host, rd.HR, now)
	// the SP whose rules apply is the one named by the Issuer of what was sent
	spIdx := sent.IssuerSP
	if spIdx < 0 && sent.Doc == nil && c.has("relabel-charset") {
		// the strict reader does not follow a declaration into another encoding; the issuer is the model's (ASCII either way)
		spIdx = c.SP
	}
	out.required = c.Spec.IdP.WantsSigned() || (spIdx >= 0 && c.Spec.SPs[spIdx].RequiresSigned())
	if !out.accepted {
		return out
	}
	call := okCalls[0]
	var regKey *world.KeyPair
	if spIdx >= 0 && len(c.Spec.SPs[spIdx].KeyNames) > 0 {
		regKey = world.Key(c.Spec.SPs[spIdx].KeyNames[0])
	}
	inURL := sent.InQuery

	// (a) signing required: the IdP may only act on what the SP signed
	if out.required {
		switch {
		case !rd.Signed:
			out.vs = append(out.vs, ev.V("C05/unsigned-accepted-when-required", "signing is required (idp want=%q, sp flag=%q) but the SP signed nothing with its registered key and the request was accepted (mutations %v)", c.Spec.IdP.WantAuthRequestsSigned, flagOf(c.Spec, spIdx), c.mutNames()))
		case call.Req == nil:
			out.vs = append(out.vs, ev.V("C05/no-request-persisted", "CreateAuthRequest was called with a nil request"))
		default:
			if d := projDiff(projStruct(call.Req), projTree(rd.OrigRoot)); len(d) > 0 {
				out.vs = append(out.vs, ev.V("C05/acted-on-unsigned-content", "accepted request differs from what the SP signed: %v (mutations %v)", d, c.mutNames()))
			}
			if inURL {
				if c.Binding != "redirect" {
					out.vs = append(out.vs, ev.V("C05/enveloped-signature-accepted-as-redirect", "a POST-binding signature was accepted for a message sent through the redirect binding (RelayState uncovered)"))
				} else {
					wantRS := rd.SignedRS
					if wantRS == A {
						wantRS = ""
					}
					if call.Args[2] != wantRS {
						out.vs = append(out.vs, ev.V("C05/relaystate-not-covered", "RelayState handed to storage %q, the SP signed %q (mutations %v)", call.Args[2], wantRS, c.mutNames()))
					}
				}
			} else if c.Binding != "post" {
				out.vs = append(out.vs, ev.V("C05/query-signature-accepted-as-post", "a redirect-binding signature was accepted for a message sent through the POST binding"))
			}
		}
		// second line: the harness's own verifier must accept what was sent
		if regKey == nil {
			out.vs = append(out.vs, ev.V("C05/accepted-without-registered-key", "signing required, SP has no registered certificate, request accepted"))
		} else if sent.Doc != nil && len(out.vs) == 0 {
			if inURL && rd.HR.Body == "" {
				if res := dsigref.VerifyRedirectOpt(rd.HR.RawQuery, "SAMLRequest", &regKey.RSA.PublicKey, true); !res.OK {
					out.vs = append(out.vs, ev.V("C05/own-verifier-rejects", "accepted, but the reference redirect verifier says: %s", res.Reason))
				}
			} else if !inURL {
				root := sent.Doc.Root
				if res := dsigref.VerifyEnveloped(root, root.Child(world.NSDS, "Signature"), &regKey.RSA.PublicKey); !res.OK {
					out.vs = append(out.vs, ev.V("C05/own-verifier-rejects", "accepted, but the reference XML-DSig verifier says: %s", res.Reason))
				}
			}
		}
	}

	// (b) always: every non-empty signature value the request bears must verify
	if sig := sent.Params["Signature"]; sig != "" {
		switch {
		case !inURL:
			out.vs = append(out.vs, ev.V("C05/signature-parameter-ignored-in-post-binding", "POST-binding request with a Signature form parameter %q accepted (there is nothing that parameter could verify against)", short(sig, 20)))
		case regKey == nil:
			out.vs = append(out.vs, ev.V("C05/accepted-with-unverifiable-signature", "Signature parameter present, SP has no registered certificate, request accepted"))
		case rd.HR.Body == "":
			if res := dsigref.VerifyRedirectOpt(rd.HR.RawQuery, "SAMLRequest", &regKey.RSA.PublicKey, true); !res.OK {
				out.vs = append(out.vs, ev.V("C05/accepted-with-invalid-query-signature", "accepted although the query signature does not verify: %s (mutations %v)", res.Reason, c.mutNames()))
			}
		}
	}
	if sent.Doc != nil {
		root := sent.Doc.Root
		sigs := root.ChildrenNamed(world.NSDS, "Signature")
		for i, s := range sigs {
			sv := s.Child(world.NSDS, "SignatureValue")
			if sv == nil || strings.TrimSpace(sv.Text()) == "" {
				continue
			}
			ok := false
			if regKey != nil {
				ok = dsigref.VerifyEnveloped(root, s, &regKey.RSA.PublicKey).OK
			}
			if !ok {
				switch {
				case inURL:
					out.vs = append(out.vs, ev.V("C05/embedded-dsig-ignored-in-redirect-binding", "redirect-binding message with an embedded ds:Signature that does not verify was accepted"))
				case len(sigs) > 1 && i < len(sigs)-1:
					// root cause: the struct decoder keeps only the last ds:Signature child; earlier siblings are never looked at
					out.vs = append(out.vs, ev.V("C05/earlier-duplicate-signature-ignored", "message with %d ds:Signature children accepted although child %d carries a signature value that does not verify (mutations %v)", len(sigs), i, c.mutNames()))
				default:
					out.vs = append(out.vs, ev.V("C05/accepted-with-invalid-dsig", "accepted although the enveloped signature does not verify under the registered certificate (mutations %v)", c.mutNames()))
				}
			}
		}
	}
	return out
}

func flagOf(spec world.Spec, sp int) string {
	if sp < 0 {
		return "(unknown sp)"
	}
	if spec.SPs[sp].AuthnRequestsSigned == A {
		return "(absent)"
	}
	return spec.SPs[sp].AuthnRequestsSigned
}

func TestC05(t *testing.T) {
	col := ev.For("C05", "exploration", c05Rule)
	searchRapid(t, col, genC05Case, func(c C05Case) []*ev.Violation {
		o := c05Run(c)
		signedOrig := c.Alg != ""
		nontrivial := signedOrig && len(c.Mut) > 0 // under a requirement: first clause; without one: the second (a signature that no longer verifies)
		classes := []string{"binding/" + c.Binding, fmt.Sprintf("required=%v", o.required), fmt.Sprintf("accepted=%v", o.accepted), fmt.Sprintf("sp-signs=%v", signedOrig),
			"idpflag/" + c.Spec.IdP.WantAuthRequestsSigned, "spflag/" + flagOf(c.Spec, c.SP)}
		for _, m := range c.Mut {
			classes = append(classes, "mut/"+c.Binding+"/"+m.Name)
		}
		if len(c.Mut) == 0 {
			classes = append(classes, "mut/none")
			if signedOrig && o.required && !o.accepted {
				classes = append(classes, "valid-signed-but-rejected")
			}
		}
		fp := ev.Fingerprint(c.Mut, c.Binding, c.Spec.IdP.WantAuthRequestsSigned, flagOf(c.Spec, c.SP), signedOrig, c.KeyInfo, c.Alg)
		col.Case(nontrivial, fp, classes, func() any {
			return map[string]any{"binding": c.Binding, "mutations": c.Mut, "idp_want_signed": c.Spec.IdP.WantAuthRequestsSigned, "sp_flag": flagOf(c.Spec, c.SP), "sp_signs_with": c.Alg, "accepted": o.accepted, "reply": o.kind}
		})
		return o.vs
	})
}
