package props

// C05 (DSA part) — the library also verifies HTTP-Redirect signatures made with DSA keys (dsa-sha1, dsa-sha256). The RSA
// machinery of c05_test.go does not reach that code, so this file drives it on its own: a service provider registered with
// a DSA certificate that must sign, genuine signatures and attacker mutations of them.

import (
	"bytes"
	"crypto/dsa"
	"crypto/sha1"
	"crypto/sha256"
	"encoding/asn1"
	"encoding/base64"
	"fmt"
	"math/big"
	"net/url"
	"runtime"
	"strings"
	"sync"
	"testing"

	"pgregory.net/rapid"

	"verif/harness/ev"
	"verif/harness/obs"
	"verif/harness/spsim"
	"verif/harness/world"
	"verif/harness/xt"
)

const (
	algDSASHA1   = "http://www.w3.org/2000/09/xmldsig#dsa-sha1"
	algDSASHA256 = "http://www.w3.org/2009/xmldsig11#dsa-sha256"
)

type C05DSACase struct {
	ReqID    string `json:"request_id"`
	Relay    string `json:"relay_state"`
	HasRelay bool   `json:"has_relay_state"`
	Alg      string `json:"alg"`
	Mut      string `json:"mutation"`
	Arg      int    `json:"arg"`
	SPFlag   string `json:"sp_flag"`
	IdPFlag  string `json:"idp_flag"`
	// Key: the DSA key pair the provider registered ("" = sp-dsa, L=1024 N=160; also L=2048 with N=224 / N=256)
	Key string `json:"key,omitempty"`
}

var c05DSAMuts = []string{"none", "none", "relay-changed", "relay-added", "relay-removed", "message-changed", "sig-bitflip", "sig-swap-rs", "sig-s-plus-q", "sig-s-negated", "sig-r-zero",
	"alg-other-dsa", "alg-rsa", "sig-of-other-message", "sig-empty", "sig-truncated", "sig-trailing", "sig-by-other-dsa-key", "sig-nonminimal-der", "sigalg-lowercase"}

func genC05DSACase(t *rapid.T) C05DSACase {
	return C05DSACase{
		ReqID: "_" + rapid.StringMatching(`[a-f0-9]{8,20}`).Draw(t, "id"), Relay: rapid.SampledFrom([]string{"rs", "a b+c/d=e&f", "ü€", ""}).Draw(t, "relay"), HasRelay: rapid.Bool().Draw(t, "hasrelay"),
		Alg: rapid.SampledFrom([]string{algDSASHA1, algDSASHA256}).Draw(t, "alg"), Mut: rapid.SampledFrom(c05DSAMuts).Draw(t, "mut"), Arg: rapid.IntRange(0, 4000).Draw(t, "arg"),
		SPFlag: rapid.SampledFrom([]string{"true", "1", "true", A, "false"}).Draw(t, "spflag"), IdPFlag: rapid.SampledFrom([]string{"", "", "true", "1", "false"}).Draw(t, "idpflag"),
		Key: rapid.SampledFrom([]string{"", "", "sp-dsa-224", "sp-dsa-256"}).Draw(t, "key"),
	}
}

func dsaDigest(alg, octets string) []byte {
	if strings.Contains(alg, "sha256") {
		h := sha256.Sum256([]byte(octets))
		return h[:]
	}
	h := sha1.Sum([]byte(octets))
	return h[:]
}

func derRS(r, s *big.Int) []byte {
	b, _ := asn1.Marshal(struct{ R, S *big.Int }{r, s})
	return b
}

// c05DSAVerify is the reference: split the raw query the way the binding says, rebuild the signed octets from the raw
// parameter values (or, failing that, from the decoded values in the SP's escaping style), verify with crypto/dsa under
// the registered key.
func c05DSAVerify(rawQuery string, pub *dsa.PublicKey) (ok bool, why string) {
	var msg, relay, alg, sig string
	var hasMsg, hasRelay, hasAlg, hasSig bool
	for _, kv := range strings.Split(rawQuery, "&") {
		k, v, _ := strings.Cut(kv, "=")
		switch k {
		case "SAMLRequest":
			if !hasMsg {
				msg, hasMsg = v, true
			}
		case "RelayState":
			if !hasRelay {
				relay, hasRelay = v, true
			}
		case "SigAlg":
			if !hasAlg {
				alg, hasAlg = v, true
			}
		case "Signature":
			if !hasSig {
				sig, hasSig = v, true
			}
		}
	}
	if !hasMsg || !hasAlg || !hasSig {
		return false, "parameter missing"
	}
	algURI, err := url.QueryUnescape(alg)
	if err != nil || (algURI != algDSASHA1 && algURI != algDSASHA256) {
		return false, "not a DSA algorithm URI: " + algURI
	}
	octets := "SAMLRequest=" + msg
	if hasRelay {
		octets += "&RelayState=" + relay
	}
	octets += "&SigAlg=" + alg
	sigText, err := url.QueryUnescape(sig)
	if err != nil {
		return false, "signature escaping"
	}
	der, err := base64.StdEncoding.DecodeString(sigText)
	if err != nil {
		return false, "signature base64"
	}
	var rs struct{ R, S *big.Int }
	rest, err := asn1.Unmarshal(der, &rs)
	if err != nil || len(rest) != 0 {
		return false, "signature DER"
	}
	if rs.R.Sign() <= 0 || rs.S.Sign() <= 0 {
		return false, "r or s not positive"
	}
	if dsa.Verify(pub, dsaDigest(algURI, octets), rs.R, rs.S) {
		return true, ""
	}
	// The statement is about the content acted on: an attacker who only re-spells percent-escapes changes no content. The
	// simulated SP escapes like qesc, so the octets it signed can be rebuilt from the decoded values.
	dm, err1 := url.QueryUnescape(msg)
	dr, err2 := url.QueryUnescape(relay)
	if err1 == nil && err2 == nil {
		octets = "SAMLRequest=" + qesc(dm)
		if hasRelay {
			octets += "&RelayState=" + qesc(dr)
		}
		octets += "&SigAlg=" + qesc(algURI)
		if dsa.Verify(pub, dsaDigest(algURI, octets), rs.R, rs.S) {
			return true, ""
		}
	}
	return false, "DSA verification failed"
}

func c05DSARun(c C05DSACase) (vs []*ev.Violation, accepted, genuine, required bool) {
	spec := stdSpec()
	spec.IdP.WantAuthRequestsSigned = c.IdPFlag
	sp := stdSP(7)
	keyName := c.Key
	if keyName == "" {
		keyName = "sp-dsa"
	}
	sp.KeyNames = []string{keyName}
	sp.AuthnRequestsSigned = c.SPFlag
	spec.SPs = append(spec.SPs, sp)
	isTrue := func(s string) bool { return s == "true" || s == "1" }
	required = isTrue(c.SPFlag) || isTrue(c.IdPFlag)
	key := world.Key(keyName).DSA
	w := mustBuild(spec)
	encode := func(id string) string {
		a := spsim.NewAuthnReq(id, sp.EntityID)
		return qesc(base64.StdEncoding.EncodeToString(spsim.Deflate(xt.Write(a.Tree(plainStyle), plainStyle.W))))
	}
	sign := func(k *dsa.PrivateKey, msg, relay string, hasRelay bool, alg string) (r, s *big.Int) {
		octets := "SAMLRequest=" + msg
		if hasRelay {
			octets += "&RelayState=" + qesc(relay)
		}
		octets += "&SigAlg=" + qesc(alg)
		r, s, err := dsa.Sign(c09Rand{}, k, dsaDigest(alg, octets))
		if err != nil {
			panic(err)
		}
		return r, s
	}
	msg := encode(c.ReqID)
	relay, hasRelay, alg := c.Relay, c.HasRelay, c.Alg
	r, s := sign(key, msg, relay, hasRelay, alg)
	sig := derRS(r, s)
	algParam := qesc(alg)
	q := key.Q
	switch c.Mut {
	case "relay-changed":
		relay, hasRelay = relay+"x", true
	case "relay-added":
		if hasRelay {
			relay += "&RelayState=again"
		} else {
			relay, hasRelay = "added", true
		}
	case "relay-removed":
		hasRelay = false
	case "message-changed":
		msg = encode(c.ReqID + "-forged")
	case "sig-bitflip":
		sig = append([]byte(nil), sig...)
		sig[c.Arg%len(sig)] ^= 1 << (c.Arg % 8)
	case "sig-swap-rs":
		sig = derRS(s, r)
	case "sig-s-plus-q":
		sig = derRS(r, new(big.Int).Add(s, q))
	case "sig-s-negated":
		sig = derRS(r, new(big.Int).Sub(q, s))
	case "sig-r-zero":
		sig = derRS(big.NewInt(0), s)
	case "alg-other-dsa":
		if alg == algDSASHA1 {
			algParam = qesc(algDSASHA256)
		} else {
			algParam = qesc(algDSASHA1)
		}
	case "alg-rsa":
		algParam = qesc(world.AlgRSASHA256)
	case "sig-of-other-message":
		r2, s2 := sign(key, encode(c.ReqID+"-other"), relay, hasRelay, alg)
		sig = derRS(r2, s2)
	case "sig-empty":
		sig = nil
	case "sig-truncated":
		sig = sig[:len(sig)-1-c.Arg%8]
	case "sig-trailing":
		sig = append(append([]byte(nil), sig...), 0, 0)
	case "sig-by-other-dsa-key":
		other := &dsa.PrivateKey{PublicKey: dsa.PublicKey{Parameters: key.Parameters}}
		if err := dsa.GenerateKey(other, c09Rand{}); err != nil {
			panic(err)
		}
		r2, s2 := sign(other, msg, relay, hasRelay, alg)
		sig = derRS(r2, s2)
	case "sig-nonminimal-der":
		// r with a superfluous leading zero octet: not DER
		rb := append([]byte{0}, r.Bytes()...)
		if rb[1]&0x80 != 0 {
			rb = append([]byte{0}, rb...)
		}
		sb := s.Bytes()
		if sb[0]&0x80 != 0 {
			sb = append([]byte{0}, sb...)
		}
		body := append(append([]byte{2, byte(len(rb))}, rb...), append([]byte{2, byte(len(sb))}, sb...)...)
		sig = append([]byte{0x30, byte(len(body))}, body...)
	case "sigalg-lowercase":
		algParam = strings.ToLower(algParam)
	}
	raw := "SAMLRequest=" + msg
	if hasRelay {
		raw += "&RelayState=" + qesc(relay)
	}
	raw += "&SigAlg=" + algParam + "&Signature=" + qesc(base64.StdEncoding.EncodeToString(sig))
	genuine = c.Mut == "none"
	rep := obs.Do(w.Handler, obs.HTTPReq{Method: "GET", Path: spec.IdP.Route("sso"), RawQuery: raw})
	if rep.Panic != "" {
		return []*ev.Violation{ev.V("C05/panic", "handler panicked: %s", short(rep.Panic, 100))}, false, genuine, required
	}
	okCalls, _ := createCalls(w)
	accepted = len(okCalls) > 0
	if accepted {
		if ok, why := c05DSAVerify(raw, &key.PublicKey); !ok {
			vs = append(vs, ev.V("C05/accepted-with-invalid-dsa-signature", "request accepted (signing required: %v) although its non-empty DSA query signature does not verify under the registered key (%s); mutation %s", required, why, c.Mut))
		} else {
			// what the IdP acted on must be what was signed: the RelayState handed to storage is the signed one
			var got string
			if len(okCalls[0].Args) > 0 {
				got = strings.Join(okCalls[0].Args, "\x00")
			}
			if hasRelay && !strings.Contains(got, relay) {
				vs = append(vs, ev.V("C05/acted-on-unsigned-content", "accepted with RelayState %q signed, but CreateAuthRequest received %q", relay, got))
			}
		}
	}
	return vs, accepted, genuine, required
}

func TestC05DSA(t *testing.T) {
	col := ev.For("C05", "exploration", c05Rule)
	searchRapid(t, col, genC05DSACase, func(c C05DSACase) []*ev.Violation {
		vs, accepted, genuine, required := c05DSARun(c)
		col.Case(!genuine && required, ev.Fingerprint("dsa", c.Alg, c.Mut, c.HasRelay, c.SPFlag, c.IdPFlag), []string{"dsa/mut/" + c.Mut, fmt.Sprintf("dsa/accepted=%v/genuine=%v", accepted, genuine), "dsa/alg/" + c.Alg[strings.LastIndex(c.Alg, "#")+1:]}, func() any {
			return map[string]any{"case": c, "accepted": accepted}
		})
		return vs
	})
}

// TestC05Concurrent: signature verification of one request must not depend on what is being verified for another service
// provider at the same moment. Genuine signed POST requests of service provider 0 and forged ones - naming service provider 1,
// which must sign, but signed with provider 0's registered key and carrying no KeyInfo - are sent from 16 goroutines at once.
// No forged request may ever be accepted. (Interleavings are whatever the Go scheduler produces.)
func TestC05Concurrent(t *testing.T) {
	col := ev.For("C05", "exploration", c05Rule)
	runPlain(t, col, "TestC05", func(fail func(*ev.Violation, any)) {
		spec := stdSpec()
		spec.SPs[0].AuthnRequestsSigned = "true"
		spec.SPs[1].AuthnRequestsSigned = "true"
		w := mustBuild(spec)
		mk := func(id, issuer, keyName string, keyInfo bool) obs.HTTPReq {
			a := spsim.NewAuthnReq(id, issuer)
			tree := a.Tree(plainStyle)
			if err := spsim.SignTree(tree, spsim.Signing{Alg: world.AlgRSASHA256, KeyName: keyName, KeyInfo: keyInfo, CertLayout: "plain", DSPrefix: "ds"}); err != nil {
				panic(err)
			}
			hr, _, _ := spsim.Encode(spec.IdP.Route("sso"), xt.Write(tree, plainStyle.W), spsim.Transport{Binding: "post", Plus: true, Encoding: A, RelayState: "rs"}, nil)
			return hr
		}
		k0 := spec.SPs[0].KeyNames[0]
		const rounds = 150
		var wg sync.WaitGroup
		for g := 0; g < 16; g++ {
			wg.Add(1)
			go func(g int) {
				defer wg.Done()
				for i := 0; i < rounds; i++ {
					if g%2 == 0 {
						obs.Do(w.Handler, mk(fmt.Sprintf("_genuine-%d-%d", g, i), spec.SPs[0].EntityID, k0, i%2 == 0))
					} else {
						obs.Do(w.Handler, mk(fmt.Sprintf("_forged-%d-%d", g, i), spec.SPs[1].EntityID, k0, false))
					}
				}
			}(g)
		}
		wg.Wait()
		okCalls, _ := createCalls(w)
		genuine, forged := 0, 0
		for _, c := range okCalls {
			if c.Req != nil && strings.HasPrefix(c.Req.Id, "_forged") {
				forged++
			} else {
				genuine++
			}
		}
		col.Count("concurrent/genuine-accepted", genuine)
		col.Count("concurrent/forged-sent", 8*rounds)
		col.AddDistinct(16*rounds, 8*rounds)
		if forged > 0 {
			fail(ev.V("C05/forged-accepted-under-concurrency", "%d of %d requests naming service provider 1 but signed with service provider 0's key were accepted while genuine requests of provider 0 were being verified (%d genuine accepted)", forged, 8*rounds, genuine), map[string]any{"note": "schedule-dependent: 16 goroutines, see TestC05Concurrent"})
		}
		if genuine != 8*rounds {
			fmt.Printf("NOTE C05 concurrent: %d of %d genuine requests accepted\n", genuine, 8*rounds)
		}
	})
}

// C05SchedCase: requests of one service provider that must sign arrive together - genuine ones, signed by the provider, and
// forged ones that nobody signed, padded to the byte length of a genuine message - and overlap at storage-call granularity
// under a generated schedule. Whatever is accepted must be a message the provider signed.
type C05SchedCase struct {
	Kinds    []string `json:"kinds"` // genuine | forged | forged-short
	Schedule []int    `json:"schedule"`
	Slow     int      `json:"slow"`
	SlowAt   string   `json:"slow_at,omitempty"`
	Binding  string   `json:"binding"` // post | redirect
}

func genC05SchedCase(t *rapid.T) C05SchedCase {
	c := C05SchedCase{Slow: -1, Binding: rapid.SampledFrom([]string{"post", "post", "redirect"}).Draw(t, "binding")}
	n := rapid.IntRange(2, 4).Draw(t, "n")
	for i := 0; i < n; i++ {
		c.Kinds = append(c.Kinds, rapid.SampledFrom([]string{"genuine", "forged", "forged", "forged-short"}).Draw(t, "kind"))
	}
	c.Kinds[0], c.Kinds[1] = "genuine", "forged"
	if rapid.IntRange(0, 2).Draw(t, "slowstorage") != 0 {
		c.Slow = rapid.IntRange(0, n-1).Draw(t, "slow")
		c.SlowAt = "storage:" + rapid.SampledFrom([]string{"GetEntityByID", "GetEntityByID", "GetResponseSigningKey", "CreateAuthRequest"}).Draw(t, "slowat")
	}
	c.Schedule = rapid.SliceOfN(rapid.IntRange(0, 7), 0, 40).Draw(t, "schedule")
	return c
}

func c05SchedRun(c C05SchedCase) ([]*ev.Violation, []string) {
	spec := stdSpec()
	spec.SPs[0].AuthnRequestsSigned = "true"
	w := mustBuild(spec)
	key := spec.SPs[0].KeyNames[0]
	reqs := make([]obs.HTTPReq, len(c.Kinds))
	genuineLen := 0
	build := func(i int, kind string) obs.HTTPReq {
		id := fmt.Sprintf("_%s-%02d", map[bool]string{true: "genuine", false: "forged-"}[kind == "genuine"], i)
		a := spsim.NewAuthnReq(id, spec.SPs[0].EntityID)
		tree := a.Tree(plainStyle)
		if c.Binding == "redirect" {
			var rs *spsim.Signing
			if kind == "genuine" {
				rs = &spsim.Signing{Alg: world.AlgRSASHA256, KeyName: key}
			}
			hr, _, _ := spsim.Encode(spec.IdP.Route("sso"), xt.Write(tree, plainStyle.W), spsim.Transport{Binding: "redirect", Plus: true, Encoding: A, RelayState: "rs"}, rs)
			return hr
		}
		if kind == "genuine" {
			if err := spsim.SignTree(tree, spsim.Signing{Alg: world.AlgRSASHA256, KeyName: key, KeyInfo: true, CertLayout: "plain", DSPrefix: "ds"}); err != nil {
				panic(err)
			}
		}
		doc := xt.Write(tree, plainStyle.W)
		if kind == "genuine" {
			genuineLen = len(doc)
		} else if kind == "forged" && genuineLen > len(doc) {
			doc = append(doc, bytes.Repeat([]byte(" "), genuineLen-len(doc))...)
		}
		hr, _, _ := spsim.Encode(spec.IdP.Route("sso"), doc, spsim.Transport{Binding: "post", Plus: true, Encoding: A, RelayState: "rs"}, nil)
		return hr
	}
	for i, k := range c.Kinds {
		if k == "genuine" {
			reqs[i] = build(i, k)
		}
	}
	for i, k := range c.Kinds {
		if k != "genuine" {
			reqs[i] = build(i, k)
		}
	}
	v, trace := schedTasks(w, len(c.Kinds), c.Schedule, c.Slow, c.SlowAt, func(i int, opt func() obs.Opt) {
		obs.DoOpt(w.Handler, reqs[i], opt())
	})
	if v != nil {
		v.Key = "C05/" + strings.TrimPrefix(v.Key, "C15/")
		return []*ev.Violation{v}, trace
	}
	var vs []*ev.Violation
	okCalls, _ := createCalls(w)
	for _, call := range okCalls {
		if call.Req == nil || !strings.HasPrefix(call.Req.Id, "_genuine-") {
			id := "(nil)"
			if call.Req != nil {
				id = call.Req.Id
			}
			vs = append(vs, ev.V("C05/forged-accepted-under-overlap", "request %q, which nobody signed, was accepted for a service provider that must sign while genuine requests of that provider were being served (schedule %s)", id, short(strings.Join(trace, " "), 200)))
		}
	}
	return vs, trace
}

func TestC05Sched(t *testing.T) {
	col := ev.For("C05", "exploration", c05Rule)
	old := runtime.GOMAXPROCS(4)
	defer runtime.GOMAXPROCS(old)
	searchRapid(t, col, genC05SchedCase, func(c C05SchedCase) []*ev.Violation {
		vs, trace := c05SchedRun(c)
		col.Case(len(trace) > len(c.Kinds)+2, ev.Fingerprint("sched", c.Kinds, c.Binding, c.SlowAt, c.Slow), []string{"scheduled-requests", "scheduled/" + c.Binding}, func() any {
			return map[string]any{"case": c, "trace": strings.Join(trace, " ")}
		})
		return vs
	})
}

// TestC05TwoReadings: the shrunk failures of the two-readings defects as plain, deterministic cases (no library in between):
// a validly signed POST-binding message of a provider that must sign, (a) as a byte string that is that message when read as
// XML and a forged one when inflated, announced as DEFLATE-encoded, (b) behind an XML declaration naming another encoding.
// Whatever is accepted must be, field for field, what the provider signed.
func TestC05TwoReadings(t *testing.T) {
	col := ev.For("C05", "exploration", c05Rule)
	runPlain(t, col, "TestC05", func(fail func(*ev.Violation, any)) {
		n := 0
		for _, mut := range []Defect{{Name: "deflate-polyglot"}, {Name: "relabel-charset", Param: "ISO-8859-1"}, {Name: "relabel-charset", Param: "windows-1252"}, {Name: "relabel-charset", Param: "UTF-16"}} {
			for _, alg := range []string{world.AlgRSASHA1, world.AlgRSASHA256} {
				for _, keyInfo := range []bool{true, false} {
					for _, flags := range [][2]string{{"true", A}, {"", "true"}, {"1", "1"}} {
						for _, style := range []spsim.XMLStyle{plainStyle, {Prefixes: "default", W: xt.Style{}}, {Prefixes: "odd", Indent: true, W: xt.Style{SingleQuote: true}}} {
							spec := stdSpec()
							spec.IdP.WantAuthRequestsSigned = flags[0]
							spec.SPs[0].AuthnRequestsSigned = flags[1]
							orig := spsim.NewAuthnReq(fmt.Sprintf("_two-readings-%d", n), spec.SPs[0].EntityID)
							orig.IssueInstant = spsim.Rel(-5, 0, "")
							orig.ProviderName = "Café Zürich – ünï"
							c := C05Case{Spec: spec, Host: defHost, SP: 0, Orig: orig, Style: style, Binding: "post", Alg: alg, KeyName: spec.SPs[0].KeyNames[0], KeyInfo: keyInfo, Relay: "rs", Mut: []Defect{mut}}
							o := c05Run(c)
							n++
							col.Case(true, ev.Fingerprint("two-readings", mut, alg, keyInfo, flags, style.Prefixes), []string{"two-readings", "two-readings/" + mut.Name, fmt.Sprintf("two-readings/accepted=%v", o.accepted)}, func() any {
								return map[string]any{"mutation": mut, "alg": alg, "key_info": keyInfo, "idp_want_signed": flags[0], "sp_flag": flags[1], "accepted": o.accepted}
							})
							for _, v := range o.vs {
								fail(v, c)
							}
						}
					}
				}
			}
		}
		col.SetExtra("two_readings_cases", n)
	})
}
