package props

// C19 — Issuer validation and derivation.

import (
	"crypto/tls"
	"fmt"
	"net/http"
	"net/url"
	"regexp"
	"sort"
	"strings"
	"sync"
	"testing"

	"github.com/zitadel/saml/pkg/provider"
	"github.com/muhlemmer/httpforwarded"
	"pgregory.net/rapid"

	"verif/harness/ev"
	"verif/harness/obs"
	"verif/harness/world"
	"verif/harness/xt"
)

const c19Rule = "rapid: (static) issuer strings assembled from a URL grammar with hostile productions - scheme spellings (https, http, HTTPS, ftp, javascript, empty, missing), authority forms (reg-name, IPv4, IPv6 literal, port, port only, userinfo, empty, missing '//'), paths, query and fragment variants (absent, empty, '&', ';', 'a=b', encoded), control characters and blanks - x insecure on/off, through ValidateIssuer and NewProvider(StaticIssuer); an independent RFC 3986 (appendix B) splitter decides the must-reject set (empty; no scheme; scheme other than https, or http without the insecure flag; no or empty authority / empty host; non-empty query or fragment) and the must-accept set (canonical lower-case https://host[:port][/path], http only with the flag); everything else is executed and counted, not asserted. (derived) path configurations (empty, with / without leading slash, nested, trailing slash) x insecure x configured header lists (default Forwarded, custom names) x requests with a Host and header lines built from the RFC 7239 grammar (several lines, several elements, quoted hosts, parameter-name case, for/by/proto noise, empty pairs) or from a malformed-syntax generator, plus X-Forwarded-Host / X-Forwarded-Proto / request-path noise, hosts of the maximum DNS length and longer, one factory value configuring two providers with opposite insecure settings, and 16 concurrent requests with different hosts through one issuer function. Oracle: grammar-built headers - the issuer function returns exactly scheme(flag) + '://' + first host of the first configured header that carries one (else the request Host) + path with leading slash; malformed headers - the result starts with the scheme chosen by the flag, ends with the configured path, and its middle is the request Host or a host= value literally present in a configured header; the served metadata's entityID starts with the same string. Non-trivial: a must-reject string that net/url parses without error, or >= 2 forwarded elements / header lines. Distinct by production vector."

type C19Case struct {
	Kind     string      `json:"kind"` // static | derived
	Issuer   string      `json:"issuer,omitempty"`
	Insecure bool        `json:"insecure"`
	Path     string      `json:"path,omitempty"`
	Headers  []string    `json:"configured_headers,omitempty"` // nil = IssuerFromHost, ["Forwarded"] default, else custom
	Mode     string      `json:"mode,omitempty"`               // host | forwarded | custom
	Host     string      `json:"host,omitempty"`
	Lines    [][2]string `json:"header_lines,omitempty"`
	ReqPath  string      `json:"request_path,omitempty"`
	Wellform bool        `json:"grammar_built,omitempty"`
	Prod     []string    `json:"productions,omitempty"`
	// Twice: the issuer factory value is used for a second provider with the opposite insecure setting before the first
	// issuer function is used (one factory value configuring two providers is ordinary use of the API).
	Twice bool `json:"factory_used_twice,omitempty"`
	// Earlier: a moment ago the same issuer function served a request with the same Host - "other": forwarded by a proxy that
	// named another host, "none": not forwarded at all. Each request is answered from its own headers.
	Earlier string `json:"earlier_request_same_host,omitempty"`
	// TLS: the request arrived over TLS; CtxIssuer: the request's context already carries an issuer (it descends from a request
	// another provider's router handled, or the application set one): neither is the request's Host nor a configured header
	TLS       bool   `json:"tls,omitempty"`
	CtxIssuer string `json:"context_issuer,omitempty"`
}

var reURI = regexp.MustCompile(`^(([^:/?#]+):)?(//([^/?#]*))?([^?#]*)(\?([^#]*))?(#(.*))?$`)

type uriParts struct {
	scheme, authority, path, query, fragment string
	hasAuthority, hasQuery, hasFragment      bool
}

func splitURI(s string) (uriParts, bool) {
	m := reURI.FindStringSubmatch(s)
	if m == nil {
		return uriParts{}, false // only strings with line breaks fail this expression
	}
	return uriParts{scheme: m[2], authority: m[4], path: m[5], query: m[7], fragment: m[9], hasAuthority: m[3] != "", hasQuery: m[6] != "", hasFragment: m[8] != ""}, true
}

func hostOfAuthority(a string) string {
	if i := strings.LastIndex(a, "@"); i >= 0 {
		a = a[i+1:]
	}
	if strings.HasPrefix(a, "[") {
		if j := strings.Index(a, "]"); j >= 0 {
			return a[:j+1]
		}
		return a
	}
	if i := strings.LastIndex(a, ":"); i >= 0 {
		return a[:i]
	}
	return a
}

var reCanonical = regexp.MustCompile(`^(https|http)://([a-z0-9]([a-z0-9-]*[a-z0-9])?(\.[a-z0-9]([a-z0-9-]*[a-z0-9])?)*|\d{1,3}(\.\d{1,3}){3}|\[[0-9a-f:]+\])(:\d{1,5})?(/[A-Za-z0-9._~-]*)*$`)

// classifyIssuer returns "reject", "accept" or "open", with the reason.
func classifyIssuer(s string, insecure bool) (string, string) {
	if s == "" {
		return "reject", "empty"
	}
	p, ok := splitURI(s)
	if !ok {
		return "open", "not matched by the generic URI expression"
	}
	sch := strings.ToLower(p.scheme)
	switch {
	case p.scheme == "":
		return "reject", "no scheme"
	case sch != "https" && !(sch == "http" && insecure):
		return "reject", "scheme"
	case !p.hasAuthority:
		return "reject", "no authority"
	case p.authority == "" || hostOfAuthority(p.authority) == "":
		return "reject", "empty host"
	case p.query != "":
		return "reject", "query"
	case p.fragment != "":
		return "reject", "fragment"
	}
	if reCanonical.MatchString(s) && !strings.Contains(s, "[") {
		return "accept", "canonical"
	}
	return "open", "statement silent"
}

var (
	c19Schemes    = []string{"https", "https", "https", "http", "HTTPS", "Https", "hTTp", "ftp", "javascript", "file", "", "h ttps", "https+x", "1https"}
	c19SchemeSeps = []string{"://", "://", "://", ":", ":/", "//", "", ":///", ":\\\\"}
	c19Auths      = []string{"idp.example", "idp.example", "idp.example:8443", "127.0.0.1", "127.0.0.1:80", "[::1]", "[2001:db8::1]:443", "user@idp.example", "user:pw@idp.example", "", ":8080", "user@", "@", "idp.example:", "IDP.Example", "idp..example", "idp example", "idp.example\t", "xn--idp-example", "%69dp.example", "idp.example\x00", "[::1", "idp.example:port"}
	c19Paths      = []string{"", "", "/", "/saml", "/saml/", "/a/b/c", "/a%2Fb", "/a b", "/../x", "//double", "/ü", "/a;b=c", "/%zz"}
	c19Queries    = []string{"", "", "", "?", "?a=b", "?a", "?&", "?;", "?=", "?%3F", "?a=b&c=d", "? "}
	c19Fragments  = []string{"", "", "", "#", "#frag", "#?", "#%23", "# "}
)

func genC19Static(t *rapid.T) C19Case {
	c := C19Case{Kind: "static", Insecure: rapid.Bool().Draw(t, "insecure")}
	// the caller's configuration value configured an insecure provider before (tests, a development listener next to the real one)
	c.Twice = !c.Insecure && rapid.IntRange(0, 2).Draw(t, "sharedconfig") == 0
	sch := rapid.SampledFrom(c19Schemes).Draw(t, "scheme")
	sep := rapid.SampledFrom(c19SchemeSeps).Draw(t, "sep")
	auth := rapid.SampledFrom(c19Auths).Draw(t, "authority")
	path := rapid.SampledFrom(c19Paths).Draw(t, "path")
	q := rapid.SampledFrom(c19Queries).Draw(t, "query")
	f := rapid.SampledFrom(c19Fragments).Draw(t, "fragment")
	c.Issuer = sch + sep + auth + path + q + f
	c.Prod = []string{"scheme=" + sch, "sep=" + sep, "auth=" + auth, "path=" + path, "query=" + q, "frag=" + f}
	switch rapid.IntRange(0, 12).Draw(t, "whole") {
	case 4, 5, 6:
		// canonical forms: what every deployment uses
		sch = rapid.SampledFrom([]string{"https", "https", "http"}).Draw(t, "cscheme")
		auth = rapid.SampledFrom([]string{"idp.example", "idp.example:8443", "127.0.0.1", "127.0.0.1:80", "login.idp.example", "a-b.example", "localhost:8080"}).Draw(t, "cauth")
		path = rapid.SampledFrom([]string{"", "/", "/saml", "/saml/", "/a/b/c", "/a.b_c~d-e"}).Draw(t, "cpath")
		c.Issuer = sch + "://" + auth + path
		c.Prod = []string{"canonical", "scheme=" + sch, "auth=" + auth, "path=" + path}
	case 0:
		c.Issuer = ""
	case 1:
		c.Issuer = " " + c.Issuer
	case 2:
		c.Issuer = c.Issuer + "\n"
	case 3:
		c.Issuer = xt.AnyString(4).Draw(t, "garbage")
	}
	return c
}

// ---- derived issuers ----

// c19LongName is a DNS name of the maximum length (253 octets: labels of 63, 63, 63 and 61).
var c19LongName = strings.Repeat("a", 63) + "." + strings.Repeat("b", 63) + "." + strings.Repeat("c", 63) + "." + strings.Repeat("d", 53) + ".example"

var c19HostTokens = []string{"fwd.example", "a.example", "b.example", "edge-1.example", "10.0.0.1", "xn--bcher-kva.example", "idp--staging.example", c19LongName, c19LongName + "."}
var c19HostQuoted = []string{"fwd.example:8443", "[2001:db8::2]:443", "c.example", c19LongName + ":8443", "[fe80::1ff:fe23:4567:890a%25" + strings.Repeat("z", 240) + "]:443", strings.Repeat("long-label.", 80) + "example:65535"}

func genForwardedElement(t *rapid.T, withHost bool) (string, string) {
	var pairs []string
	host := ""
	if rapid.Bool().Draw(t, "for") {
		pairs = append(pairs, "for="+rapid.SampledFrom([]string{"192.0.2.43", "\"[2001:db8:cafe::17]:4711\"", "_hidden", "unknown"}).Draw(t, "forv"))
	}
	if withHost {
		name := rapid.SampledFrom([]string{"host", "host", "Host", "HOST"}).Draw(t, "hostname")
		if rapid.Bool().Draw(t, "quoted") {
			host = rapid.SampledFrom(c19HostQuoted).Draw(t, "hostq")
			pairs = append(pairs, name+"=\""+host+"\"")
		} else {
			host = rapid.SampledFrom(c19HostTokens).Draw(t, "hostt")
			pairs = append(pairs, name+"="+host)
		}
	}
	if rapid.Bool().Draw(t, "proto") {
		pairs = append(pairs, "proto="+rapid.SampledFrom([]string{"http", "https", "ftp"}).Draw(t, "protov"))
	}
	if rapid.IntRange(0, 3).Draw(t, "by") == 0 {
		pairs = append(pairs, "by=203.0.113.60")
	}
	if len(pairs) == 0 {
		pairs = append(pairs, "for=unknown")
	}
	// order within an element is free
	if len(pairs) > 1 && rapid.Bool().Draw(t, "rotate") {
		pairs = append(pairs[1:], pairs[0])
	}
	el := strings.Join(pairs, rapid.SampledFrom([]string{";", ";", "; "}).Draw(t, "pairsep"))
	// forwarded-element = [ forwarded-pair ] *( ";" [ forwarded-pair ] ): a pair may be empty, at the end too
	// (a rare production: rapid's integer ranges favour small values and the ends, so the trigger sits in the middle)
	switch rapid.IntRange(0, 39).Draw(t, "emptypair") {
	case 17:
		el += ";"
	case 23:
		el = strings.Replace(el, ";", ";;", 1)
	}
	return el, host
}

var c19Malformed = []string{"host=\"unterminated", "host", "=x", ";;;", "host==a", "host=a b", "host=\"a\"b", ",", "host=a;host", "host=\x00", "host=a,,host=b", "\"", "host=\"a\\", "for=1;host", "host = spaced.example", "host=\"q.example\";=", "HOST=ok.example;bad"}

func genC19Derived(t *rapid.T) C19Case {
	c := C19Case{Kind: "derived", Insecure: rapid.Bool().Draw(t, "insecure")}
	c.Path = rapid.SampledFrom([]string{"", "", "/", "/saml", "saml", "a/b", "/x/", "/saml/v2", "/saml%2Fv2", "//tenants/saml", "tenant%20a/saml", "/idp%3Fdebug", "/ä", "/a b"}).Draw(t, "path")
	c.Mode = rapid.SampledFrom([]string{"host", "forwarded", "forwarded", "custom", "custom"}).Draw(t, "mode")
	switch c.Mode {
	case "forwarded":
		c.Headers = []string{"Forwarded"}
	case "custom":
		n := rapid.IntRange(1, 3).Draw(t, "ncustom")
		pool := []string{"forwarded", "X-Zitadel-Forwarded", "x-custom-fwd"}
		for i := 0; i < n; i++ {
			h := pool[(rapid.IntRange(0, 2).Draw(t, "customidx")+i)%3]
			dup := false
			for _, e := range c.Headers {
				if strings.EqualFold(e, h) {
					dup = true
				}
			}
			if !dup {
				c.Headers = append(c.Headers, h)
			}
		}
	}
	c.Host = rapid.SampledFrom([]string{"idp.example", "idp.example", "host-hdr.example:8080", "[::1]:8443", "UPPER.Example", "tenant.idp.example"}).Draw(t, "host")
	c.ReqPath = rapid.SampledFrom([]string{"/metadata", "/evil/path/metadata", "/metadata?x=https://evil.example", "/"}).Draw(t, "reqpath")
	c.Wellform = rapid.IntRange(0, 3).Draw(t, "malformed") != 0
	c.Twice = rapid.IntRange(0, 3).Draw(t, "twice") == 0
	c.Earlier = rapid.SampledFrom([]string{"", "", "other", "none"}).Draw(t, "earlier")
	c.TLS = rapid.Bool().Draw(t, "tls")
	if rapid.IntRange(0, 2).Draw(t, "ctxissuer") == 0 {
		c.CtxIssuer = rapid.SampledFrom([]string{"https://other-provider.example/saml", "http://ctx.example", "ftp://x"}).Draw(t, "ctxissuerv")
	}
	// header lines: configured headers and noise headers
	names := append([]string{}, c.Headers...)
	names = append(names, "X-Forwarded-Host", "X-Forwarded-Proto", "Forwarded", "X-Zitadel-Forwarded")
	for _, name := range names {
		nlines := rapid.IntRange(0, 2).Draw(t, "nlines")
		for i := 0; i < nlines; i++ {
			switch {
			case name == "X-Forwarded-Host":
				c.Lines = append(c.Lines, [2]string{name, "xfh-evil.example"})
			case name == "X-Forwarded-Proto":
				c.Lines = append(c.Lines, [2]string{name, rapid.SampledFrom([]string{"http", "https"}).Draw(t, "xfp")})
			case c.Wellform:
				nel := rapid.IntRange(1, 3).Draw(t, "nelements")
				var els []string
				for k := 0; k < nel; k++ {
					el, _ := genForwardedElement(t, rapid.IntRange(0, 2).Draw(t, "withhost") != 0)
					els = append(els, el)
				}
				c.Lines = append(c.Lines, [2]string{name, strings.Join(els, rapid.SampledFrom([]string{",", ", "}).Draw(t, "elsep"))})
			default:
				if rapid.Bool().Draw(t, "mixok") {
					el, _ := genForwardedElement(t, true)
					c.Lines = append(c.Lines, [2]string{name, el})
				} else {
					c.Lines = append(c.Lines, [2]string{name, rapid.SampledFrom(c19Malformed).Draw(t, "badline")})
				}
			}
		}
	}
	return c
}

func genC19Case(t *rapid.T) C19Case {
	if rapid.Bool().Draw(t, "static") {
		return genC19Static(t)
	}
	return genC19Derived(t)
}

// c19WithoutEmptyPairs returns the request with the empty forwarded-pairs removed from the lines of the configured headers.
func c19WithoutEmptyPairs(req *http.Request, configured map[string]bool) (*http.Request, bool) {
	twin := req.Clone(req.Context())
	changed := false
	for name, lines := range twin.Header {
		if !configured[http.CanonicalHeaderKey(name)] {
			continue
		}
		for i, line := range lines {
			var els []string
			for _, el := range strings.Split(line, ",") {
				var pairs []string
				for _, p := range strings.Split(el, ";") {
					if strings.TrimSpace(p) != "" {
						pairs = append(pairs, p)
					}
				}
				els = append(els, strings.Join(pairs, ";"))
			}
			if n := strings.Join(els, ","); n != line {
				lines[i] = n
				changed = true
			}
		}
	}
	return twin, changed
}

// reference parser for grammar-built Forwarded lines (only what the generator emits)
func refHostsOfLine(line string) []string {
	var hosts []string
	for _, el := range strings.Split(line, ",") {
		for _, pair := range strings.Split(el, ";") {
			k, v, ok := strings.Cut(strings.TrimSpace(pair), "=")
			if ok && strings.EqualFold(k, "host") {
				hosts = append(hosts, strings.Trim(v, "\""))
			}
		}
	}
	return hosts
}

var reHostLenient = regexp.MustCompile(`(?i)host\s*=\s*("[^"]*"?|[^;,]*)`)

func c19IssuerFactory(c C19Case) func(bool) (provider.IssuerFromRequest, error) {
	switch c.Mode {
	case "host":
		return provider.IssuerFromHost(c.Path)
	case "forwarded":
		return provider.IssuerFromForwardedOrHost(c.Path)
	default:
		return provider.IssuerFromForwardedOrHost(c.Path, provider.WithIssuerFromCustomHeaders(append([]string(nil), c.Headers...)...))
	}
}

func c19Run(c C19Case) (vs []*ev.Violation, class string) {
	add := func(key, f string, a ...any) { vs = append(vs, ev.V("C19/"+key, f, a...)) }
	if c.Kind == "static" {
		cl, why := classifyIssuer(c.Issuer, c.Insecure)
		class = cl + ": " + why
		errV := provider.ValidateIssuer(c.Issuer, c.Insecure)
		spec := world.Spec{IdP: world.IdPConfig{IssuerMode: "static", Issuer: c.Issuer, Insecure: c.Insecure, SignatureAlgorithm: world.AlgRSASHA256}, SPs: []world.SPSpec{stdSP(0)}}
		_, errP := world.Build(spec)
		if c.Twice {
			// the same *provider.Config value first configures a provider in insecure mode, then the provider under test
			first := world.IdPConfig{IssuerMode: "static", Issuer: "http://dev.idp.example", Insecure: true, SignatureAlgorithm: world.AlgRSASHA256}
			conf, firstIssuer, firstOpts := world.ProviderConfig(first)
			st := mustBuild(world.Spec{IdP: world.DefaultIdP(), SPs: []world.SPSpec{stdSP(0)}}).Store
			if _, err := provider.NewProvider(st, firstIssuer, conf, firstOpts...); err != nil {
				panic("harness: insecure provider refused: " + err.Error())
			}
			_, errP = provider.NewProvider(st, provider.StaticIssuer(c.Issuer), conf)
		}
		if (errV == nil) != (errP == nil) {
			add("constructor-and-validator-disagree", "issuer %q insecure=%v: ValidateIssuer says %v, NewProvider says %v", c.Issuer, c.Insecure, errV, errP)
		}
		switch cl {
		case "reject":
			if errP == nil {
				add("invalid-static-issuer-accepted:"+strings.ReplaceAll(why, " ", "-"), "provider constructed with issuer %q (insecure=%v) although: %s", c.Issuer, c.Insecure, why)
			}
		case "accept":
			if errP != nil {
				add("valid-static-issuer-rejected", "issuer %q (insecure=%v) refused: %v", c.Issuer, c.Insecure, errP)
			}
		}
		return
	}
	// derived
	factory := c19IssuerFactory(c)
	fn, err := factory(c.Insecure)
	if err != nil {
		add("path-configuration-rejected", "path %q refused: %v", c.Path, err)
		return
	}
	var fnOther provider.IssuerFromRequest
	if c.Twice {
		if fnOther, err = factory(!c.Insecure); err != nil {
			add("path-configuration-rejected", "path %q refused on second use of the factory: %v", c.Path, err)
			return
		}
	}
	req := &http.Request{Method: "GET", Host: c.Host, Header: http.Header{}, URL: &url.URL{Path: strings.SplitN(c.ReqPath, "?", 2)[0]}, RequestURI: c.ReqPath}
	for _, l := range c.Lines {
		req.Header.Add(l[0], l[1])
	}
	if c.TLS {
		req.TLS = &tls.ConnectionState{HandshakeComplete: true}
	}
	if c.CtxIssuer != "" {
		req = req.WithContext(provider.ContextWithIssuer(req.Context(), c.CtxIssuer))
	}
	var got string
	func() {
		defer func() {
			if p := recover(); p != nil {
				add("panic", "issuer function panicked: %v", p)
			}
		}()
		if c.Earlier != "" {
			prev := &http.Request{Method: "GET", Host: c.Host, Header: http.Header{}, URL: &url.URL{Path: "/metadata"}, RequestURI: "/metadata"}
			if c.Earlier == "other" {
				for _, h := range c.Headers {
					prev.Header.Add(h, "for=198.51.100.7;host=earlier-proxy.example;proto=https")
				}
			}
			fn(prev)
		}
		got = fn(req)
		if fnOther != nil {
			other := fnOther(req)
			otherScheme := "http://"
			if c.Insecure {
				otherScheme = "https://"
			}
			if !strings.HasPrefix(other, otherScheme) {
				add("derived-scheme", "second provider of the same factory value (insecure=%v): issuer %q does not start with %q", !c.Insecure, other, otherScheme)
			}
		}
	}()
	if len(vs) > 0 {
		return
	}
	scheme := "https://"
	if c.Insecure {
		scheme = "http://"
	}
	path := c.Path
	if path != "" && !strings.HasPrefix(path, "/") {
		path = "/" + path
	}
	configured := map[string]bool{}
	for _, h := range c.Headers {
		configured[http.CanonicalHeaderKey(h)] = true
	}
	if c.Wellform {
		class = "derived/grammar"
		want := c.Host
		for _, h := range c.Headers {
			var hosts []string
			for _, l := range c.Lines {
				if http.CanonicalHeaderKey(l[0]) == http.CanonicalHeaderKey(h) {
					hosts = append(hosts, refHostsOfLine(l[1])...)
				}
			}
			if len(hosts) > 0 {
				want = hosts[0]
				break
			}
		}
		if got != scheme+want+path {
			// root cause of the known finding: the header parser (github.com/muhlemmer/httpforwarded) has no notion of the empty
			// forwarded-pair the grammar allows - a trailing ';' ends the parsing of every remaining line, an empty pair elsewhere
			// is a syntax error that discards the header. Recognised by a twin: the same lines without the empty pairs must give
			// the expected issuer.
			key := "derived-issuer"
			if twin, changed := c19WithoutEmptyPairs(req, configured); changed {
				twinGot := ""
				func() {
					defer func() { recover() }()
					twinGot = fn(twin)
				}()
				// ... and the issuer is exactly what that parser makes of the configured headers, taken one after the other
				model := c.Host
				for _, h := range c.Headers {
					if hosts, err := httpforwarded.ParseParameter("host", req.Header[http.CanonicalHeaderKey(h)]); err == nil && len(hosts) > 0 {
						model = hosts[0]
						break
					}
				}
				if twinGot == scheme+want+path && got == scheme+model+path {
					key = "forwarded-empty-pair-not-skipped"
				}
			}
			add(key, "config (path %q, headers %v, insecure %v), Host %q, lines %v: issuer %q, expected %q", c.Path, c.Headers, c.Insecure, c.Host, c.Lines, got, scheme+want+path)
		}
	} else {
		class = "derived/malformed"
		allowed := map[string]bool{c.Host: true}
		for _, l := range c.Lines {
			if configured[http.CanonicalHeaderKey(l[0])] {
				for _, m := range reHostLenient.FindAllStringSubmatch(l[1], -1) {
					allowed[strings.Trim(strings.TrimSpace(m[1]), "\"")] = true
					allowed[strings.TrimSpace(m[1])] = true
				}
			}
		}
		switch {
		case !strings.HasPrefix(got, scheme):
			add("derived-scheme", "issuer %q does not start with %q", got, scheme)
		case !strings.HasSuffix(got, path):
			add("derived-path", "issuer %q does not end with the configured path %q", got, path)
		default:
			mid := strings.TrimSuffix(strings.TrimPrefix(got, scheme), path)
			if !allowed[mid] {
				add("derived-host", "issuer host part %q is neither the request Host %q nor a host= value of a configured header (%v)", mid, c.Host, c.Lines)
			}
		}
	}
	// the served metadata must use the same issuer
	spec := world.Spec{IdP: world.IdPConfig{IssuerMode: c.Mode, IssuerPath: c.Path, CustomHeaders: c.Headers, Insecure: c.Insecure, SignatureAlgorithm: world.AlgRSASHA256}, SPs: []world.SPSpec{stdSP(0)}}
	w, err := world.Build(spec)
	if err != nil {
		add("path-configuration-rejected", "NewProvider refused path %q: %v", c.Path, err)
		return
	}
	rq, rqQuery, _ := strings.Cut(c.ReqPath, "?")
	_ = rq
	// the provider's own entry point for applications must give the same answer for this request
	if viaProvider := w.Provider.IssuerFromRequest(req); viaProvider != got {
		add("provider-issuer-from-request", "Provider.IssuerFromRequest gives %q, the configured issuer function %q (request context issuer %q)", viaProvider, got, c.CtxIssuer)
	}
	rep := obs.Do(w.Handler, obs.HTTPReq{Method: "GET", Path: "/metadata", RawQuery: rqQuery, Host: c.Host, Headers: c.Lines, TLS: c.TLS})
	if rep.Status == 200 {
		if doc, err := xt.Parse(rep.Body); err == nil {
			want := strings.TrimSuffix(got, "/") + "/metadata"
			if id := doc.Root.AttrV("entityID"); id != want {
				add("metadata-entityid-not-derived-issuer", "entityID %q, issuer function gives %q", id, want)
			}
		}
	}
	return
}

// TestC19Concurrent: one issuer function serves many requests at once; each result must be the one for its own request.
func TestC19Concurrent(t *testing.T) {
	col := ev.For("C19", "exploration", c19Rule)
	runPlain(t, col, "TestC19", func(fail func(*ev.Violation, any)) {
		n := 0
		for _, mode := range []string{"host", "forwarded", "custom"} {
			for _, path := range []string{"", "/saml", "tenants/a"} {
				for _, insecure := range []bool{false, true} {
					c := C19Case{Kind: "derived", Mode: mode, Path: path, Insecure: insecure}
					if mode != "host" {
						c.Headers = []string{"Forwarded"}
					}
					if mode == "custom" {
						c.Headers = []string{"X-Zitadel-Forwarded"}
					}
					fn, err := c19IssuerFactory(c)(insecure)
					if err != nil {
						continue
					}
					scheme := map[bool]string{false: "https://", true: "http://"}[insecure]
					p := path
					if p != "" && !strings.HasPrefix(p, "/") {
						p = "/" + p
					}
					var wg sync.WaitGroup
					var mu sync.Mutex
					var bad *ev.Violation
					for g := 0; g < 16; g++ {
						wg.Add(1)
						go func(g int) {
							defer wg.Done()
							host := fmt.Sprintf("tenant-%d%s.idp.example", g, strings.Repeat("x", g*3))
							req := &http.Request{Method: "GET", Host: "direct-" + host, Header: http.Header{}, URL: &url.URL{Path: "/metadata"}}
							want := scheme + "direct-" + host + p
							if mode != "host" {
								req.Header.Set(c.Headers[0], "for=192.0.2.1;host="+host)
								want = scheme + host + p
							}
							for i := 0; i < 3000; i++ {
								if got := fn(req); got != want {
									mu.Lock()
									if bad == nil {
										bad = ev.V("C19/derived-issuer-under-concurrency", "16 concurrent requests with different hosts: request for %q got issuer %q, expected %q", host, got, want)
									}
									mu.Unlock()
									return
								}
							}
						}(g)
					}
					wg.Wait()
					n += 16 * 3000
					if bad != nil {
						fail(bad, c)
					}
				}
			}
		}
		col.Count("concurrent-derivations", n)
		col.AddDistinct(18, 18)
	})
}

func TestC19(t *testing.T) {
	col := ev.For("C19", "exploration", c19Rule)
	searchRapid(t, col, genC19Case, func(c C19Case) []*ev.Violation {
		vs, class := c19Run(c)
		nontrivial := false
		var fp string
		classes := []string{"kind/" + c.Kind, "class/" + class}
		if c.Kind == "static" {
			_, perr := url.Parse(c.Issuer)
			nontrivial = strings.HasPrefix(class, "reject") && perr == nil
			fp = ev.Fingerprint(c.Prod, c.Insecure, class)
			if nontrivial {
				classes = append(classes, "reject-but-net/url-parses")
			}
		} else {
			elements := 0
			for _, l := range c.Lines {
				elements += strings.Count(l[1], ",") + 1
			}
			nontrivial = elements >= 2
			var names []string
			for _, l := range c.Lines {
				names = append(names, l[0]+":"+fmt.Sprint(strings.Count(l[1], ",")+1)+":"+fmt.Sprint(strings.Contains(strings.ToLower(l[1]), "host")))
			}
			sort.Strings(names)
			fp = ev.Fingerprint(c.Mode, c.Headers, c.Path, c.Insecure, names, c.Wellform)
			classes = append(classes, "mode/"+c.Mode, fmt.Sprintf("lines=%d", len(c.Lines)))
		}
		col.Case(nontrivial, fp, classes, func() any { return c })
		return vs
	})
}
