package props

// C08 — One SSO request, one outcome; rejected requests leave no trace.

import (
	"sync"
	"context"
	"fmt"
	"strings"
	"testing"
	"time"

	"pgregory.net/rapid"

	"verif/harness/ev"
	"verif/harness/obs"
	"verif/harness/spsim"
	"verif/harness/world"
)

const c08Rule = "rapid-generated SSO requests: valid, carrying one defect of the validity catalogue (decode / issuer / id / version / destination / conditions / encoding / signature steps), or valid but unanswerable, from SPs whose 0..4 ACS entries use bindings {POST, Redirect, Artifact, PAOS, other} with any index/isDefault mix, with the storage persist step succeeding or failing. Oracle: exactly one successful CreateAuthRequest + 303 to the login URL of the returned id + a body that is only the redirect stub, or no successful persist and a plain HTTP error or exactly one non-Success SAML Response (one well-formed document / one form / one 302). Non-trivial: the entry selected by the reference selection function is not POST/Redirect, or the persist step fails, or the request fails a check placed after endpoint selection. Distinct by (defect set, selected binding, persist fault, reply kind)."

type ssoRun struct {
	W      *world.World
	HR     obs.HTTPReq
	Rep    obs.Reply
	Dec    *obs.Decoded
	Sent   *Sent
	Now    time.Time
	Signed *spsim.Signed
}

func runSSO(c SSOCase) (*ssoRun, error) {
	spec := c.Spec
	if c.PersistFault {
		kind := c.FaultKind
		if kind == "" {
			kind = "error"
		}
		spec.Faults = append(append([]world.Fault(nil), spec.Faults...), world.Fault{Op: "CreateAuthRequest", Occurrence: 0, Kind: kind})
	}
	if c.LookupFault != "" {
		spec.Faults = append(append([]world.Fault(nil), spec.Faults...), world.Fault{Op: "GetEntityByID", Occurrence: 0, Kind: c.LookupFault})
	}
	if c.KeyFault != "" {
		spec.Faults = append(append([]world.Fault(nil), spec.Faults...), world.Fault{Op: "GetResponseSigningKey", Occurrence: 0, Kind: c.KeyFault})
	}
	if c.Noise {
		spec = withNoise(spec)
	}
	var w *world.World
	if c.Hist != nil {
		w = buildWithHistory(spec, c.Hist, c.Host)
	} else {
		var err error
		if w, err = world.Build(spec); err != nil {
			return nil, err
		}
	}
	if c.Noise {
		runNoise(w, spec)
	}
	runPrelude(w, c.Spec, c.Prelude)
	now := time.Now()
	hr, signed, err := ssoRender(c, now)
	if err != nil {
		return nil, err
	}
	var o obs.Opt
	if c.GoneAtPersist {
		ctx, cancel := context.WithCancel(context.Background())
		defer cancel()
		o.Ctx = ctx
		w.Store.Before = func(_ context.Context, op string) string {
			if op == "CreateAuthRequest" {
				cancel()
			}
			return ""
		}
		defer func() { w.Store.Before = nil }()
	}
	if c.PersistDelayMs > 0 && !c.GoneAtPersist {
		w.Store.Before = func(_ context.Context, op string) string {
			if op == "CreateAuthRequest" {
				time.Sleep(time.Duration(c.PersistDelayMs) * time.Millisecond)
			}
			return ""
		}
		defer func() { w.Store.Before = nil }()
	}
	rep := obs.DoOpt(w.Handler, hr, o)
	r := &ssoRun{W: w, HR: hr, Rep: rep, Now: now, Signed: signed}
	r.Dec = obs.Decode(rep)
	host := effHost(c)
	r.Sent = evalSent(c.Spec, func(e string) bool {
		if _, bad := w.SPErrors[e]; bad {
			return false
		}
		_, known := w.Store.SPSpecByEntity(e) // what the storage knows now (a deregistered provider is not registered)
		return known
	}, host, hr, now)
	return r, nil
}

// refSelect is C16's reference selection over an SP spec; returns the chosen entry or nil.
func refSelect(sp world.SPSpec, requested string) []world.ACSSpec {
	var entries []C16Entry
	for _, a := range sp.ACS {
		d := a.IsDefault
		if d == A {
			d = ""
		}
		entries = append(entries, C16Entry{Binding: a.Binding, Index: a.Index, IsDefault: d, Location: a.Location})
	}
	var out []world.ACSSpec
	for _, i := range c16Reference(entries, requested) {
		out = append(out, sp.ACS[i])
	}
	return out
}

var c08DefectCatalogue = []Defect{
	{Name: "bad-base64"}, {Name: "bad-deflate"}, {Name: "truncated-xml"}, {Name: "unclosed-tag"}, {Name: "not-xml"}, {Name: "empty-xml"},
	{Name: "unquoted-attr"}, {Name: "attr-without-value"}, {Name: "bad-entity", Param: "undefined/text"}, {Name: "bad-entity", Param: "nbsp/text"}, {Name: "bad-entity", Param: "nbsp/attr"}, {Name: "bad-entity", Param: "copy/attr"}, {Name: "bad-entity", Param: "eacute/text"},
	{Name: "wrong-root", Param: "LogoutRequest"}, {Name: "wrong-root", Param: "Response"}, {Name: "wrong-root-ns"},
	{Name: "issuer-absent"}, {Name: "issuer-empty"}, {Name: "issuer-unregistered"}, {Name: "issuer-case"}, {Name: "issuer-blank"}, {Name: "issuer-slash"},
	{Name: "id-absent"}, {Name: "id-empty"}, {Name: "version-absent"}, {Name: "version-empty"},
	{Name: "dest-endpoint", Param: "slo"}, {Name: "dest-endpoint", Param: "attribute"}, {Name: "dest-endpoint", Param: "metadata"}, {Name: "dest-endpoint", Param: "callback"}, {Name: "dest-endpoint", Param: "certificate"},
	{Name: "base64-trailing-garbage", Param: "%21%21%21%21"}, {Name: "base64-trailing-garbage", Param: "%00"}, {Name: "base64-trailing-garbage", Param: "%3Cscript%3E"}, {Name: "base64-trailing-garbage", Param: "*"},
	{Name: "base64-middle-garbage", Param: "%21"}, {Name: "base64-url-alphabet"},
	{Name: "dest-other-host"}, {Name: "dest-other-path"}, {Name: "dest-trailing-slash"}, {Name: "dest-path-case"}, {Name: "dest-scheme"}, {Name: "dest-prefix"},
	{Name: "dest-query", Param: "?tenant=other"}, {Name: "dest-query", Param: "?"}, {Name: "dest-fragment", Param: "#x"}, {Name: "dest-userinfo", Param: "sp.example.net@"}, {Name: "dest-userinfo", Param: "user:pw@"},
	{Name: "dest-dot-segment"}, {Name: "dest-double-slash"}, {Name: "dest-host-dot"},
	{Name: "nb-future", Param: "10"}, {Name: "nb-future", Param: "3600"}, {Name: "nb-future", Param: "315360000"},
	{Name: "noa-past", Param: "10"}, {Name: "noa-past", Param: "3600"}, {Name: "noa-past", Param: "315360000"},
	{Name: "nb-abs", Param: "9999-12-31T23:59:59Z"}, {Name: "nb-abs", Param: "2400-01-01T00:00:00Z"}, {Name: "nb-abs", Param: "2262-04-12T00:00:00.5Z"}, {Name: "nb-abs", Param: "2038-01-19T03:14:08Z"},
	{Name: "noa-abs", Param: "1601-01-01T00:00:00Z"}, {Name: "noa-abs", Param: "1500-06-15T12:00:00Z"}, {Name: "noa-abs", Param: "0001-01-01T00:00:00Z"}, {Name: "noa-abs", Param: "1677-09-21T00:12:43Z"}, {Name: "noa-abs", Param: "1970-01-01T00:00:00Z"},
	{Name: "nb-future-form", Param: "1800/0/offsetneg"}, {Name: "noa-past-form", Param: "1800/0/offset2"},
	{Name: "nb-garbage", Param: "now"}, {Name: "nb-garbage", Param: "dateonly"}, {Name: "nb-garbage", Param: "month13"}, {Name: "noa-garbage", Param: "now"}, {Name: "noa-garbage", Param: "space"},
	{Name: "unknown-encoding", Param: "urn:example:encoding"}, {Name: "unknown-encoding", Param: "urn:oasis:names:tc:SAML:2.0:bindings:URL-Encoding:deflate"}, {Name: "unknown-encoding", Param: spsim.EncodingDeflate + " "}, {Name: "unknown-encoding", Param: "%"}, {Name: "unknown-encoding", Param: "%zz"}, {Name: "unknown-encoding", Param: spsim.EncodingDeflate + "%"}, {Name: "unknown-encoding", Param: "urn%3Aoasis%3Anames%3Atc%3ASAML%3A2.0%3Abindings%3AURL-Encoding%3ADEFLATE"},
	{Name: "sigalg-without-signature"}, {Name: "empty-samlrequest"}, {Name: "missing-samlrequest"},
}

// applyModelDefect edits the request model for the model-level defects.
func applyModelDefect(c *SSOCase, d Defect, host string) {
	adv := c.Spec.IdP.Advertised("sso", host)
	r := &c.Req
	conds := func() *spsim.Conditions {
		if r.Conditions == nil {
			r.Conditions = &spsim.Conditions{NotBefore: A, NotOnOrAfter: A}
		}
		return r.Conditions
	}
	switch d.Name {
	case "issuer-absent":
		r.Issuer = A
	case "issuer-empty":
		r.Issuer = ""
	case "issuer-unregistered":
		r.Issuer = "https://unregistered.example/metadata"
	case "issuer-case":
		if r.Issuer == A || r.Issuer == "" {
			r.Issuer = "HTTPS://unregistered.example"
			break
		}
		if sw := swapCase(r.Issuer); sw != r.Issuer {
			r.Issuer = sw
		} else {
			r.Issuer += "X"
		}
	case "issuer-blank":
		if r.Issuer == A {
			r.Issuer = ""
		}
		r.Issuer = " " + r.Issuer + " "
	case "issuer-slash":
		if r.Issuer == A {
			r.Issuer = ""
		}
		if strings.HasSuffix(r.Issuer, "/") {
			r.Issuer = strings.TrimSuffix(r.Issuer, "/")
		} else {
			r.Issuer += "/"
		}
	case "id-absent":
		r.ID = A
	case "id-empty":
		r.ID = ""
	case "version-absent":
		r.Version = A
	case "version-empty":
		r.Version = ""
	case "dest-other-host":
		r.Destination = strings.Replace(adv, "://", "://evil-", 1)
	case "dest-other-path":
		r.Destination = adv + "x"
	case "dest-trailing-slash":
		r.Destination = adv + "/"
	case "dest-path-case":
		i := strings.LastIndex(adv, "/")
		r.Destination = adv[:i] + swapCase(adv[i:])
		if r.Destination == adv {
			r.Destination = adv + "X"
		}
	case "dest-scheme":
		if strings.HasPrefix(adv, "https://") {
			r.Destination = "http://" + strings.TrimPrefix(adv, "https://")
		} else {
			r.Destination = "https://" + strings.TrimPrefix(adv, "http://")
		}
	case "dest-endpoint":
		// another endpoint of this very IdP: advertised, but not as single-sign-on location
		r.Destination = c.Spec.IdP.Advertised(d.Param, host)
		if r.Destination == adv {
			r.Destination = adv + "/x"
		}
	case "dest-prefix":
		r.Destination = adv[:len(adv)-1]
	case "dest-query", "dest-fragment":
		r.Destination = adv + d.Param
	case "dest-userinfo":
		r.Destination = strings.Replace(adv, "://", "://"+d.Param, 1)
	case "dest-dot-segment":
		i := strings.LastIndex(adv, "/")
		r.Destination = adv[:i] + "/x/.." + adv[i:]
	case "dest-double-slash":
		i := strings.LastIndex(adv, "/")
		r.Destination = adv[:i] + "/" + adv[i:]
	case "dest-host-dot":
		// the same host written as a fully qualified name (trailing dot): another string, hence not the advertised location
		sch, rest, _ := strings.Cut(adv, "://")
		h, p, _ := strings.Cut(rest, "/")
		if hh, port, ok := strings.Cut(h, ":"); ok && !strings.Contains(hh, "]") && !strings.HasPrefix(h, "[") {
			h = hh + ".:" + port
		} else if !strings.HasPrefix(h, "[") {
			h += "."
		}
		r.Destination = sch + "://" + h + "/" + p
		if r.Destination == adv {
			r.Destination = adv + "?" // an IP literal has no trailing-dot form: another near miss instead
		}
	case "dest-of-other-tenant":
		// the location this IdP advertises under another request host: valid there, not here
		r.Destination = c.Spec.IdP.Advertised("sso", d.Param)
	case "nb-future":
		conds().NotBefore = "@now+" + d.Param
	case "noa-past":
		conds().NotOnOrAfter = "@now-" + d.Param
	case "nb-future-form":
		conds().NotBefore = "@now+" + d.Param
	case "noa-past-form":
		conds().NotOnOrAfter = "@now-" + d.Param
	case "nb-abs":
		conds().NotBefore = d.Param
	case "noa-abs":
		conds().NotOnOrAfter = d.Param
	case "misnamespaced-child":
		conds().NotOnOrAfter = "@now-3600"
	case "nb-garbage":
		conds().NotBefore = "@now-60/0/" + d.Param
	case "noa-garbage":
		conds().NotOnOrAfter = "@now+600/0/" + d.Param
	}
}

func swapCase(s string) string {
	b := []byte(s)
	for i, c := range b {
		switch {
		case c >= 'a' && c <= 'z':
			b[i] = c - 32
		case c >= 'A' && c <= 'Z':
			b[i] = c + 32
		}
	}
	return string(b)
}

func genC08Case(t *rapid.T) SSOCase {
	spec := genSSOWorld(t, worldOpts{bindings: []string{world.BindPost, world.BindRedirect, world.BindPost, world.BindRedirect, world.BindArtifact, world.BindPAOS, world.BindOther, " " + world.BindPost, world.BindRedirect + "\n", "\t" + world.BindPost + " "}, minACS: 0, maxACS: 4, signingFlags: true, issuerModes: []string{"static", "host"}, customSSO: true, oddLocations: true})
	c := SSOCase{Spec: spec, Host: rapid.SampledFrom(reqHosts).Draw(t, "host")}
	if rapid.IntRange(0, 9).Draw(t, "nohost") == 0 {
		c.Host = obs.NoHost // an HTTP/1.0 request without Host header: whatever the issuer then is, the request has one outcome
	}
	c.SP = rapid.IntRange(0, len(spec.SPs)-1).Draw(t, "sp")
	c.Req = genValidAuthn(t, spec, c.SP, c.Host)
	if c.Host == obs.NoHost {
		c.Req.Destination = A
	}
	maybePassive(t, &c.Req)
	c.Req.ProtocolBinding = rapid.SampledFrom([]string{A, A, world.BindPost, world.BindRedirect, world.BindArtifact, world.BindPAOS, world.BindOther, "urn:example:unlisted"}).Draw(t, "protocolbinding")
	c.Style = genXMLStyle(t)
	binding := rapid.SampledFrom([]string{"post", "redirect"}).Draw(t, "transport")
	c.Tr = genTransport(t, binding)
	// sign when required (mostly), sometimes also when not required
	need := signingRequired(spec, c.SP)
	if (need && rapid.IntRange(0, 9).Draw(t, "skipsign") != 0) || (!need && rapid.IntRange(0, 4).Draw(t, "extrasign") == 0) {
		c.Sign, c.RSign = signFor(t, spec, c.SP, binding)
	}
	if rapid.IntRange(0, 2).Draw(t, "withdefect") == 0 {
		d := pick(t, "defect", c08DefectCatalogue)
		if d.Name == "bad-deflate" {
			// defined for the redirect transport
			if binding != "redirect" {
				binding = "redirect"
				c.Tr.Binding = binding
				if c.Sign.Alg != "" {
					c.Sign, c.RSign = signFor(t, spec, c.SP, binding)
				}
			}
		}
		c.Defects = []Defect{d}
		applyModelDefect(&c, d, c.Host)
	}
	if rapid.IntRange(0, 7).Draw(t, "bigrelay") == 0 {
		c.Tr.RelayState = bigString(rapid.SampledFrom([]int{1500, 2100, 9000}).Draw(t, "relaylen"), "rs-")
	}
	c.PersistFault = rapid.IntRange(0, 5).Draw(t, "persistfault") == 0
	if c.PersistFault {
		c.FaultKind = rapid.SampledFrom([]string{"", "timeout", "canceled", "canceled"}).Draw(t, "persistfaultkind")
	}
	if rapid.IntRange(0, 9).Draw(t, "lookupfault") == 0 {
		c.LookupFault = rapid.SampledFrom([]string{"error", "timeout", "canceled", "canceled", "notfound"}).Draw(t, "lookupfaultkind")
	}
	spec.RequestIDPrefix = rapid.SampledFrom([]string{"", "", "org1/req+", "q83vEjRWeJCrze8SNFZ4kA==", "id with blank&x=", "ünï#"}).Draw(t, "idprefix")
	c.Spec = spec
	c.GoneAtPersist = !c.PersistFault && rapid.IntRange(0, 5).Draw(t, "goneatpersist") == 0
	c.Noise = rapid.IntRange(0, 2).Draw(t, "noise") == 0
	if rapid.IntRange(0, 3).Draw(t, "history") == 0 {
		c.Hist = genHistory(t, spec, c.SP, func(e *world.SPSpec) {
			// earlier: other consumer services
			e.ACS = []world.ACSSpec{acs(world.BindPost, "https://earlier.example/acs/post", "0", A), acs(world.BindRedirect, "https://earlier.example/acs/redirect", "1", A)}
		}, true)
	}
	if c.Hist == nil && rapid.IntRange(0, 2).Draw(t, "brokenbefore") == 0 {
		// earlier replies (pages for the POST binding among them) broke while they were written
		c.Hist = &History{SP: c.SP, Warmups: []string{"sso-refused", "logout", "sso-refused"}, BrokenAfter: rapid.SampledFrom([]int{1, 64, 300, 700, 1500}).Draw(t, "brokenafter"), WarmupByOther: rapid.Bool().Draw(t, "broken-other")}
		if len(c.Defects) == 0 && rapid.Bool().Draw(t, "broken-then-refused") {
			// what follows a broken page is most telling when it is a page itself: the request under test is refused
			d := Defect{Name: "dest-other-host"}
			for _, x := range c08DefectCatalogue {
				if strings.HasPrefix(x.Name, "dest-") {
					d = x
					break
				}
			}
			c.Defects = []Defect{d}
			applyModelDefect(&c, d, c.Host)
		}
	}
	if c.Hist == nil && rapid.IntRange(0, 4).Draw(t, "sameid") == 0 && c.Req.ID != A && c.Req.ID != "" {
		// the same request ID was used shortly before, by this provider or by another one
		c.Hist = &History{SP: c.SP, Warmups: []string{"sso"}, ReuseID: c.Req.ID, WarmupByOther: rapid.Bool().Draw(t, "sameid-other")}
	}
	return c
}

func c08Oracle(c SSOCase, r *ssoRun) []*ev.Violation {
	var vs []*ev.Violation
	okCalls, failedCalls := createCalls(r.W)
	n := len(okCalls)
	if r.Rep.Panic != "" {
		return []*ev.Violation{ev.V("C08/panic", "handler panicked: %s", short(r.Rep.Panic, 120))}
	}
	if c.Noise && noiseLeak(r.Rep) {
		vs = append(vs, ev.V("C08/foreign-state-in-reply", "the reply carries data of an unrelated service provider / user that used the provider earlier"))
	}
	if len(okCalls)+len(failedCalls) > 1 {
		vs = append(vs, ev.V("C08/persist-attempted-more-than-once", "CreateAuthRequest called %d times for one request", len(okCalls)+len(failedCalls)))
	}
	body := string(r.Rep.Body)
	if loc := r.Rep.Header.Get("Location"); loc != "" && (r.Rep.Status < 300 || r.Rep.Status >= 400) {
		vs = append(vs, ev.V("C08/several-messages", "status %d reply with a body of %d bytes also carries a Location header (%s): two deliveries in one reply", r.Rep.Status, len(body), short(loc, 80)))
	}
	carriesSAML := strings.Contains(body, "SAMLResponse") || strings.Contains(body, "Response") && strings.Contains(body, "urn:oasis:names:tc:SAML:2.0:protocol")
	switch {
	case n > 1:
		vs = append(vs, ev.V("C08/persisted-more-than-once", "request persisted %d times", n))
	case n == 1:
		call := okCalls[0]
		id := call.Args[len(call.Args)-1]
		binding := call.Args[1]
		if binding != world.BindPost && binding != world.BindRedirect {
			vs = append(vs, ev.V("C08/unanswerable-request-persisted", "request persisted with binding %q, which the IdP cannot answer (reply status %d, %d body bytes)", binding, r.Rep.Status, len(r.Rep.Body)))
		}
		// what the documented selection (C16) lands on for the registration in force decides whether the request can be answered
		if r.Sent != nil && r.Sent.IssuerSP >= 0 {
			if cur, ok := r.W.Store.SPSpecByEntity(c.Spec.SPs[r.Sent.IssuerSP].EntityID); ok {
				sel := refSelect(cur, r.Sent.ProtocolBinding)
				usable := len(sel) == 0
				for _, e := range sel {
					if e.Binding == world.BindPost || e.Binding == world.BindRedirect {
						usable = true
					}
				}
				if !usable {
					vs = append(vs, ev.V("C08/unanswerable-request-persisted", "request persisted with (%q, %q) although the consumer service the registration selects is %v, which the IdP cannot answer", call.Args[0], binding, sel))
				}
			}
		}
		sp, _ := r.W.Store.SPSpecByEntity(r.W.Spec.SPs[c.SP].EntityID)
		want := sp.LoginURL(id)
		if r.Rep.Status != 303 {
			vs = append(vs, ev.V("C08/persisted-without-login-redirect", "request persisted but status is %d (%s)", r.Rep.Status, r.Dec.Kind))
		} else if got := r.Rep.Header.Get("Location"); !sameURL(got, want) { // net/http percent-encodes non-ASCII bytes of the header
			vs = append(vs, ev.V("C08/login-redirect-wrong-id", "Location %q, want %q", got, want))
		}
		if carriesSAML {
			vs = append(vs, ev.V("C08/persisted-and-saml-message", "request persisted and the reply also carries a SAML message"))
		}
	default:
		switch r.Dec.Kind {
		case obs.KindLoginRedirect:
			vs = append(vs, ev.V("C08/login-redirect-without-persist", "303 to %q but nothing was persisted", r.Rep.Header.Get("Location")))
		case obs.KindHTTPError:
			if carriesSAML {
				vs = append(vs, ev.V("C08/http-error-with-saml-message", "HTTP %d together with a SAML message", r.Rep.Status))
			}
		case obs.KindEmpty:
			vs = append(vs, ev.V("C08/empty-reply", "status %d with an empty body", r.Rep.Status))
		case obs.KindPostForm, obs.KindRedirectSAML, obs.KindXML:
			if v := c08SingleFailedResponse(r); v != nil {
				vs = append(vs, v)
			}
		default:
			vs = append(vs, ev.V("C08/unrecognised-reply", "status %d, kind %s: %s", r.Rep.Status, r.Dec.Kind, short(body, 120)))
		}
	}
	return vs
}

// c08SingleFailedResponse checks that a reply is exactly one non-Success Response.
func c08SingleFailedResponse(r *ssoRun) *ev.Violation {
	d := r.Dec
	switch d.Kind {
	case obs.KindPostForm:
		n := 0
		for _, f := range d.Forms {
			if _, ok := f.Field("SAMLResponse"); ok {
				n++
			}
		}
		if n != 1 || len(d.Forms) != 1 {
			return ev.V("C08/several-messages", "%d forms, %d with a SAMLResponse field", len(d.Forms), n)
		}
		if n := strings.Count(strings.ToLower(string(r.Rep.Body)), "<html"); n > 1 {
			return ev.V("C08/several-messages", "%d html documents in one body", n)
		}
	case obs.KindRedirectSAML:
		if len(d.RawParam("SAMLResponse")) != 1 {
			return ev.V("C08/several-messages", "SAMLResponse parameter given %d times", len(d.RawParam("SAMLResponse")))
		}
	}
	if d.Doc == nil {
		if strings.Contains(d.XMLErr, "content after the root element") || strings.Count(string(d.XML), "<?xml") > 1 {
			return ev.V("C08/several-messages", "reply is not one XML document: %s", d.XMLErr)
		}
		return ev.V("C08/reply-not-well-formed", "SAML message does not parse: %s (notes %v)", d.XMLErr, d.Notes)
	}
	resp := obs.ReadResponse(obs.FindResponse(d.Root()))
	if resp == nil {
		return ev.V("C08/reply-not-a-response", "document element {%s}%s", d.Root().Space, d.Root().Local)
	}
	if resp.Status == "" {
		return ev.V("C08/response-without-status", "Response has no status code")
	}
	if resp.Success() {
		return ev.V("C08/success-from-sso", "the SSO endpoint answered with status Success")
	}
	return nil
}

func c08Classify(c SSOCase, r *ssoRun) (nontrivial bool, fp string, classes []string) {
	sel := refSelect(c.Spec.SPs[c.SP], r.Sent.ProtocolBinding)
	selBinding := "none"
	if len(sel) > 0 {
		selBinding = sel[0].Binding
	}
	after := false
	for _, d := range c.Defects {
		if strings.HasPrefix(d.Name, "dest-") || strings.HasPrefix(d.Name, "nb-") || strings.HasPrefix(d.Name, "noa-") || strings.HasPrefix(d.Name, "id-") || strings.HasPrefix(d.Name, "version-") {
			after = true
		}
	}
	unanswerable := selBinding != world.BindPost && selBinding != world.BindRedirect
	nontrivial = unanswerable || c.PersistFault || after
	okCalls, _ := createCalls(r.W)
	outcome := fmt.Sprintf("persisted=%d/%s", len(okCalls), r.Dec.Kind)
	classes = []string{"outcome/" + outcome, "selected/" + shortBinding(selBinding)}
	for _, d := range c.Defects {
		classes = append(classes, "defect/"+d.Name)
	}
	if len(c.Defects) == 0 {
		classes = append(classes, "defect/none")
	}
	if c.PersistFault {
		classes = append(classes, "persist-fault")
	}
	fp = ev.Fingerprint(c.defectNames(), selBinding, c.PersistFault, r.Dec.Kind, c.Tr.Binding, c.Sign.Alg != "" || c.RSign != nil, signingRequired(c.Spec, c.SP))
	return
}

func shortBinding(b string) string {
	if i := strings.LastIndex(b, ":"); i >= 0 {
		return b[i+1:]
	}
	return b
}

func ssoSample(c SSOCase, r *ssoRun) any {
	return map[string]any{
		"sp_acs": c.Spec.SPs[c.SP].ACS, "defects": c.Defects, "persist_fault": c.PersistFault, "transport": c.Tr.Binding,
		"request_xml": short(string(r.Sent.XML), 400), "reply_status": r.Rep.Status, "reply_kind": r.Dec.Kind, "violated": r.Sent.Violated,
	}
}

func TestC08(t *testing.T) {
	col := ev.For("C08", "exploration", c08Rule)
	col.Assume("the harness's model storage returns a fresh id per successful CreateAuthRequest and fails only when a fault is injected")
	searchRapid(t, col, genC08Case, func(c SSOCase) []*ev.Violation {
		r, err := runSSO(c)
		if err != nil {
			panic("harness: " + err.Error())
		}
		nt, fp, classes := c08Classify(c, r)
		col.Case(nt, fp, classes, func() any { return ssoSample(c, r) })
		return c08Oracle(c, r)
	})
}

// TestC08SlowPersist: a request that is valid when it arrives and for a few seconds more, and a storage that takes longer than
// that to persist it. Whatever the IdP decides, it decides once: persisted and sent on to the login, or refused and not persisted.
func TestC08SlowPersist(t *testing.T) {
	col := ev.For("C08", "exploration", c08Rule)
	runPlain(t, col, "TestC08", func(fail func(*ev.Violation, any)) {
		var wg sync.WaitGroup
		var mu sync.Mutex
		k := 0
		for _, binding := range []string{"post", "redirect"} {
			for _, cond := range []string{"notonorafter+4s", "window-1h+4s", "none"} {
				k++
				wg.Add(1)
				go func(k int, binding, cond string) {
					defer wg.Done()
					spec := stdSpec()
					c := SSOCase{Spec: spec, Host: defHost, SP: 0, Req: spsim.NewAuthnReq(fmt.Sprintf("_slowpersist-%d", k), spec.SPs[0].EntityID), Style: plainStyle,
						Tr: spsim.Transport{Binding: binding, Plus: true, Encoding: A, RelayState: "rs"}, PersistDelayMs: 5500}
					switch cond {
					case "notonorafter+4s":
						c.Req.Conditions = &spsim.Conditions{NotBefore: A, NotOnOrAfter: spsim.Rel(4, 3, "")}
					case "window-1h+4s":
						c.Req.Conditions = &spsim.Conditions{NotBefore: spsim.Rel(-3600, 0, ""), NotOnOrAfter: spsim.Rel(4, 0, "")}
					}
					r, err := runSSO(c)
					if err != nil {
						panic("harness: " + err.Error())
					}
					vs := c08Oracle(c, r)
					mu.Lock()
					defer mu.Unlock()
					okCalls, _ := createCalls(r.W)
					col.Case(cond != "none", ev.Fingerprint("slow-persist", binding, cond), []string{"slow-persist", fmt.Sprintf("slow-persist/persisted=%d/status=%d", len(okCalls), r.Rep.Status)}, func() any {
						return map[string]any{"binding": binding, "conditions": cond, "persist_delay_ms": 5500, "persisted": len(okCalls), "status": r.Rep.Status}
					})
					for _, v := range vs {
						fail(v, c)
					}
				}(k, binding, cond)
			}
		}
		wg.Wait()
	})
}

// TestC08AfterRefusals: "rejected requests leave no trace". On one provider a service provider that must sign sends the same
// kind of refused request a dozen times (every defect of the catalogue, and signatures that do not verify, in both bindings);
// then it sends a valid, correctly signed request. That request has its one outcome - persisted and sent on to the login - as
// if nothing had come before; a request that is never answered (every goroutine inside the provider parked, nothing left that
// could release them) has no outcome at all.
func TestC08AfterRefusals(t *testing.T) {
	col := ev.For("C08", "exploration", c08Rule)
	runPlain(t, col, "TestC08", func(fail func(*ev.Violation, any)) {
		kinds := append([]Defect{{Name: "bad-signature"}, {Name: "unsigned"}}, c08DefectCatalogue...)
		n := 0
		for _, d := range kinds {
			for _, binding := range []string{"post", "redirect"} {
				if d.Name == "bad-deflate" && binding != "redirect" {
					continue
				}
				spec := stdSpec()
				spec.SPs[1].AuthnRequestsSigned = "true"
				w := mustBuild(spec)
				mk := func(id string, defect *Defect, key string) obs.HTTPReq {
					c := SSOCase{Spec: spec, Host: defHost, SP: 1, Style: plainStyle, Tr: spsim.Transport{Binding: binding, Plus: true, Encoding: A, RelayState: "rs"}}
					c.Req = spsim.NewAuthnReq(id, spec.SPs[1].EntityID)
					c.Req.IssueInstant = spsim.Rel(-5, 0, "")
					c.Req.Destination = spec.IdP.Advertised("sso", defHost)
					c.Req.Conditions = &spsim.Conditions{NotBefore: spsim.Rel(-60, 0, ""), NotOnOrAfter: spsim.Rel(300, 0, "")}
					if key != "" {
						if binding == "redirect" {
							c.RSign = &spsim.Signing{Alg: world.AlgRSASHA256, KeyName: key}
						} else {
							c.Sign = spsim.Signing{Alg: world.AlgRSASHA256, KeyName: key, KeyInfo: true, CertLayout: "plain", DSPrefix: "ds"}
						}
					}
					if defect != nil {
						c.Defects = []Defect{*defect}
						applyModelDefect(&c, *defect, defHost)
					}
					hr, _, err := ssoRender(c, time.Now())
					if err != nil {
						panic("harness: " + err.Error())
					}
					hr.Host = defHost
					return hr
				}
				own := spec.SPs[1].KeyNames[0]
				for i := 0; i < 12; i++ {
					var hr obs.HTTPReq
					switch d.Name {
					case "bad-signature":
						hr = mk(fmt.Sprintf("_refused-%d", i), nil, "rogue")
					case "unsigned":
						hr = mk(fmt.Sprintf("_refused-%d", i), nil, "")
					default:
						dd := d
						hr = mk(fmt.Sprintf("_refused-%d", i), &dd, own)
					}
					if _, hang := doTerminating(w, hr); hang != "" {
						key, what, _ := strings.Cut(hang, "\x00")
						fail(ev.V("C08/"+key, "refused request %d of 12 (%s, %s): %s", i+1, d.Name, binding, what), map[string]any{"refused_kind": d, "binding": binding})
						return
					}
				}
				refused, _ := createCalls(w)
				w.Store.ResetLog()
				rep, hang := doTerminating(w, mk("_valid-after-refusals", nil, own))
				n++
				c := map[string]any{"refused_kind": d, "binding": binding, "refusals": 12}
				okCalls, _ := createCalls(w)
				switch {
				case hang != "":
					key, what, _ := strings.Cut(hang, "\x00")
					fail(ev.V("C08/"+key, "after 12 %s requests (%s) were refused: %s", d.Name, binding, what), c)
				case rep.Panic != "":
					fail(ev.V("C08/panic", "after 12 refused %s requests: handler panicked: %s", d.Name, short(rep.Panic, 100)), c)
				case len(okCalls) != 1 || rep.Status != 303:
					fail(ev.V("C08/refusals-left-a-trace", "after 12 %s requests (%s binding; %d of them persisted) the provider's valid, signed request was not accepted: status %d, %d persisted: %s", d.Name, binding, len(refused), rep.Status, len(okCalls), short(string(rep.Body), 160)), c)
				}
				col.Case(true, ev.Fingerprint("after-refusals", d.Name, d.Param, binding), []string{"after-refusals", "after-refusals/" + binding}, func() any { return c })
			}
		}
		col.SetExtra("after_refusals_sequences", n)
	})
}
