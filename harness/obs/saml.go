package obs

import (
	"strings"

	"verif/harness/xt"
)

const (
	nsSAML  = "urn:oasis:names:tc:SAML:2.0:assertion"
	nsSAMLP = "urn:oasis:names:tc:SAML:2.0:protocol"
	nsDS    = "http://www.w3.org/2000/09/xmldsig#"
	nsSOAP  = "http://schemas.xmlsoap.org/soap/envelope/"
	nsMD    = "urn:oasis:names:tc:SAML:2.0:metadata"
)

type AttrInfo struct {
	Name, NameFormat, FriendlyName string
	Values                         []string
}

type AssertionInfo struct {
	Node             *xt.Node
	ID, Issuer       string
	IssueInstant     string
	HasSubject       bool
	NameID           string
	NameIDFormat     string
	HasNameID        bool
	SubjInResponseTo string
	Recipient        string
	SubjNotOnOrAfter string
	NotBefore        string
	NotOnOrAfter     string
	Audiences        []string
	Attrs            []AttrInfo
	AttrValueCount   int
	Signature        *xt.Node
	SessionIndex     string
	AuthnInstant     string
	HasAuthnStmt     bool
}

// ResponseInfo is the harness's reading of a samlp:Response or samlp:LogoutResponse.
type ResponseInfo struct {
	Node          *xt.Node
	Kind          string // Response | LogoutResponse
	ID            string
	InResponseTo  string
	HasInResponse bool
	Destination   string
	HasDest       bool
	IssueInstant  string
	Version       string
	Issuer        string
	IssuerFormat  string
	Status        string
	StatusMessage string
	Assertions    []*AssertionInfo
	Signature     *xt.Node
}

// Success reports whether the top-level status code is Success.
func (r *ResponseInfo) Success() bool {
	return r != nil && r.Status == "urn:oasis:names:tc:SAML:2.0:status:Success"
}

// FindResponse locates the protocol response in a document: the root itself, or inside a SOAP envelope.
func FindResponse(root *xt.Node) *xt.Node {
	if root == nil {
		return nil
	}
	if root.Space == nsSAMLP && (root.Local == "Response" || root.Local == "LogoutResponse") {
		return root
	}
	if root.Space == nsSOAP && root.Local == "Envelope" {
		if b := root.Child(nsSOAP, "Body"); b != nil {
			if r := b.Child(nsSAMLP, "Response"); r != nil {
				return r
			}
		}
	}
	return nil
}

func ReadResponse(n *xt.Node) *ResponseInfo {
	if n == nil {
		return nil
	}
	r := &ResponseInfo{Node: n, Kind: n.Local}
	r.ID = n.AttrV("ID")
	r.InResponseTo, r.HasInResponse = n.Attr("InResponseTo")
	r.Destination, r.HasDest = n.Attr("Destination")
	r.IssueInstant = n.AttrV("IssueInstant")
	r.Version = n.AttrV("Version")
	if is := n.Child(nsSAML, "Issuer"); is != nil {
		r.Issuer = is.Text()
		r.IssuerFormat = is.AttrV("Format")
	}
	if st := n.Child(nsSAMLP, "Status"); st != nil {
		if sc := st.Child(nsSAMLP, "StatusCode"); sc != nil {
			r.Status = sc.AttrV("Value")
		}
		if sm := st.Child(nsSAMLP, "StatusMessage"); sm != nil {
			r.StatusMessage = sm.Text()
		}
	}
	r.Signature = n.Child(nsDS, "Signature")
	for _, a := range n.ChildrenNamed(nsSAML, "Assertion") {
		r.Assertions = append(r.Assertions, ReadAssertion(a))
	}
	return r
}

func ReadAssertion(a *xt.Node) *AssertionInfo {
	ai := &AssertionInfo{Node: a, ID: a.AttrV("ID"), IssueInstant: a.AttrV("IssueInstant")}
	if is := a.Child(nsSAML, "Issuer"); is != nil {
		ai.Issuer = is.Text()
	}
	ai.Signature = a.Child(nsDS, "Signature")
	if s := a.Child(nsSAML, "Subject"); s != nil {
		ai.HasSubject = true
		if nid := s.Child(nsSAML, "NameID"); nid != nil {
			ai.HasNameID = true
			ai.NameID = nid.Text()
			ai.NameIDFormat = nid.AttrV("Format")
		}
		if sc := s.Child(nsSAML, "SubjectConfirmation"); sc != nil {
			if scd := sc.Child(nsSAML, "SubjectConfirmationData"); scd != nil {
				ai.SubjInResponseTo = scd.AttrV("InResponseTo")
				ai.Recipient = scd.AttrV("Recipient")
				ai.SubjNotOnOrAfter = scd.AttrV("NotOnOrAfter")
			}
		}
	}
	if c := a.Child(nsSAML, "Conditions"); c != nil {
		ai.NotBefore = c.AttrV("NotBefore")
		ai.NotOnOrAfter = c.AttrV("NotOnOrAfter")
		for _, ar := range c.ChildrenNamed(nsSAML, "AudienceRestriction") {
			for _, au := range ar.Elems() {
				ai.Audiences = append(ai.Audiences, au.Text())
			}
		}
	}
	for _, as := range a.ChildrenNamed(nsSAML, "AttributeStatement") {
		for _, at := range as.ChildrenNamed(nsSAML, "Attribute") {
			info := AttrInfo{Name: at.AttrV("Name"), NameFormat: at.AttrV("NameFormat"), FriendlyName: at.AttrV("FriendlyName")}
			for _, v := range at.Elems() {
				info.Values = append(info.Values, v.Text())
				ai.AttrValueCount++
			}
			ai.Attrs = append(ai.Attrs, info)
		}
	}
	if st := a.Child(nsSAML, "AuthnStatement"); st != nil {
		ai.HasAuthnStmt = true
		ai.SessionIndex = st.AttrV("SessionIndex")
		ai.AuthnInstant = st.AttrV("AuthnInstant")
	}
	return ai
}

// CarriesUserData reports whether an assertion has any subject identifier, attribute value or signature
// content (failed Responses carry an empty <Assertion/> shell, which is not user data).
func (a *AssertionInfo) CarriesUserData() (bool, string) {
	switch {
	case a.HasNameID && a.NameID != "":
		return true, "non-empty NameID"
	case a.AttrValueCount > 0:
		return true, "attribute value"
	case a.Signature != nil:
		return true, "signature"
	}
	var found string
	a.Node.Walk(func(n *xt.Node) {
		if n.Local == "SignatureValue" && strings.TrimSpace(n.Text()) != "" {
			found = "SignatureValue"
		}
	})
	return found != "", found
}
