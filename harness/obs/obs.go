// Package obs drives the real HTTP handler and decodes what it emits with decoders that are
// independent of zitadel/saml: an HTML5 tokenizer for auto-submit pages, own base64/inflate
// handling for the bindings and the strict XML reader of package xt.
package obs

import (
	"bytes"
	"compress/flate"
	"context"
	"crypto/tls"
	"encoding/base64"
	"errors"
	"fmt"
	"io"
	"net/http"
	"net/http/httptest"
	"net/url"
	"runtime/debug"
	"strings"
	"time"

	"golang.org/x/net/html"

	"verif/harness/xt"
)

// HTTPReq is a JSON-serialisable HTTP request.
type HTTPReq struct {
	Method      string      `json:"method"`
	Path        string      `json:"path"`
	RawQuery    string      `json:"raw_query,omitempty"`
	Host        string      `json:"host,omitempty"`
	Headers     [][2]string `json:"headers,omitempty"`
	ContentType string      `json:"content_type,omitempty"`
	Body        string      `json:"body,omitempty"`
	// Chunked: the body is sent with Transfer-Encoding: chunked, i.e. without announced length (ContentLength -1).
	Chunked bool `json:"chunked,omitempty"`
	// FailWriteAfter > 0: the connection to the user agent breaks after that many body bytes: the Write that crosses the
	// limit writes the part that fits and returns an error, later writes fail at once.
	FailWriteAfter int `json:"fail_write_after,omitempty"`
	// BodyDelayMs > 0: the body arrives late: the first Read of the body blocks that long (a slow upload).
	BodyDelayMs int `json:"body_delay_ms,omitempty"`
	// BodyFailAfter > 0: the upload breaks off: reading the body fails (not EOF) after that many bytes
	BodyFailAfter int `json:"body_fail_after,omitempty"`
	// TLS: the request arrived over TLS (http.Request.TLS is set)
	TLS bool `json:"tls,omitempty"`
}

type failingReader struct{}

func (failingReader) Read([]byte) (int, error) {
	return 0, errors.New("read tcp 192.0.2.1:1234: connection reset by peer")
}

type delayedBody struct {
	r     io.Reader
	delay time.Duration
	once  bool
}

func (d *delayedBody) Read(p []byte) (int, error) {
	if !d.once {
		d.once = true
		time.Sleep(d.delay)
	}
	return d.r.Read(p)
}
func (d *delayedBody) Close() error { return nil }

// Opt are the knobs of one call that are not part of the serialisable request.
type Opt struct {
	Ctx context.Context
	// BeforeWrite, when set, runs before every body Write of the handler (the harness's scheduler parks the request there).
	BeforeWrite func(sofar int, p []byte)
}

// writer is the ResponseWriter handed to the handler: a recorder, plus the broken-connection and scheduling behaviour.
type writer struct {
	rec       *httptest.ResponseRecorder
	failAfter int
	written   int
	before    func(sofar int, p []byte)
}

var errBrokenPipe = errors.New("write tcp 192.0.2.1:1234: write: broken pipe")

func (w *writer) Header() http.Header { return w.rec.Header() }
func (w *writer) WriteHeader(c int)   { w.rec.WriteHeader(c) }
func (w *writer) Write(p []byte) (int, error) {
	if w.before != nil {
		w.before(w.written, p)
	}
	if w.failAfter > 0 {
		room := w.failAfter - w.written
		if room <= 0 {
			return 0, errBrokenPipe
		}
		if len(p) > room {
			w.rec.Write(p[:room])
			w.written += room
			return room, errBrokenPipe
		}
	}
	n, err := w.rec.Write(p)
	w.written += n
	return n, err
}

type Reply struct {
	Status int
	Header http.Header
	Body   []byte
	Panic  string
	Stack  string
}

// Do runs one request through the handler, recovering panics.
// NoHost as HTTPReq.Host: the request carries no Host header at all (legal in HTTP/1.0); r.Host is then empty.
const NoHost = "\x00no-host-header"

func Do(h http.Handler, r HTTPReq) (rep Reply) { return DoOpt(h, r, Opt{}) }

func DoOpt(h http.Handler, r HTTPReq, o Opt) (rep Reply) {
	method := r.Method
	if method == "" {
		method = "GET"
	}
	host := r.Host
	if host == "" {
		host = "idp.example"
	}
	req := &http.Request{
		Method: method,
		URL:    &url.URL{Path: r.Path, RawQuery: r.RawQuery},
		Proto:  "HTTP/1.1", ProtoMajor: 1, ProtoMinor: 1,
		Header:     http.Header{},
		Host:       host,
		RequestURI: r.Path,
		RemoteAddr: "192.0.2.1:1234",
	}
	if r.Host == NoHost {
		req.Host, req.Proto, req.ProtoMajor, req.ProtoMinor = "", "HTTP/1.0", 1, 0
	}
	if r.RawQuery != "" {
		req.RequestURI += "?" + r.RawQuery
	}
	req.Body = io.NopCloser(strings.NewReader(r.Body))
	req.ContentLength = int64(len(r.Body))
	if r.BodyFailAfter > 0 {
		n := r.BodyFailAfter
		if n > len(r.Body) {
			n = len(r.Body)
		}
		req.Body = io.NopCloser(io.MultiReader(strings.NewReader(r.Body[:n]), failingReader{}))
	}
	if r.TLS {
		req.TLS = &tls.ConnectionState{HandshakeComplete: true, Version: tls.VersionTLS13}
	}
	if r.BodyDelayMs > 0 {
		req.Body = &delayedBody{r: strings.NewReader(r.Body), delay: time.Duration(r.BodyDelayMs) * time.Millisecond}
	}
	if r.Chunked {
		req.ContentLength = -1
		req.TransferEncoding = []string{"chunked"}
	}
	if o.Ctx != nil {
		req = req.WithContext(o.Ctx)
	}
	if r.ContentType != "" {
		req.Header.Set("Content-Type", r.ContentType)
	}
	for _, h := range r.Headers {
		req.Header.Add(h[0], h[1])
	}
	rec := httptest.NewRecorder()
	var rw http.ResponseWriter = rec
	if r.FailWriteAfter > 0 || o.BeforeWrite != nil {
		rw = &writer{rec: rec, failAfter: r.FailWriteAfter, before: o.BeforeWrite}
	}
	func() {
		defer func() {
			if p := recover(); p != nil {
				rep.Panic = fmt.Sprint(p)
				rep.Stack = string(debug.Stack())
			}
		}()
		h.ServeHTTP(rw, req)
	}()
	rep.Status = rec.Code
	rep.Header = rec.Header()
	rep.Body = rec.Body.Bytes()
	return rep
}

// PanicSite extracts the first zitadel/saml frame of a recovered panic.
func (r Reply) PanicSite() string {
	return PanicSite(r.Stack)
}

func PanicSite(stack string) string {
	lines := strings.Split(stack, "\n")
	seenPanic := false
	for i, l := range lines {
		if strings.HasPrefix(l, "panic(") {
			seenPanic = true
			continue
		}
		if seenPanic && strings.Contains(l, "github.com/zitadel/saml/") && i+1 < len(lines) {
			fn := strings.TrimSpace(l)
			if j := strings.LastIndex(fn, "("); j > 0 {
				fn = fn[:j]
			}
			fn = strings.TrimPrefix(fn, "github.com/zitadel/saml/pkg/provider")
			return fn
		}
	}
	return "unknown"
}

// Form is an HTML form recovered by the tokenizer.
type Form struct {
	Action string
	Method string
	Inputs []Input
}

type Input struct {
	Type, Name, Value string
	HasValue          bool
}

func (f Form) Field(name string) (string, bool) {
	for _, i := range f.Inputs {
		if i.Name == name {
			return i.Value, true
		}
	}
	return "", false
}

// ParseForms tokenises an HTML body.
func ParseForms(body []byte) []Form {
	var forms []Form
	z := html.NewTokenizer(bytes.NewReader(body))
	cur := -1
	for {
		tt := z.Next()
		if tt == html.ErrorToken {
			return forms
		}
		if tt != html.StartTagToken && tt != html.SelfClosingTagToken && tt != html.EndTagToken {
			continue
		}
		tok := z.Token()
		switch {
		case tt == html.EndTagToken && tok.Data == "form":
			cur = -1
		case tt != html.EndTagToken && tok.Data == "form":
			f := Form{}
			for _, a := range tok.Attr {
				switch a.Key {
				case "action":
					f.Action = a.Val
				case "method":
					f.Method = a.Val
				}
			}
			forms = append(forms, f)
			cur = len(forms) - 1
		case tt != html.EndTagToken && tok.Data == "input" && cur >= 0:
			in := Input{}
			for _, a := range tok.Attr {
				switch a.Key {
				case "type":
					in.Type = a.Val
				case "name":
					in.Name = a.Val
				case "value":
					in.Value, in.HasValue = a.Val, true
				}
			}
			forms[cur].Inputs = append(forms[cur].Inputs, in)
		}
	}
}

// Kinds of replies.
const (
	KindPostForm      = "post-form"      // HTML auto-submit page carrying a SAML message
	KindRedirectSAML  = "redirect-saml"  // 302 with SAMLResponse in the query
	KindLoginRedirect = "login-redirect" // 303 to the login UI
	KindXML           = "xml"            // an XML document in the body
	KindHTTPError     = "http-error"     // status >= 400 with a text body
	KindJSON          = "json"
	KindPEM           = "pem"
	KindEmpty         = "empty"
	KindOther         = "other"
)

// Decoded is the independent reading of a reply.
type Decoded struct {
	Kind          string
	Target        string // form action, or Location up to the SAML parameters
	Location      string // raw Location header
	RawQuery      string // raw query of Location
	RelayState    string
	HasRelayState bool
	SAMLB64       string  // the SAMLResponse field/parameter as sent
	XML           []byte  // the SAML message / XML document bytes
	Doc           *xt.Doc // nil when XML does not parse strictly
	XMLErr        string
	Forms         []Form
	Notes         []string
}

func (d *Decoded) note(format string, args ...any) {
	d.Notes = append(d.Notes, fmt.Sprintf(format, args...))
}

// Root returns the document element (nil if none).
func (d *Decoded) Root() *xt.Node {
	if d.Doc == nil {
		return nil
	}
	return d.Doc.Root
}

// rawQueryGet returns the raw (still percent-encoded) values of a parameter.
func rawQueryGet(raw, name string) []string {
	var out []string
	for _, part := range strings.Split(raw, "&") {
		k, v, _ := strings.Cut(part, "=")
		if k == name {
			out = append(out, v)
		}
	}
	return out
}

// RawParam returns the raw values of a query parameter of the Location header.
func (d *Decoded) RawParam(name string) []string { return rawQueryGet(d.RawQuery, name) }

func inflate(b []byte) ([]byte, error) {
	r := flate.NewReader(bytes.NewReader(b))
	defer r.Close()
	return io.ReadAll(io.LimitReader(r, 64<<20))
}

// Decode classifies a reply.
func Decode(rep Reply) *Decoded {
	d := &Decoded{}
	body := rep.Body
	loc := rep.Header.Get("Location")
	d.Location = loc
	isRedirect := rep.Status >= 300 && rep.Status < 400 && loc != ""
	switch {
	case isRedirect && !strings.Contains(loc, "SAMLResponse="):
		// a redirect that carries no SAML message: the hand-over to the login UI
		d.Kind = KindLoginRedirect
		d.Target = loc
		return d
	case isRedirect:
		base, q, _ := strings.Cut(loc, "?")
		// the ACS URL may itself carry a query: the SAML parameters start at SAMLResponse=
		if i := strings.Index(loc, "SAMLResponse="); i > 0 {
			base = strings.TrimRight(loc[:i], "?&")
			q = loc[i:]
		}
		d.Target = base
		d.RawQuery = q
		vals := rawQueryGet(q, "SAMLResponse")
		if len(vals) == 0 {
			d.Kind = KindOther
			d.note("302 without SAMLResponse")
			return d
		}
		if len(vals) > 1 {
			d.note("SAMLResponse given %d times", len(vals))
		}
		d.Kind = KindRedirectSAML
		if rs := rawQueryGet(q, "RelayState"); len(rs) > 0 {
			v, err := url.QueryUnescape(rs[0])
			if err != nil {
				d.note("RelayState not percent-decodable: %v", err)
			}
			d.RelayState, d.HasRelayState = v, true
		}
		v, err := url.QueryUnescape(vals[0])
		if err != nil {
			d.note("SAMLResponse not percent-decodable: %v", err)
			return d
		}
		d.SAMLB64 = v
		raw, err := base64.StdEncoding.DecodeString(v)
		if err != nil {
			d.note("SAMLResponse not base64: %v", err)
			return d
		}
		x, err := inflate(raw)
		if err != nil {
			d.note("SAMLResponse not DEFLATE: %v", err)
			return d
		}
		d.setXML(x)
		return d
	}
	trim := bytes.TrimSpace(body)
	head := bytes.ToLower(trim[:min(len(trim), 400)])
	looksHTML := bytes.Contains(head, []byte("<!doctype html")) || bytes.Contains(head, []byte("<html")) || bytes.Contains(bytes.ToLower(trim), []byte("<form"))
	switch {
	case len(trim) == 0:
		d.Kind = KindEmpty
		if rep.Status >= 400 {
			d.Kind = KindHTTPError
		}
	case rep.Status >= 400:
		d.Kind = KindHTTPError
	case !looksHTML && bytes.HasPrefix(trim, []byte("<")):
		d.Kind = KindXML
		d.setXML(body)
	case looksHTML:
		d.Forms = ParseForms(body)
		d.Kind = KindOther
		for _, f := range d.Forms {
			if v, ok := f.Field("SAMLResponse"); ok {
				d.Kind = KindPostForm
				d.Target = f.Action
				d.SAMLB64 = v
				d.RelayState, d.HasRelayState = f.Field("RelayState")
				raw, err := base64.StdEncoding.DecodeString(v)
				if err != nil {
					d.note("SAMLResponse field not base64: %v", err)
				} else {
					d.setXML(raw)
				}
				break
			}
		}
	case bytes.HasPrefix(trim, []byte("{")):
		d.Kind = KindJSON
	case bytes.HasPrefix(trim, []byte("-----BEGIN")):
		d.Kind = KindPEM
	default:
		d.Kind = KindOther
	}
	return d
}

func (d *Decoded) setXML(x []byte) {
	d.XML = x
	doc, err := xt.Parse(x)
	if err != nil {
		d.XMLErr = err.Error()
		return
	}
	d.Doc = doc
}

func min(a, b int) int {
	if a < b {
		return a
	}
	return b
}
