package spsim

import (
	"fmt"
	"strconv"
	"strings"
	"time"
)

// Timestamps in request models may be written relative to the moment a case is executed, so a
// saved case stays meaningful when it is replayed later:
//
//	@now<+|-><seconds>[/<fractional digits>[/<form>]]
//
// forms: Z (default) | offset (+00:00) | offset2 (+02:00, same instant) | nozone | dateonly |
// comma (fraction after a comma) | lowerz | space (blank instead of T) | month13 | now (the word) | fractext, fraczz, fracjunk (six or more fractional digits followed by something that is no zone)
func RenderTime(s string, now time.Time) string {
	if !strings.HasPrefix(s, "@now") {
		return s
	}
	parts := strings.Split(s[4:], "/")
	sec, _ := strconv.ParseFloat(parts[0], 64)
	frac := 0
	form := "Z"
	if len(parts) > 1 {
		frac, _ = strconv.Atoi(parts[1])
	}
	if len(parts) > 2 {
		form = parts[2]
	}
	t := now.Add(time.Duration(sec * float64(time.Second))).UTC()
	base := t.Format("2006-01-02T15:04:05")
	fr := ""
	if frac > 0 {
		fr = "." + fmt.Sprintf("%09d", t.Nanosecond())[:frac]
	}
	switch form {
	case "offset":
		return base + fr + "+00:00"
	case "offset2":
		return t.Add(2*time.Hour).Format("2006-01-02T15:04:05") + fr + "+02:00"
	case "offsetneg":
		return t.Add(-5*time.Hour).Format("2006-01-02T15:04:05") + fr + "-05:00"
	case "nozone":
		return base + fr
	case "dateonly":
		return t.Format("2006-01-02")
	case "comma":
		return base + "," + fmt.Sprintf("%09d", t.Nanosecond())[:3] + "Z"
	case "lowerz":
		return base + fr + "z"
	case "space":
		return strings.Replace(base, "T", " ", 1) + fr + "Z"
	case "month13":
		return t.Format("2006") + "-13-" + t.Format("02T15:04:05") + "Z"
	case "now":
		return "now"
	case "fractext":
		// six fractional digits, then words: what a reader that cuts a long fraction short must still look at
		return base + ".000000 or so"
	case "fraczz":
		return base + ".000000ZZ"
	case "fracjunk":
		return base + ".123456789abcZ"
	}
	return base + fr + "Z"
}

// Rel builds a relative timestamp expression.
func Rel(seconds int, frac int, form string) string {
	s := fmt.Sprintf("@now%+d", seconds)
	if frac != 0 || form != "" {
		s += "/" + strconv.Itoa(frac)
	}
	if form != "" {
		s += "/" + form
	}
	return s
}

// Rendered returns a copy of the request with relative timestamps made concrete.
func (r AuthnReq) Rendered(now time.Time) AuthnReq {
	r.IssueInstant = RenderTime(r.IssueInstant, now)
	if r.Conditions != nil {
		c := *r.Conditions
		c.NotBefore = RenderTime(c.NotBefore, now)
		c.NotOnOrAfter = RenderTime(c.NotOnOrAfter, now)
		r.Conditions = &c
	}
	return r
}

func (r LogoutReq) Rendered(now time.Time) LogoutReq {
	r.IssueInstant = RenderTime(r.IssueInstant, now)
	r.NotOnOrAfter = RenderTime(r.NotOnOrAfter, now)
	return r
}

func (q AttrQuery) Rendered(now time.Time) AttrQuery {
	q.IssueInstant = RenderTime(q.IssueInstant, now)
	return q
}
