package xt

import "fmt"

// Structural edits used by the crash and mutation checks: every element and every attribute
// of a tree is a site; a site can be deleted, duplicated or emptied.

type Edit struct {
	Site int    `json:"site"` // index into Sites(root)
	Op   string `json:"op"`   // del | dup | empty
}

type Site struct {
	Elem *Node
	Attr int // -1: the element itself; otherwise index into Elem.Attrs
}

func (s Site) String() string {
	p := ""
	for e := s.Elem; e != nil; e = e.Parent {
		p = "/" + e.Local + p
	}
	if s.Attr >= 0 && s.Attr < len(s.Elem.Attrs) {
		return p + "@" + s.Elem.Attrs[s.Attr].Local
	}
	return p
}

// Sites lists the edit sites of a tree in document order (element, then its attributes, then children).
func Sites(root *Node) []Site {
	var out []Site
	root.Walk(func(e *Node) {
		out = append(out, Site{e, -1})
		for i := range e.Attrs {
			out = append(out, Site{e, i})
		}
	})
	return out
}

var EditOps = []string{"del", "dup", "empty", "evil", "evilurl", "pem1", "neg", "intmin"}

// EvilURL is an absolute URL that net/url refuses to parse (IPv6 zone without escaping, stray percent sign).
const EvilURL = "https://[fe80::1%eth0]:8443/saml/100%/acs"

// EvilPEM is certificate text with PEM armour and no line break anywhere.
const EvilPEM = "-----BEGIN CERTIFICATE-----MIIBszCCAVmgAwIBAgIUQ0FSRQ==-----END CERTIFICATE-----"

func evilFor(op string) string {
	switch op {
	case "evilurl":
		return EvilURL
	case "pem1":
		return EvilPEM
	case "neg":
		return "-1" // where a number is expected: a negative one
	case "intmin":
		return "-9223372036854775808" // the smallest 64-bit integer (negating it overflows)
	}
	return EvilValue
}

// EvilValue is what the "evil" edit puts into an attribute value or an element's text.
const EvilValue = "a'b[c]\"d%s%n{{.}}//*[@x='y']\\e"

// ApplyEdits clones root and applies the edits (sites refer to the original tree's numbering).
// It returns nil when an edit would remove the document element.
func ApplyEdits(root *Node, edits []Edit) (*Node, []string) {
	c := root.Clone()
	sites := Sites(c)
	var desc []string
	// resolve all sites before touching the tree; attribute edits are applied by name
	type target struct {
		elem *Node
		attr string
		isAt bool
		op   string
	}
	var ts []target
	for _, e := range edits {
		if e.Site < 0 || e.Site >= len(sites) {
			continue
		}
		s := sites[e.Site]
		t := target{elem: s.Elem, op: e.Op}
		if s.Attr >= 0 {
			t.isAt, t.attr = true, s.Elem.Attrs[s.Attr].Local
		}
		desc = append(desc, fmt.Sprintf("%s:%s", e.Op, s.String()))
		ts = append(ts, t)
	}
	for _, t := range ts {
		switch {
		case t.isAt:
			idx := -1
			for i, a := range t.elem.Attrs {
				if a.Local == t.attr {
					idx = i
					break
				}
			}
			if idx < 0 {
				continue
			}
			switch t.op {
			case "del":
				t.elem.Attrs = append(t.elem.Attrs[:idx:idx], t.elem.Attrs[idx+1:]...)
			case "dup":
				t.elem.Attrs = append(t.elem.Attrs, t.elem.Attrs[idx])
			case "empty":
				t.elem.Attrs[idx].Value = ""
			case "evil", "evilurl", "pem1", "neg", "intmin":
				t.elem.Attrs[idx].Value = evilFor(t.op)
			}
		default:
			p := t.elem.Parent
			switch t.op {
			case "del":
				if p == nil {
					return nil, desc
				}
				p.RemoveChild(t.elem)
			case "dup":
				if p == nil {
					continue
				}
				for i, ch := range p.Children {
					if ch.Kind == KindElem && ch.Elem == t.elem {
						p.InsertAt(i+1, t.elem.Clone())
						break
					}
				}
			case "empty":
				t.elem.Children = nil
			case "evil", "evilurl", "pem1", "neg", "intmin":
				// only leaf elements get hostile text; structure stays
				leaf := true
				for _, ch := range t.elem.Children {
					if ch.Kind == KindElem {
						leaf = false
					}
				}
				if leaf {
					t.elem.Children = []*Child{{Kind: KindText, Text: evilFor(t.op)}}
				}
			}
		}
	}
	return c, desc
}
