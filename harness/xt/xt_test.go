package xt

import (
	"bytes"
	"encoding/xml"
	"io"
	"strings"
	"testing"

	"github.com/beevik/etree"
	dsig "github.com/russellhaering/goxmldsig"
	"pgregory.net/rapid"
)

func TestRoundTrip(t *testing.T) {
	rapid.Check(t, func(t *rapid.T) {
		tree := GenTree(t)
		st := GenStyle(t)
		b := Write(tree, st)
		doc, err := Parse(b)
		if err != nil {
			t.Fatalf("own writer produced a document the own reader rejects: %v\n%s", err, b)
		}
		if err := Equal(tree, doc.Root); err != nil {
			t.Fatalf("round trip: %v\n%s", err, b)
		}
	})
}

// the canonical form must be a fixed point: parse(c14n(x)) canonicalises to the same bytes
func TestC14NFixedPoint(t *testing.T) {
	rapid.Check(t, func(t *rapid.T) {
		tree := GenTree(t)
		excl := rapid.Bool().Draw(t, "exclusive")
		c1 := Canonicalize(tree, C14NOpts{Exclusive: excl})
		doc, err := Parse(c1)
		if err != nil {
			t.Fatalf("canonical form does not parse: %v\n%s", err, c1)
		}
		c2 := Canonicalize(doc.Root, C14NOpts{Exclusive: excl})
		if !bytes.Equal(c1, c2) {
			t.Fatalf("not a fixed point:\n%s\n%s", c1, c2)
		}
		// and it is independent of the serialisation style
		doc2, err := Parse(Write(tree, GenStyle(t)))
		if err != nil {
			t.Fatal(err)
		}
		c3 := Canonicalize(doc2.Root, C14NOpts{Exclusive: excl})
		if !bytes.Equal(c1, c3) {
			t.Fatalf("style dependent:\n%s\n%s", c1, c3)
		}
	})
}

// agreement with goxmldsig's exclusive canonicaliser on generated documents
func TestC14NAgainstGoxmldsig(t *testing.T) {
	canon := dsig.MakeC14N10ExclusiveCanonicalizerWithPrefixList("")
	n, skipped := 0, 0
	rapid.Check(t, func(t *rapid.T) {
		tree := GenTree(t)
		// goxmldsig documents that its attribute sort is incomplete for attributes with different
		// prefixes (it cannot resolve prefixes declared on ancestors): compare only where it is complete
		multi := false
		tree.Walk(func(e *Node) {
			seen := map[string]bool{}
			for _, a := range e.Attrs {
				if a.Prefix != "" {
					seen[a.Prefix] = true
				}
			}
			if len(seen) > 1 {
				multi = true
			}
		})
		if multi {
			skipped++
			return
		}
		b := Write(tree, GenStyle(t))
		ed := etree.NewDocument()
		if err := ed.ReadFromBytes(b); err != nil || ed.Root() == nil {
			skipped++
			return
		}
		want, err := canon.Canonicalize(ed.Root())
		if err != nil {
			skipped++
			return
		}
		doc, err := Parse(b)
		if err != nil {
			t.Fatal(err)
		}
		got := Canonicalize(doc.Root, C14NOpts{Exclusive: true})
		n++
		if !bytes.Equal(got, want) {
			t.Fatalf("c14n differs\n doc: %s\n own: %s\n goxmldsig: %s", b, got, want)
		}
	})
	t.Logf("compared %d, skipped %d", n, skipped)
}

// the strict reader accepts everything encoding/xml's encoder emits for legal data and agrees on values
func TestReaderAgainstEncodingXML(t *testing.T) {
	rapid.Check(t, func(t *rapid.T) {
		tree := GenTree(t)
		b := Write(tree, GenStyle(t))
		d := xml.NewDecoder(bytes.NewReader(b))
		var texts []string
		var elems int
		for {
			tok, err := d.Token()
			if err == io.EOF {
				break
			}
			if err != nil {
				t.Fatalf("encoding/xml rejects own output: %v\n%s", err, b)
			}
			switch x := tok.(type) {
			case xml.StartElement:
				elems++
				for _, a := range x.Attr {
					if a.Name.Space != "xmlns" && a.Name.Local != "xmlns" {
						texts = append(texts, "@"+a.Value)
					}
				}
			}
		}
		doc, err := Parse(b)
		if err != nil {
			t.Fatal(err)
		}
		var own []string
		cnt := 0
		doc.Root.Walk(func(e *Node) {
			cnt++
			for _, a := range e.Attrs {
				own = append(own, "@"+a.Value)
			}
		})
		if cnt != elems || strings.Join(own, "\x00") != strings.Join(texts, "\x00") {
			t.Fatalf("disagreement with encoding/xml on %s:\n own %q\n std %q", b, own, texts)
		}
	})
}

func TestIllFormedRejected(t *testing.T) {
	bad := []string{
		``, `<a>`, `<a></b>`, `<a><b></a></b>`, `<a/><b/>`, `<a/>x`, `x<a/>`, `<a b="1" b="2"/>`, `<a b=1/>`, `<a b="<"/>`,
		`<a>&foo;</a>`, `<a>&#0;</a>`, `<a>&#xD800;</a>`, `<a>]]></a>`, `<a><!-- -- --></a>`, `<p:a/>`, `<a p:b="1"/>`,
		`<a xmlns:p="u" xmlns:q="u" p:x="1" q:x="2"/>`, `<a><?xml version="1.0"?></a>`, `<?xml version="1.0"?><?xml version="1.0"?><a/>`,
		` <?xml version="1.0"?><a/>`, "<a>\x00</a>", "<a>\xff</a>", `<a b="1"c="2"/>`, `<a><![CDATA[x</a>`, `<1a/>`, `<a:b:c xmlns:a="u"/>`,
		`<a xmlns:p=""/>`, `<a/><!-- x --><b/>`, `<a>&#xFFFE;</a>`, `<a b='1"/>`, `<!DOCTYPE a><!DOCTYPE a><a/>`, `<a><!DOCTYPE a></a>`,
		`<a xmlns:xmlns="u"/>`, `<a xmlns:xml="urn:other"/>`, `<?xml encoding="UTF-8"?><a/>`, `<?xml version="1.0" encoding="latin1"?><a/>`,
	}
	for _, s := range bad {
		if _, err := Parse([]byte(s)); err == nil {
			t.Errorf("accepted ill-formed %q", s)
		}
	}
	good := []string{
		`<a/>`, `<?xml version="1.0"?><a/>`, "<a>\r\n</a>", `<a b="x&#10;y"/>`, `<!-- c --><a/><!-- d -->`, `<!DOCTYPE a [ <!ELEMENT a ANY> ]><a/>`,
		`<a xmlns="u"><b xmlns=""/></a>`, `<a><![CDATA[<&]]></a>`, `<a b = '1'  c="2" />`, "\uFEFF<a/>", `<a>&#x10FFFF;</a>`, `<a xml:lang="en"/>`,
	}
	for _, s := range good {
		if _, err := Parse([]byte(s)); err != nil {
			t.Errorf("rejected well-formed %q: %v", s, err)
		}
	}
	// normalisation
	d, _ := Parse([]byte("<a b=\"x\ty\nz&#9;&#10;\">l1\r\nl2\rl3&#13;</a>"))
	if v := d.Root.AttrV("b"); v != "x y z\t\n" {
		t.Errorf("attribute normalisation: %q", v)
	}
	if v := d.Root.Text(); v != "l1\nl2\nl3\r" {
		t.Errorf("line ends: %q", v)
	}
}
