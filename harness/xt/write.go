package xt

import (
	"fmt"
	"strings"
)

// Style controls serialisation choices that do not change the infoset.
type Style struct {
	Decl        string // "" none, "std" <?xml version="1.0" encoding="UTF-8"?>, "bare" <?xml version="1.0"?>
	SingleQuote bool   // attribute values in single quotes
	SpaceInTag  bool   // extra blank before '>' and around '='
	SelfClose   bool   // write empty elements as <a/>
	AttrNewline bool   // newline between attributes
	CharRefText bool   // write non-ASCII text as character references
	// Misc: what XML allows around the document element - "" nothing, "nl" / "crlf" / "blank-lines" white space after it,
	// "comment" / "pi" a comment / processing instruction after it, "lead-comment" a comment (and a line break) before it
	Misc string
}

var miscAfter = map[string]string{"nl": "\n", "crlf": "\r\n", "blank-lines": "\n\n  \n", "comment": "\n<!-- end of message -->", "pi": "<?serializer done?>\n"}

func wrText(s string, st Style, b *strings.Builder) {
	for _, r := range s {
		switch r {
		case '&':
			b.WriteString("&amp;")
		case '<':
			b.WriteString("&lt;")
		case '>':
			b.WriteString("&gt;")
		case '\r':
			b.WriteString("&#13;")
		default:
			if st.CharRefText && r > 0x7E {
				fmt.Fprintf(b, "&#x%X;", r)
			} else {
				b.WriteRune(r)
			}
		}
	}
}

func wrAttr(s string, quote byte, st Style, b *strings.Builder) {
	for _, r := range s {
		switch {
		case r == '&':
			b.WriteString("&amp;")
		case r == '<':
			b.WriteString("&lt;")
		case r == '>':
			b.WriteString("&gt;") // not required, but encoding/xml rejects a raw "]]>" even inside attribute values
		case r == '"' && quote == '"':
			b.WriteString("&quot;")
		case r == '\'' && quote == '\'':
			b.WriteString("&apos;")
		case r == '\t':
			b.WriteString("&#9;")
		case r == '\n':
			b.WriteString("&#10;")
		case r == '\r':
			b.WriteString("&#13;")
		case st.CharRefText && r > 0x7E:
			fmt.Fprintf(b, "&#x%X;", r)
		default:
			b.WriteRune(r)
		}
	}
}

// Write serialises a tree. Namespace declarations are written exactly as recorded in Node.NS.
func Write(n *Node, st Style) []byte {
	var b strings.Builder
	switch st.Decl {
	case "std":
		b.WriteString(`<?xml version="1.0" encoding="UTF-8"?>` + "\n")
	case "bare":
		b.WriteString(`<?xml version="1.0"?>`)
	}
	if st.Misc == "lead-comment" {
		b.WriteString("<!-- generated -->\n")
	}
	writeElem(n, st, &b)
	b.WriteString(miscAfter[st.Misc])
	return []byte(b.String())
}

func writeElem(n *Node, st Style, b *strings.Builder) {
	q := n.Local
	if n.Prefix != "" {
		q = n.Prefix + ":" + n.Local
	}
	quote := byte('"')
	if st.SingleQuote {
		quote = '\''
	}
	sep := " "
	if st.AttrNewline {
		sep = "\n  "
	}
	eq := "="
	if st.SpaceInTag {
		eq = " = "
	}
	b.WriteByte('<')
	b.WriteString(q)
	for _, d := range n.NS {
		b.WriteString(sep)
		if d.Prefix == "" {
			b.WriteString("xmlns")
		} else {
			b.WriteString("xmlns:" + d.Prefix)
		}
		b.WriteString(eq)
		b.WriteByte(quote)
		wrAttr(d.URI, quote, st, b)
		b.WriteByte(quote)
	}
	for _, a := range n.Attrs {
		b.WriteString(sep)
		if a.Prefix != "" {
			b.WriteString(a.Prefix + ":")
		}
		b.WriteString(a.Local)
		b.WriteString(eq)
		b.WriteByte(quote)
		wrAttr(a.Value, quote, st, b)
		b.WriteByte(quote)
	}
	if len(n.Children) == 0 && st.SelfClose {
		if st.SpaceInTag {
			b.WriteByte(' ')
		}
		b.WriteString("/>")
		return
	}
	if st.SpaceInTag {
		b.WriteByte(' ')
	}
	b.WriteByte('>')
	for _, c := range n.Children {
		switch c.Kind {
		case KindText:
			switch {
			case c.Style == "cdata" && !strings.Contains(c.Text, "]]>") && !strings.Contains(c.Text, "\r"):
				b.WriteString("<![CDATA[" + c.Text + "]]>")
			default:
				wrText(c.Text, st, b)
			}
		case KindElem:
			writeElem(c.Elem, st, b)
		case KindComment:
			b.WriteString("<!--" + c.Text + "-->")
		case KindPI:
			b.WriteString("<?" + c.PI + " " + c.Text + "?>")
		}
	}
	b.WriteString("</" + q)
	if st.SpaceInTag {
		b.WriteByte(' ')
	}
	b.WriteByte('>')
}
