// Package xt is the harness's own XML toolkit: a strict, namespace-aware XML 1.0 reader
// (no DTD support: a DOCTYPE is recorded and skipped), a tree model, a writer with style
// knobs, and exclusive canonicalisation. It shares no code with encoding/xml, etree, xmlsig or
// goxmldsig, which are the libraries zitadel/saml itself relies on.
package xt

import (
	"fmt"
	"strings"
	"unicode/utf8"
)

const (
	XMLNS    = "http://www.w3.org/2000/xmlns/"
	XMLSpace = "http://www.w3.org/XML/1998/namespace"
)

type NSDecl struct {
	Prefix string // "" = default namespace
	URI    string
}

type Attr struct {
	Prefix string
	Space  string // resolved namespace URI ("" for unprefixed attributes)
	Local  string
	Value  string // after attribute-value normalisation
}

const (
	KindElem = iota
	KindText
	KindComment
	KindPI
)

type Child struct {
	Kind int
	Elem *Node
	Text string // text, comment text, or PI data
	PI   string // PI target
	// Writer hint: how to write a text node ("" escaped, "cdata", "charref")
	Style string
}

type Node struct {
	Prefix   string
	Space    string // resolved namespace URI
	Local    string
	NS       []NSDecl
	Attrs    []Attr
	Children []*Child
	Parent   *Node
}

type Doc struct {
	Root       *Node
	HasDecl    bool
	Encoding   string
	HasDoctype bool
	Comments   int // comments and PIs outside the root
}

type SyntaxError struct {
	Offset int
	Msg    string
}

func (e *SyntaxError) Error() string { return fmt.Sprintf("xml: offset %d: %s", e.Offset, e.Msg) }

type parser struct {
	s   string
	pos int
}

func (p *parser) errf(format string, args ...any) error {
	return &SyntaxError{Offset: p.pos, Msg: fmt.Sprintf(format, args...)}
}

// IsChar reports whether r matches the XML 1.0 Char production.
func IsChar(r rune) bool {
	return r == 0x9 || r == 0xA || r == 0xD ||
		(r >= 0x20 && r <= 0xD7FF) ||
		(r >= 0xE000 && r <= 0xFFFD) ||
		(r >= 0x10000 && r <= 0x10FFFF)
}

func isNameStart(r rune) bool {
	return r == ':' || r == '_' || (r >= 'A' && r <= 'Z') || (r >= 'a' && r <= 'z') ||
		(r >= 0xC0 && r <= 0xD6) || (r >= 0xD8 && r <= 0xF6) || (r >= 0xF8 && r <= 0x2FF) ||
		(r >= 0x370 && r <= 0x37D) || (r >= 0x37F && r <= 0x1FFF) || (r >= 0x200C && r <= 0x200D) ||
		(r >= 0x2070 && r <= 0x218F) || (r >= 0x2C00 && r <= 0x2FEF) || (r >= 0x3001 && r <= 0xD7FF) ||
		(r >= 0xF900 && r <= 0xFDCF) || (r >= 0xFDF0 && r <= 0xFFFD) || (r >= 0x10000 && r <= 0xEFFFF)
}

func isNameChar(r rune) bool {
	return isNameStart(r) || r == '-' || r == '.' || (r >= '0' && r <= '9') || r == 0xB7 ||
		(r >= 0x0300 && r <= 0x036F) || (r >= 0x203F && r <= 0x2040)
}

// IsNCName reports whether s is a legal xs:NCName (and so a legal xs:ID).
func IsNCName(s string) bool {
	if s == "" {
		return false
	}
	for i, r := range s {
		if r == ':' || r == utf8.RuneError {
			return false
		}
		if i == 0 {
			if !isNameStart(r) {
				return false
			}
		} else if !isNameChar(r) {
			return false
		}
	}
	return true
}

func isSpace(b byte) bool { return b == ' ' || b == '\t' || b == '\n' || b == '\r' }

// Parse reads one XML document strictly.
func Parse(data []byte) (*Doc, error) {
	if !utf8.Valid(data) {
		return nil, &SyntaxError{0, "input is not valid UTF-8"}
	}
	s := string(data)
	s = strings.TrimPrefix(s, "\uFEFF")
	for i, r := range s {
		if !IsChar(r) {
			return nil, &SyntaxError{i, fmt.Sprintf("illegal character U+%04X", r)}
		}
	}
	// the XML declaration must be seen before line-end normalisation does not matter: do it first
	s = strings.ReplaceAll(s, "\r\n", "\n")
	s = strings.ReplaceAll(s, "\r", "\n")
	p := &parser{s: s}
	doc := &Doc{}
	if strings.HasPrefix(p.s, "<?xml") && len(p.s) > 5 && isSpace(p.s[5]) {
		if err := p.xmlDecl(doc); err != nil {
			return nil, err
		}
	}
	if err := p.misc(doc, true); err != nil {
		return nil, err
	}
	if p.pos >= len(p.s) || p.s[p.pos] != '<' {
		return nil, p.errf("no root element")
	}
	scope := map[string]string{"xml": XMLSpace}
	root, err := p.element(nil, scope, 0)
	if err != nil {
		return nil, err
	}
	doc.Root = root
	if err := p.misc(doc, false); err != nil {
		return nil, err
	}
	if p.pos != len(p.s) {
		return nil, p.errf("content after the root element")
	}
	return doc, nil
}

func (p *parser) skipSpace() bool {
	start := p.pos
	for p.pos < len(p.s) && isSpace(p.s[p.pos]) {
		p.pos++
	}
	return p.pos > start
}

func (p *parser) xmlDecl(doc *Doc) error {
	end := strings.Index(p.s, "?>")
	if end < 0 {
		return p.errf("unterminated XML declaration")
	}
	body := p.s[5:end]
	doc.HasDecl = true
	// version is mandatory; encoding / standalone optional, in this order
	q := &parser{s: body}
	names := []string{}
	for {
		sp := q.skipSpace()
		if q.pos >= len(q.s) {
			break
		}
		if !sp {
			return p.errf("malformed XML declaration")
		}
		name, err := q.name()
		if err != nil {
			return p.errf("malformed XML declaration")
		}
		q.skipSpace()
		if q.pos >= len(q.s) || q.s[q.pos] != '=' {
			return p.errf("malformed XML declaration")
		}
		q.pos++
		q.skipSpace()
		if q.pos >= len(q.s) || (q.s[q.pos] != '"' && q.s[q.pos] != '\'') {
			return p.errf("malformed XML declaration")
		}
		quote := q.s[q.pos]
		q.pos++
		e := strings.IndexByte(q.s[q.pos:], quote)
		if e < 0 {
			return p.errf("malformed XML declaration")
		}
		val := q.s[q.pos : q.pos+e]
		q.pos += e + 1
		names = append(names, name)
		switch name {
		case "version":
			if val != "1.0" && val != "1.1" {
				return p.errf("unsupported XML version %q", val)
			}
		case "encoding":
			doc.Encoding = val
			if !strings.EqualFold(val, "utf-8") && !strings.EqualFold(val, "us-ascii") {
				return p.errf("unsupported encoding %q", val)
			}
		case "standalone":
			if val != "yes" && val != "no" {
				return p.errf("bad standalone value")
			}
		default:
			return p.errf("unknown pseudo-attribute %q in XML declaration", name)
		}
	}
	if len(names) == 0 || names[0] != "version" {
		return p.errf("XML declaration without version")
	}
	order := map[string]int{"version": 0, "encoding": 1, "standalone": 2}
	for i := 1; i < len(names); i++ {
		if order[names[i]] <= order[names[i-1]] {
			return p.errf("XML declaration pseudo-attributes out of order")
		}
	}
	p.pos = end + 2
	return nil
}

// misc consumes whitespace, comments, PIs and (before the root) one DOCTYPE.
func (p *parser) misc(doc *Doc, allowDoctype bool) error {
	for {
		p.skipSpace()
		switch {
		case strings.HasPrefix(p.s[p.pos:], "<!--"):
			if _, err := p.comment(); err != nil {
				return err
			}
			doc.Comments++
		case strings.HasPrefix(p.s[p.pos:], "<?"):
			if _, _, err := p.pi(); err != nil {
				return err
			}
			doc.Comments++
		case strings.HasPrefix(p.s[p.pos:], "<!DOCTYPE"):
			if !allowDoctype || doc.HasDoctype {
				return p.errf("misplaced DOCTYPE")
			}
			doc.HasDoctype = true
			if err := p.doctype(); err != nil {
				return err
			}
		default:
			return nil
		}
	}
}

func (p *parser) doctype() error {
	depth := 0
	for i := p.pos; i < len(p.s); i++ {
		switch p.s[i] {
		case '[':
			depth++
		case ']':
			depth--
		case '"', '\'':
			e := strings.IndexByte(p.s[i+1:], p.s[i])
			if e < 0 {
				return p.errf("unterminated literal in DOCTYPE")
			}
			i += e + 1
		case '>':
			if depth <= 0 {
				p.pos = i + 1
				return nil
			}
		}
	}
	return p.errf("unterminated DOCTYPE")
}

func (p *parser) comment() (string, error) {
	start := p.pos + 4
	end := strings.Index(p.s[start:], "--")
	if end < 0 {
		return "", p.errf("unterminated comment")
	}
	if !strings.HasPrefix(p.s[start+end:], "-->") {
		return "", p.errf("'--' inside comment")
	}
	p.pos = start + end + 3
	return p.s[start : start+end], nil
}

func (p *parser) pi() (string, string, error) {
	p.pos += 2
	target, err := p.name()
	if err != nil {
		return "", "", err
	}
	if strings.EqualFold(target, "xml") {
		return "", "", p.errf("reserved PI target %q", target)
	}
	if strings.Contains(target, ":") {
		return "", "", p.errf("colon in PI target")
	}
	end := strings.Index(p.s[p.pos:], "?>")
	if end < 0 {
		return "", "", p.errf("unterminated processing instruction")
	}
	data := p.s[p.pos : p.pos+end]
	if data != "" && !isSpace(data[0]) {
		return "", "", p.errf("missing space after PI target")
	}
	p.pos += end + 2
	return target, strings.TrimLeft(data, " \t\n"), nil
}

func (p *parser) name() (string, error) {
	start := p.pos
	for p.pos < len(p.s) {
		r, w := utf8.DecodeRuneInString(p.s[p.pos:])
		if p.pos == start {
			if !isNameStart(r) {
				break
			}
		} else if !isNameChar(r) {
			break
		}
		p.pos += w
	}
	if p.pos == start {
		return "", p.errf("expected a name")
	}
	return p.s[start:p.pos], nil
}

func splitQName(q string) (prefix, local string, ok bool) {
	i := strings.IndexByte(q, ':')
	if i < 0 {
		return "", q, true
	}
	prefix, local = q[:i], q[i+1:]
	if prefix == "" || local == "" || strings.Contains(local, ":") {
		return "", "", false
	}
	if r, _ := utf8.DecodeRuneInString(local); !isNameStart(r) {
		return "", "", false
	}
	return prefix, local, true
}

// reference parses &...; at p.pos and returns the replacement text.
func (p *parser) reference() (string, error) {
	end := strings.IndexByte(p.s[p.pos:], ';')
	if end < 0 || end > 12 {
		return "", p.errf("unterminated reference")
	}
	body := p.s[p.pos+1 : p.pos+end]
	p.pos += end + 1
	switch body {
	case "amp":
		return "&", nil
	case "lt":
		return "<", nil
	case "gt":
		return ">", nil
	case "quot":
		return "\"", nil
	case "apos":
		return "'", nil
	}
	if strings.HasPrefix(body, "#x") {
		var n rune
		if len(body) == 2 {
			return "", p.errf("empty character reference")
		}
		for _, c := range body[2:] {
			switch {
			case c >= '0' && c <= '9':
				n = n*16 + c - '0'
			case c >= 'a' && c <= 'f':
				n = n*16 + c - 'a' + 10
			case c >= 'A' && c <= 'F':
				n = n*16 + c - 'A' + 10
			default:
				return "", p.errf("bad character reference &%s;", body)
			}
			if n > 0x10FFFF {
				return "", p.errf("character reference out of range")
			}
		}
		if !IsChar(n) {
			return "", p.errf("character reference to illegal character U+%04X", n)
		}
		return string(n), nil
	}
	if strings.HasPrefix(body, "#") {
		var n rune
		if len(body) == 1 {
			return "", p.errf("empty character reference")
		}
		for _, c := range body[1:] {
			if c < '0' || c > '9' {
				return "", p.errf("bad character reference &%s;", body)
			}
			n = n*10 + c - '0'
			if n > 0x10FFFF {
				return "", p.errf("character reference out of range")
			}
		}
		if !IsChar(n) {
			return "", p.errf("character reference to illegal character U+%04X", n)
		}
		return string(n), nil
	}
	return "", p.errf("undeclared entity &%s;", body)
}

func (p *parser) attValue() (string, error) {
	if p.pos >= len(p.s) || (p.s[p.pos] != '"' && p.s[p.pos] != '\'') {
		return "", p.errf("attribute value must be quoted")
	}
	quote := p.s[p.pos]
	p.pos++
	var b strings.Builder
	for {
		if p.pos >= len(p.s) {
			return "", p.errf("unterminated attribute value")
		}
		c := p.s[p.pos]
		switch {
		case c == quote:
			p.pos++
			return b.String(), nil
		case c == '<':
			return "", p.errf("'<' in attribute value")
		case c == '&':
			r, err := p.reference()
			if err != nil {
				return "", err
			}
			b.WriteString(r)
		case c == '\t' || c == '\n' || c == '\r':
			b.WriteByte(' ') // attribute-value normalisation (XML 1.0 §3.3.3)
			p.pos++
		default:
			b.WriteByte(c)
			p.pos++
		}
	}
}

const maxDepth = 2000

func (p *parser) element(parent *Node, scope map[string]string, depth int) (*Node, error) {
	if depth > maxDepth {
		return nil, p.errf("element nesting too deep")
	}
	p.pos++ // '<'
	qname, err := p.name()
	if err != nil {
		return nil, err
	}
	type rawAttr struct{ name, value string }
	var raws []rawAttr
	selfClose := false
	for {
		sp := p.skipSpace()
		if p.pos >= len(p.s) {
			return nil, p.errf("unterminated start tag")
		}
		if p.s[p.pos] == '>' {
			p.pos++
			break
		}
		if strings.HasPrefix(p.s[p.pos:], "/>") {
			p.pos += 2
			selfClose = true
			break
		}
		if !sp {
			return nil, p.errf("missing whitespace between attributes")
		}
		an, err := p.name()
		if err != nil {
			return nil, err
		}
		p.skipSpace()
		if p.pos >= len(p.s) || p.s[p.pos] != '=' {
			return nil, p.errf("attribute %q without value", an)
		}
		p.pos++
		p.skipSpace()
		av, err := p.attValue()
		if err != nil {
			return nil, err
		}
		for _, r := range raws {
			if r.name == an {
				return nil, p.errf("duplicate attribute %q", an)
			}
		}
		raws = append(raws, rawAttr{an, av})
	}
	n := &Node{Parent: parent}
	// namespace declarations first
	local := scope
	copied := false
	for _, r := range raws {
		var prefix string
		switch {
		case r.name == "xmlns":
			prefix = ""
		case strings.HasPrefix(r.name, "xmlns:"):
			prefix = r.name[6:]
			if prefix == "" || strings.Contains(prefix, ":") {
				return nil, p.errf("bad namespace declaration %q", r.name)
			}
			if r.value == "" {
				return nil, p.errf("prefix %q undeclared with empty URI", prefix)
			}
			if prefix == "xmlns" || (prefix == "xml") != (r.value == XMLSpace) || r.value == XMLNS {
				return nil, p.errf("illegal namespace declaration %q", r.name)
			}
		default:
			continue
		}
		if !copied {
			local = make(map[string]string, len(scope)+2)
			for k, v := range scope {
				local[k] = v
			}
			copied = true
		}
		local[prefix] = r.value
		n.NS = append(n.NS, NSDecl{prefix, r.value})
	}
	var ok bool
	n.Prefix, n.Local, ok = splitQName(qname)
	if !ok {
		return nil, p.errf("bad element name %q", qname)
	}
	if n.Prefix == "xmlns" {
		return nil, p.errf("element with prefix xmlns")
	}
	if n.Prefix != "" {
		if n.Space, ok = local[n.Prefix]; !ok {
			return nil, p.errf("unbound prefix %q", n.Prefix)
		}
	} else {
		n.Space = local[""]
	}
	for _, r := range raws {
		if r.name == "xmlns" || strings.HasPrefix(r.name, "xmlns:") {
			continue
		}
		a := Attr{Value: r.value}
		a.Prefix, a.Local, ok = splitQName(r.name)
		if !ok {
			return nil, p.errf("bad attribute name %q", r.name)
		}
		if a.Prefix != "" {
			if a.Space, ok = local[a.Prefix]; !ok {
				return nil, p.errf("unbound prefix %q", a.Prefix)
			}
		}
		for _, o := range n.Attrs {
			if o.Space == a.Space && o.Local == a.Local {
				return nil, p.errf("duplicate attribute {%s}%s", a.Space, a.Local)
			}
		}
		n.Attrs = append(n.Attrs, a)
	}
	if selfClose {
		return n, nil
	}
	// content
	var text strings.Builder
	flush := func() {
		if text.Len() > 0 {
			n.Children = append(n.Children, &Child{Kind: KindText, Text: text.String()})
			text.Reset()
		}
	}
	for {
		if p.pos >= len(p.s) {
			return nil, p.errf("unterminated element <%s>", qname)
		}
		c := p.s[p.pos]
		switch {
		case c == '&':
			r, err := p.reference()
			if err != nil {
				return nil, err
			}
			text.WriteString(r)
		case c != '<':
			if c == ']' && strings.HasPrefix(p.s[p.pos:], "]]>") {
				return nil, p.errf("']]>' in character data")
			}
			text.WriteByte(c)
			p.pos++
		case strings.HasPrefix(p.s[p.pos:], "</"):
			flush()
			p.pos += 2
			en, err := p.name()
			if err != nil {
				return nil, err
			}
			if en != qname {
				return nil, p.errf("end tag </%s> does not match <%s>", en, qname)
			}
			p.skipSpace()
			if p.pos >= len(p.s) || p.s[p.pos] != '>' {
				return nil, p.errf("malformed end tag")
			}
			p.pos++
			return n, nil
		case strings.HasPrefix(p.s[p.pos:], "<![CDATA["):
			end := strings.Index(p.s[p.pos:], "]]>")
			if end < 0 {
				return nil, p.errf("unterminated CDATA section")
			}
			text.WriteString(p.s[p.pos+9 : p.pos+end])
			p.pos += end + 3
		case strings.HasPrefix(p.s[p.pos:], "<!--"):
			flush()
			cm, err := p.comment()
			if err != nil {
				return nil, err
			}
			n.Children = append(n.Children, &Child{Kind: KindComment, Text: cm})
		case strings.HasPrefix(p.s[p.pos:], "<?"):
			flush()
			target, data, err := p.pi()
			if err != nil {
				return nil, err
			}
			n.Children = append(n.Children, &Child{Kind: KindPI, PI: target, Text: data})
		case strings.HasPrefix(p.s[p.pos:], "<!"):
			return nil, p.errf("markup declaration inside element")
		default:
			flush()
			ch, err := p.element(n, local, depth+1)
			if err != nil {
				return nil, err
			}
			n.Children = append(n.Children, &Child{Kind: KindElem, Elem: ch})
		}
	}
}
