package xt

import (
	"fmt"

	"pgregory.net/rapid"
)

// Text alphabets shared by the harness generators.

var legalPieces = []string{
	"a", "b", "Z", "0", "9", "x", "y", " ", "  ", "&", "<", ">", "\"", "'", "]]>", "&amp;", "&#x41;", "&lt;", "%41", "%26", "+",
	"\t", "\n", "\r", "\r\n", "ü", "é", "€", "日本", "𝄞", "😀", "?", "#", "/", ":", "@", "%", "=", ";", ",", "-", "_", ".", "~", "\\", "`", "{", "}", "|",
	"\u00A0", "\u2028", "\u0085", "\uFFFD", "\x7f", "\u0080", "\u0092", "\u009f", "O\u0092Brien", "<!--", "-->", "<![CDATA[", "<?", "?>", "javascript:", "</script>",
}

// LegalString draws a string of legal XML characters with many metacharacters.
func LegalString(max int) *rapid.Generator[string] {
	return rapid.Custom(func(t *rapid.T) string {
		n := rapid.IntRange(0, max).Draw(t, "pieces")
		s := ""
		for i := 0; i < n; i++ {
			s += rapid.SampledFrom(legalPieces).Draw(t, "piece")
		}
		return s
	})
}

var hostilePieces = []string{
	"\x00", "\x01", "\x08", "\x0b", "\x0c", "\x1f", "\uFFFE", "\uFFFF", "\xed\xa0\x80", "\xed\xbf\xbf", "\xff", "\xc0\xaf", "\xe2\x82", "\xf4\x90\x80\x80",
}

// AnyString adds illegal XML characters and invalid UTF-8 to LegalString.
func AnyString(max int) *rapid.Generator[string] {
	return rapid.Custom(func(t *rapid.T) string {
		n := rapid.IntRange(0, max).Draw(t, "pieces")
		s := ""
		for i := 0; i < n; i++ {
			if rapid.IntRange(0, 3).Draw(t, "hostile") == 0 {
				s += rapid.SampledFrom(hostilePieces).Draw(t, "hpiece")
			} else {
				s += rapid.SampledFrom(legalPieces).Draw(t, "piece")
			}
		}
		return s
	})
}

// HasSpecial reports whether s contains characters that need escaping somewhere, or non-ASCII.
func HasSpecial(s string) bool {
	for _, r := range s {
		switch r {
		case '&', '<', '>', '"', '\'', '\t', '\n', '\r':
			return true
		}
		if r > 0x7e {
			return true
		}
	}
	return len(s) > 0 && (s[0] == ' ' || s[len(s)-1] == ' ')
}

// SpecialClasses names the classes of special characters in s (for evidence histograms).
func SpecialClasses(s string) []string {
	var out []string
	has := func(c string) bool {
		for _, o := range out {
			if o == c {
				return true
			}
		}
		return false
	}
	add := func(c string) {
		if !has(c) {
			out = append(out, c)
		}
	}
	for _, r := range s {
		switch {
		case r == '&':
			add("amp")
		case r == '<':
			add("lt")
		case r == '>':
			add("gt")
		case r == '"':
			add("quot")
		case r == '\'':
			add("apos")
		case r == '\t':
			add("tab")
		case r == '\n':
			add("lf")
		case r == '\r':
			add("cr")
		case r == 0:
			add("nul")
		case r == 0xFFFD:
			add("fffd")
		case r < 0x20 || r == 0xFFFE || r == 0xFFFF:
			add("ctrl")
		case r > 0xFFFF:
			add("astral")
		case r > 0x7e:
			add("nonascii")
		}
	}
	if len(s) > 0 && (s[0] == ' ' || s[len(s)-1] == ' ') {
		add("edge-blank")
	}
	return out
}

var genNames = []string{"a", "b", "Item", "x-y", "n_1", "Ünï"}
var genPrefixes = []string{"", "", "p", "q", "samlp", "ds"}
var genURIs = []string{"urn:one", "urn:two", "http://example.org/ns?a=1&b=2", "urn:three"}

// GenTree draws a random namespace-well-formed tree.
func GenTree(t *rapid.T) *Node {
	return genElem(t, map[string]string{}, 0)
}

func genElem(t *rapid.T, scope map[string]string, depth int) *Node {
	n := &Node{Local: rapid.SampledFrom(genNames).Draw(t, "name")}
	local := map[string]string{}
	for k, v := range scope {
		local[k] = v
	}
	used := map[string]bool{}
	bind := func(prefix string, allowNone bool) string {
		if used[prefix] {
			return local[prefix]
		}
		used[prefix] = true
		if prefix == "" && allowNone && rapid.Bool().Draw(t, "nons") {
			if local[""] != "" {
				n.NS = append(n.NS, NSDecl{"", ""})
				local[""] = ""
			}
			return ""
		}
		uri := rapid.SampledFrom(genURIs).Draw(t, "uri")
		if local[prefix] != uri {
			// re-declare unless already declared on this element
			for _, d := range n.NS {
				if d.Prefix == prefix {
					return d.URI
				}
			}
			n.NS = append(n.NS, NSDecl{prefix, uri})
			local[prefix] = uri
		}
		return uri
	}
	n.Prefix = rapid.SampledFrom(genPrefixes).Draw(t, "prefix")
	n.Space = bind(n.Prefix, true)
	// unused declarations
	if rapid.IntRange(0, 3).Draw(t, "extra") == 0 {
		p := fmt.Sprintf("u%d", depth)
		n.NS = append(n.NS, NSDecl{p, "urn:unused"})
		local[p] = "urn:unused"
	}
	na := rapid.IntRange(0, 3).Draw(t, "nattrs")
	for i := 0; i < na; i++ {
		a := Attr{Local: fmt.Sprintf("at%d", i), Value: LegalString(4).Draw(t, "aval")}
		if rapid.IntRange(0, 2).Draw(t, "aprefixed") == 0 {
			a.Prefix = rapid.SampledFrom([]string{"p", "q", "ds"}).Draw(t, "aprefix")
			a.Space = bind(a.Prefix, false)
			// expanded-name uniqueness
			dup := false
			for _, o := range n.Attrs {
				if o.Space == a.Space && o.Local == a.Local {
					dup = true
				}
			}
			if dup {
				continue
			}
		}
		n.Attrs = append(n.Attrs, a)
	}
	if depth < 3 {
		nc := rapid.IntRange(0, 3).Draw(t, "nchildren")
		for i := 0; i < nc; i++ {
			switch rapid.IntRange(0, 3).Draw(t, "ckind") {
			case 0:
				txt := LegalString(4).Draw(t, "text")
				if txt != "" {
					// merge adjacent text so that a re-parse yields the same tree
					if k := len(n.Children); k > 0 && n.Children[k-1].Kind == KindText {
						n.Children[k-1].Text += txt
					} else {
						n.Children = append(n.Children, &Child{Kind: KindText, Text: txt, Style: rapid.SampledFrom([]string{"", "", "cdata"}).Draw(t, "tstyle")})
					}
				}
			case 1:
				n.Children = append(n.Children, &Child{Kind: KindComment, Text: rapid.SampledFrom([]string{" c ", "x", ""}).Draw(t, "comment")})
			default:
				ch := genElem(t, local, depth+1)
				ch.Parent = n
				n.Children = append(n.Children, &Child{Kind: KindElem, Elem: ch})
			}
		}
	}
	return n
}

// GenStyle draws a serialisation style.
func GenStyle(t *rapid.T) Style {
	return Style{
		Decl:        rapid.SampledFrom([]string{"", "std", "bare"}).Draw(t, "decl"),
		SingleQuote: rapid.Bool().Draw(t, "squote"),
		SpaceInTag:  rapid.Bool().Draw(t, "spaceintag"),
		SelfClose:   rapid.Bool().Draw(t, "selfclose"),
		AttrNewline: rapid.IntRange(0, 4).Draw(t, "attrnl") == 0,
		CharRefText: rapid.IntRange(0, 3).Draw(t, "charref") == 0,
		Misc:        rapid.SampledFrom([]string{"", "", "", "nl", "nl", "crlf", "blank-lines", "comment", "pi", "lead-comment"}).Draw(t, "misc"),
	}
}

// Equal compares two trees on the infoset level (names, namespaces, attributes as sets, children).
func Equal(a, b *Node) error {
	if a.Space != b.Space || a.Local != b.Local || a.Prefix != b.Prefix {
		return fmt.Errorf("element {%s}%s:%s vs {%s}%s:%s", a.Space, a.Prefix, a.Local, b.Space, b.Prefix, b.Local)
	}
	if len(a.Attrs) != len(b.Attrs) {
		return fmt.Errorf("%s: %d vs %d attributes", a.Local, len(a.Attrs), len(b.Attrs))
	}
	for _, x := range a.Attrs {
		found := false
		for _, y := range b.Attrs {
			if x.Space == y.Space && x.Local == y.Local {
				found = true
				if x.Value != y.Value {
					return fmt.Errorf("%s@%s: %q vs %q", a.Local, x.Local, x.Value, y.Value)
				}
			}
		}
		if !found {
			return fmt.Errorf("%s@%s missing", a.Local, x.Local)
		}
	}
	ca, cb := mergeText(a.Children), mergeText(b.Children)
	if len(ca) != len(cb) {
		return fmt.Errorf("%s: %d vs %d children", a.Local, len(ca), len(cb))
	}
	for i := range ca {
		if ca[i].Kind != cb[i].Kind {
			return fmt.Errorf("%s child %d: kind %d vs %d", a.Local, i, ca[i].Kind, cb[i].Kind)
		}
		switch ca[i].Kind {
		case KindElem:
			if err := Equal(ca[i].Elem, cb[i].Elem); err != nil {
				return err
			}
		default:
			if ca[i].Text != cb[i].Text {
				return fmt.Errorf("%s child %d: %q vs %q", a.Local, i, ca[i].Text, cb[i].Text)
			}
		}
	}
	return nil
}

func mergeText(in []*Child) []*Child {
	var out []*Child
	for _, c := range in {
		if c.Kind == KindText && len(out) > 0 && out[len(out)-1].Kind == KindText {
			m := *out[len(out)-1]
			m.Text += c.Text
			out[len(out)-1] = &m
			continue
		}
		out = append(out, c)
	}
	return out
}

var tamePieces = []string{"a", "b", "Z", "0", "9", "x y", "'", "ü", "é", "€", "日本", "-", "_", ".", ":", "/", "@", "=", ";", ",", "~", "+", "%41", "#", "?", "(", ")", "!", "*", "\u00A0"}

// TameString draws strings that need no escaping in XML text or attribute values (quotes excepted: only the apostrophe occurs).
func TameString(max int) *rapid.Generator[string] {
	return rapid.Custom(func(t *rapid.T) string {
		n := rapid.IntRange(0, max).Draw(t, "pieces")
		s := ""
		for i := 0; i < n; i++ {
			s += rapid.SampledFrom(tamePieces).Draw(t, "piece")
		}
		return s
	})
}
