package xt

import (
	"sort"
	"strings"
)

// C14N options.
type C14NOpts struct {
	Exclusive    bool
	WithComments bool
	InclusiveNS  []string // InclusiveNamespaces PrefixList for exclusive c14n ("#default" = default ns)
	Skip         *Node    // subtree to leave out (enveloped-signature transform)
	UnescapedBug bool     // reproduce a canonicaliser that does not escape text/attribute values (diagnosis only)
}

func escText(s string, b *strings.Builder) {
	for i := 0; i < len(s); i++ {
		switch s[i] {
		case '&':
			b.WriteString("&amp;")
		case '<':
			b.WriteString("&lt;")
		case '>':
			b.WriteString("&gt;")
		case '\r':
			b.WriteString("&#xD;")
		default:
			b.WriteByte(s[i])
		}
	}
}

func escAttr(s string, b *strings.Builder) {
	for i := 0; i < len(s); i++ {
		switch s[i] {
		case '&':
			b.WriteString("&amp;")
		case '<':
			b.WriteString("&lt;")
		case '"':
			b.WriteString("&quot;")
		case '\t':
			b.WriteString("&#x9;")
		case '\n':
			b.WriteString("&#xA;")
		case '\r':
			b.WriteString("&#xD;")
		default:
			b.WriteByte(s[i])
		}
	}
}

// Canonicalize renders the subtree rooted at n (a document subset: n and its descendants,
// minus opts.Skip) in canonical form, taking the namespace context from n's ancestors.
func Canonicalize(n *Node, opts C14NOpts) []byte {
	var b strings.Builder
	inScope := n.InScope()
	// for inclusive c14n the apex inherits all in-scope namespaces (and xml:* attributes, ignored here)
	rendered := map[string]string{}
	incl := map[string]bool{}
	for _, p := range opts.InclusiveNS {
		if p == "#default" {
			p = ""
		}
		incl[p] = true
	}
	// scope above n (bindings of n itself are applied inside c14nElem)
	above := map[string]string{"xml": XMLSpace}
	if n.Parent != nil {
		above = n.Parent.InScope()
	}
	_ = inScope
	c14nElem(n, above, rendered, incl, opts, &b)
	return []byte(b.String())
}

func c14nElem(n *Node, scopeAbove, renderedAbove map[string]string, incl map[string]bool, opts C14NOpts, b *strings.Builder) {
	scope := scopeAbove
	if len(n.NS) > 0 {
		scope = make(map[string]string, len(scopeAbove)+len(n.NS))
		for k, v := range scopeAbove {
			scope[k] = v
		}
		for _, d := range n.NS {
			scope[d.Prefix] = d.URI
		}
	}
	// which prefixes to consider for output
	want := map[string]bool{}
	if opts.Exclusive {
		want[n.Prefix] = true
		for _, a := range n.Attrs {
			if a.Prefix != "" {
				want[a.Prefix] = true
			}
		}
		for p := range incl {
			if _, ok := scope[p]; ok || p == "" {
				want[p] = true
			}
		}
	} else {
		for p := range scope {
			want[p] = true
		}
		want[""] = true
	}
	rendered := renderedAbove
	var decls []NSDecl
	for p := range want {
		if p == "xml" {
			continue
		}
		uri := scope[p] // "" when the default namespace is undeclared
		prev, had := renderedAbove[p]
		if p == "" && uri == "" {
			if had && prev != "" {
				decls = append(decls, NSDecl{"", ""})
			}
			continue
		}
		if p != "" && uri == "" {
			continue
		}
		if !had || prev != uri {
			decls = append(decls, NSDecl{p, uri})
		}
	}
	if len(decls) > 0 {
		rendered = make(map[string]string, len(renderedAbove)+len(decls))
		for k, v := range renderedAbove {
			rendered[k] = v
		}
		for _, d := range decls {
			rendered[d.Prefix] = d.URI
		}
	}
	sort.Slice(decls, func(i, j int) bool { return decls[i].Prefix < decls[j].Prefix })
	attrs := append([]Attr(nil), n.Attrs...)
	sort.SliceStable(attrs, func(i, j int) bool {
		if attrs[i].Space != attrs[j].Space {
			return attrs[i].Space < attrs[j].Space
		}
		return attrs[i].Local < attrs[j].Local
	})
	q := n.Local
	if n.Prefix != "" {
		q = n.Prefix + ":" + n.Local
	}
	b.WriteByte('<')
	b.WriteString(q)
	for _, d := range decls {
		if d.Prefix == "" {
			b.WriteString(` xmlns="`)
		} else {
			b.WriteString(" xmlns:" + d.Prefix + `="`)
		}
		if opts.UnescapedBug {
			b.WriteString(d.URI)
		} else {
			escAttr(d.URI, b)
		}
		b.WriteByte('"')
	}
	for _, a := range attrs {
		b.WriteByte(' ')
		if a.Prefix != "" {
			b.WriteString(a.Prefix + ":")
		}
		b.WriteString(a.Local)
		b.WriteString(`="`)
		if opts.UnescapedBug {
			b.WriteString(a.Value)
		} else {
			escAttr(a.Value, b)
		}
		b.WriteByte('"')
	}
	b.WriteByte('>')
	for _, c := range n.Children {
		switch c.Kind {
		case KindText:
			if opts.UnescapedBug {
				b.WriteString(c.Text)
			} else {
				escText(c.Text, b)
			}
		case KindElem:
			if c.Elem == opts.Skip {
				continue
			}
			c14nElem(c.Elem, scope, rendered, incl, opts, b)
		case KindComment:
			if opts.WithComments {
				b.WriteString("<!--" + c.Text + "-->")
			}
		case KindPI:
			b.WriteString("<?" + c.PI)
			if c.Text != "" {
				b.WriteString(" " + c.Text)
			}
			b.WriteString("?>")
		}
	}
	b.WriteString("</" + q + ">")
}
