package xt

import (
	"sort"
	"strings"
)

// Attr returns the value of the unqualified attribute local.
func (n *Node) Attr(local string) (string, bool) {
	for _, a := range n.Attrs {
		if a.Space == "" && a.Local == local {
			return a.Value, true
		}
	}
	return "", false
}

// AttrV returns the value of the unqualified attribute or "".
func (n *Node) AttrV(local string) string {
	v, _ := n.Attr(local)
	return v
}

// Text returns the concatenated text children (not descendants).
func (n *Node) Text() string {
	var b strings.Builder
	for _, c := range n.Children {
		if c.Kind == KindText {
			b.WriteString(c.Text)
		}
	}
	return b.String()
}

// Elems returns the element children.
func (n *Node) Elems() []*Node {
	var out []*Node
	for _, c := range n.Children {
		if c.Kind == KindElem {
			out = append(out, c.Elem)
		}
	}
	return out
}

// Child returns the first element child with the given namespace and local name ("" space = any).
func (n *Node) Child(space, local string) *Node {
	for _, c := range n.Children {
		if c.Kind == KindElem && c.Elem.Local == local && (space == "" || c.Elem.Space == space) {
			return c.Elem
		}
	}
	return nil
}

// ChildrenNamed returns all element children with the given name.
func (n *Node) ChildrenNamed(space, local string) []*Node {
	var out []*Node
	for _, c := range n.Children {
		if c.Kind == KindElem && c.Elem.Local == local && (space == "" || c.Elem.Space == space) {
			out = append(out, c.Elem)
		}
	}
	return out
}

// Path follows a chain of local names (any namespace).
func (n *Node) Path(locals ...string) *Node {
	cur := n
	for _, l := range locals {
		if cur == nil {
			return nil
		}
		cur = cur.Child("", l)
	}
	return cur
}

// Walk visits n and all descendant elements in document order.
func (n *Node) Walk(f func(*Node)) {
	f(n)
	for _, c := range n.Children {
		if c.Kind == KindElem {
			c.Elem.Walk(f)
		}
	}
}

// FindAll returns all descendant-or-self elements with the given name.
func (n *Node) FindAll(space, local string) []*Node {
	var out []*Node
	n.Walk(func(e *Node) {
		if e.Local == local && (space == "" || e.Space == space) {
			out = append(out, e)
		}
	})
	return out
}

// InScope returns the namespace bindings in scope at n (prefix -> URI), from the document.
func (n *Node) InScope() map[string]string {
	var chain []*Node
	for e := n; e != nil; e = e.Parent {
		chain = append(chain, e)
	}
	m := map[string]string{"xml": XMLSpace}
	for i := len(chain) - 1; i >= 0; i-- {
		for _, d := range chain[i].NS {
			m[d.Prefix] = d.URI
		}
	}
	return m
}

// Skeleton renders the element/attribute structure without any text or attribute values:
// what data must never be able to change.
func (n *Node) Skeleton() string {
	var b strings.Builder
	n.skeleton(&b)
	return b.String()
}

func (n *Node) skeleton(b *strings.Builder) {
	b.WriteString("<{" + n.Space + "}" + n.Local)
	names := make([]string, 0, len(n.Attrs))
	for _, a := range n.Attrs {
		names = append(names, "{"+a.Space+"}"+a.Local)
	}
	sort.Strings(names)
	for _, a := range names {
		b.WriteString(" @" + a)
	}
	b.WriteString(">")
	for _, c := range n.Children {
		if c.Kind == KindElem {
			c.Elem.skeleton(b)
		}
	}
	b.WriteString("</>")
}

// Leaves lists every attribute value and every element's direct text, with a path, in document order.
func (n *Node) Leaves() []Leaf {
	var out []Leaf
	n.leaves("", &out)
	return out
}

type Leaf struct {
	Path  string
	Value string
}

func (n *Node) leaves(prefix string, out *[]Leaf) {
	path := prefix + "/" + n.Local
	for _, a := range n.Attrs {
		*out = append(*out, Leaf{path + "@" + a.Local, a.Value})
	}
	if t := n.Text(); len(n.Elems()) == 0 || strings.TrimSpace(t) != "" {
		*out = append(*out, Leaf{path + "#text", t})
	}
	for _, c := range n.Children {
		if c.Kind == KindElem {
			c.Elem.leaves(path, out)
		}
	}
}

// Clone deep-copies a subtree (Parent of the copy is nil).
func (n *Node) Clone() *Node {
	c := &Node{Prefix: n.Prefix, Space: n.Space, Local: n.Local}
	c.NS = append([]NSDecl(nil), n.NS...)
	c.Attrs = append([]Attr(nil), n.Attrs...)
	for _, ch := range n.Children {
		nc := &Child{Kind: ch.Kind, Text: ch.Text, PI: ch.PI, Style: ch.Style}
		if ch.Kind == KindElem {
			nc.Elem = ch.Elem.Clone()
			nc.Elem.Parent = c
		}
		c.Children = append(c.Children, nc)
	}
	return c
}

// NewElem builds an element; the caller is responsible for namespace declarations.
func NewElem(prefix, space, local string) *Node {
	return &Node{Prefix: prefix, Space: space, Local: local}
}

func (n *Node) Declare(prefix, uri string) *Node {
	n.NS = append(n.NS, NSDecl{prefix, uri})
	return n
}

func (n *Node) SetAttr(local, value string) *Node {
	for i := range n.Attrs {
		if n.Attrs[i].Space == "" && n.Attrs[i].Local == local {
			n.Attrs[i].Value = value
			return n
		}
	}
	n.Attrs = append(n.Attrs, Attr{Local: local, Value: value})
	return n
}

func (n *Node) DelAttr(local string) {
	for i := range n.Attrs {
		if n.Attrs[i].Space == "" && n.Attrs[i].Local == local {
			n.Attrs = append(n.Attrs[:i:i], n.Attrs[i+1:]...)
			return
		}
	}
}

func (n *Node) Add(ch *Node) *Node {
	ch.Parent = n
	n.Children = append(n.Children, &Child{Kind: KindElem, Elem: ch})
	return n
}

func (n *Node) AddText(s string) *Node {
	n.Children = append(n.Children, &Child{Kind: KindText, Text: s})
	return n
}

func (n *Node) AddTextStyled(s, style string) *Node {
	n.Children = append(n.Children, &Child{Kind: KindText, Text: s, Style: style})
	return n
}

func (n *Node) AddComment(s string) *Node {
	n.Children = append(n.Children, &Child{Kind: KindComment, Text: s})
	return n
}

// InsertAt inserts an element child at child position i.
func (n *Node) InsertAt(i int, ch *Node) {
	ch.Parent = n
	c := &Child{Kind: KindElem, Elem: ch}
	if i >= len(n.Children) {
		n.Children = append(n.Children, c)
		return
	}
	n.Children = append(n.Children[:i:i], append([]*Child{c}, n.Children[i:]...)...)
}

// RemoveChild removes the element child ch.
func (n *Node) RemoveChild(ch *Node) bool {
	for i, c := range n.Children {
		if c.Kind == KindElem && c.Elem == ch {
			n.Children = append(n.Children[:i:i], n.Children[i+1:]...)
			return true
		}
	}
	return false
}
