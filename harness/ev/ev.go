// Package ev collects what a check run actually covered and reports violations.
//
// One Collector per property per test process ("shard"). The Go test binary writes a shard
// file; the ./check driver merges shards into /verif/evidence/<id>.json.
package ev

import (
	"crypto/sha256"
	"encoding/hex"
	"encoding/json"
	"fmt"
	"os"
	"path/filepath"
	"sort"
	"strconv"
	"sync"
	"time"
)

// Violation is what an oracle returns when the property does not hold for a case.
type Violation struct {
	// Key is the root-cause key computed by the oracle, e.g. "C04/xmlsig-canon-unescaped".
	Key string `json:"key"`
	// What describes, in one line, what was expected and what was observed.
	What string `json:"what"`
	// Detail carries anything useful for a reader of the replay file.
	Detail any `json:"detail,omitempty"`
}

func (v *Violation) Error() string { return v.Key + ": " + v.What }

// V builds a violation.
func V(key, format string, args ...any) *Violation {
	return &Violation{Key: key, What: fmt.Sprintf(format, args...)}
}

type knownEntry struct {
	Property string `json:"property"`
	Key      string `json:"key"`
	Status   string `json:"status"` // "open" suppresses; "fixed" suppresses nothing
	What     string `json:"what"`
	Commit   string `json:"commit,omitempty"`
}

type Collector struct {
	ID    string
	Level string
	Rule  string

	mu          sync.Mutex
	start       time.Time
	evals       int
	nontrivial  map[string]struct{}
	classes     map[string]int
	samples     []any
	sampleClass map[string]int
	known       map[string]int
	knownWhat   map[string]string
	extra       map[string]any
	assumptions []string
	exhaustive  bool
	distinctN   int
	replayTest  string
	openKnown   map[string]string

	lastFail     []byte
	lastFailKey  string
	lastFailWhat string
}

var (
	regMu sync.Mutex
	reg   = map[string]*Collector{}
)

// For returns the process-wide collector of a property.
func For(id, level, rule string) *Collector {
	regMu.Lock()
	defer regMu.Unlock()
	if c, ok := reg[id]; ok {
		return c
	}
	c := &Collector{
		ID: id, Level: level, Rule: rule,
		start:       time.Now(),
		nontrivial:  map[string]struct{}{},
		classes:     map[string]int{},
		sampleClass: map[string]int{},
		known:       map[string]int{},
		knownWhat:   map[string]string{},
		extra:       map[string]any{},
		openKnown:   map[string]string{},
	}
	c.loadKnown()
	reg[id] = c
	return c
}

func (c *Collector) loadKnown() {
	path := os.Getenv("VERIF_KNOWN")
	if path == "" {
		path = "/verif/known_findings.json"
	}
	b, err := os.ReadFile(path)
	if err != nil {
		return
	}
	var f struct {
		Findings []knownEntry `json:"findings"`
	}
	if err := json.Unmarshal(b, &f); err != nil {
		fmt.Fprintf(os.Stderr, "HARNESS: cannot parse %s: %v\n", path, err)
		os.Exit(2)
	}
	for _, e := range f.Findings {
		if e.Property == c.ID && e.Status == "open" {
			c.openKnown[e.Key] = e.What
		}
	}
}

// IsKnown reports whether key is listed as an open known finding; if so it is counted.
func (c *Collector) IsKnown(v *Violation) bool {
	c.mu.Lock()
	defer c.mu.Unlock()
	if _, ok := c.openKnown[v.Key]; ok {
		c.known[v.Key]++
		if _, seen := c.knownWhat[v.Key]; !seen {
			c.knownWhat[v.Key] = v.What
		}
		return true
	}
	return false
}

// Fingerprint hashes a classification vector.
func Fingerprint(parts ...any) string {
	h := sha256.New()
	for _, p := range parts {
		fmt.Fprintf(h, "%v\x00", p)
	}
	return hex.EncodeToString(h.Sum(nil))[:16]
}

// Case records one evaluated case.
func (c *Collector) Case(nontrivial bool, fingerprint string, classes []string, sample func() any) {
	c.mu.Lock()
	defer c.mu.Unlock()
	c.evals++
	if nontrivial {
		c.nontrivial[fingerprint] = struct{}{}
	}
	for _, cl := range classes {
		c.classes[cl]++
	}
	if sample != nil {
		key := "-"
		if len(classes) > 0 {
			key = classes[0]
		}
		if c.sampleClass[key] < 2 && len(c.samples) < 16 {
			c.sampleClass[key]++
			c.samples = append(c.samples, sample())
		}
	}
}

// Count adds n to a named class counter without counting an evaluation.
func (c *Collector) Count(class string, n int) {
	c.mu.Lock()
	c.classes[class] += n
	c.mu.Unlock()
}

// Bulk records n evaluations at once (enumerators), k of them distinct non-trivial.
func (c *Collector) Bulk(n int, fingerprints []string) {
	c.mu.Lock()
	c.evals += n
	for _, f := range fingerprints {
		c.nontrivial[f] = struct{}{}
	}
	c.mu.Unlock()
}

// AddDistinct adds n cases that are distinct and non-trivial by construction (enumerators that
// visit every point of a finite space once) without storing a fingerprint for each.
func (c *Collector) AddDistinct(evals, distinct int) {
	c.mu.Lock()
	c.evals += evals
	c.distinctN += distinct
	c.mu.Unlock()
}

// SetReplayTest names the test function that can re-execute a saved case.
func (c *Collector) SetReplayTest(name string) { c.mu.Lock(); c.replayTest = name; c.mu.Unlock() }

func (c *Collector) SetExtra(k string, v any) { c.mu.Lock(); c.extra[k] = v; c.mu.Unlock() }
func (c *Collector) SetExhaustive(b bool)     { c.mu.Lock(); c.exhaustive = b; c.mu.Unlock() }
func (c *Collector) Assume(s string) {
	c.mu.Lock()
	for _, a := range c.assumptions {
		if a == s {
			c.mu.Unlock()
			return
		}
	}
	c.assumptions = append(c.assumptions, s)
	c.mu.Unlock()
}

// Sample appends a sample unconditionally (bounded).
func (c *Collector) Sample(s any) {
	c.mu.Lock()
	if len(c.samples) < 24 {
		c.samples = append(c.samples, s)
	}
	c.mu.Unlock()
}

// Fail records the concrete failing case (JSON-serialisable). The last one recorded in a
// process is the minimal one (rapid re-runs the shrunk case last).
func (c *Collector) Fail(v *Violation, concreteCase any) {
	c.mu.Lock()
	test := c.replayTest
	c.mu.Unlock()
	b, err := json.MarshalIndent(map[string]any{
		"property":  c.ID,
		"test":      test,
		"violation": v,
		"case":      concreteCase,
	}, "", " ")
	if err != nil {
		b = []byte(fmt.Sprintf(`{"property":%q,"marshal_error":%q}`, c.ID, err.Error()))
	}
	c.mu.Lock()
	c.lastFail = b
	c.lastFailKey = v.Key
	c.lastFailWhat = v.What
	c.mu.Unlock()
}

// Report is called once after the search finished (from a deferred function in the test):
// it writes the replay file and the VIOLATION line if a failure was recorded, and the shard file.
func (c *Collector) Report(failed bool) {
	c.mu.Lock()
	defer c.mu.Unlock()
	violations := 0
	if failed && c.lastFail != nil {
		violations = 1
		dir := os.Getenv("VERIF_REPLAY_DIR")
		if dir == "" {
			dir = "/verif/replays"
		}
		_ = os.MkdirAll(dir, 0o755)
		sum := sha256.Sum256(c.lastFail)
		path := filepath.Join(dir, fmt.Sprintf("%s-%s.json", c.ID, hex.EncodeToString(sum[:])[:12]))
		if err := os.WriteFile(path, c.lastFail, 0o644); err != nil {
			fmt.Fprintf(os.Stderr, "HARNESS: cannot write replay: %v\n", err)
		}
		fmt.Printf("VIOLATION property=%s replay=%s\n", c.ID, path)
		fmt.Printf("  key=%s %s\n", c.lastFailKey, c.lastFailWhat)
	} else if failed {
		// the test failed without an oracle verdict: a harness problem, not a violation
		fmt.Printf("HARNESS-FAILURE property=%s (test failed without a recorded violation)\n", c.ID)
	}
	for k, n := range c.known {
		fmt.Printf("KNOWN-FINDING: property=%s %s (%d cases) %s\n", c.ID, k, n, c.openKnown[k])
	}
	out := os.Getenv("VERIF_SHARD_OUT")
	if out == "" {
		return
	}
	fps := make([]string, 0, len(c.nontrivial))
	for f := range c.nontrivial {
		fps = append(fps, f)
	}
	sort.Strings(fps)
	seed, _ := strconv.ParseInt(os.Getenv("VERIF_SEED"), 10, 64)
	shard := map[string]any{
		"property_id":  c.ID,
		"level":        c.Level,
		"rule":         c.Rule,
		"seed":         seed,
		"tier":         os.Getenv("VERIF_TIER"),
		"evaluations":  c.evals,
		"fingerprints": fps,
		"distinct_n":   c.distinctN,
		"classes":      c.classes,
		"samples":      c.samples,
		"known":        c.known,
		"known_what":   c.knownWhat,
		"extra":        c.extra,
		"assumptions":  c.assumptions,
		"exhaustive":   c.exhaustive,
		"violations":   violations,
		"wall_s":       time.Since(c.start).Seconds(),
	}
	b, err := json.Marshal(shard)
	if err != nil {
		fmt.Fprintf(os.Stderr, "HARNESS: cannot marshal shard: %v\n", err)
		return
	}
	// merge with an earlier phase written by the same process chain (e.g. rapid phase + enumeration)
	if err := os.WriteFile(out, b, 0o644); err != nil {
		fmt.Fprintf(os.Stderr, "HARNESS: cannot write shard: %v\n", err)
	}
}

// Tier returns "quick" or "thorough".
func Tier() string {
	if os.Getenv("VERIF_TIER") == "thorough" {
		return "thorough"
	}
	return "quick"
}

// Seed returns VERIF_SEED (default 1).
func Seed() int64 {
	s, err := strconv.ParseInt(os.Getenv("VERIF_SEED"), 10, 64)
	if err != nil {
		return 1
	}
	return s
}

// EnvInt reads an integer knob set by the driver.
func EnvInt(name string, def int) int {
	v, err := strconv.Atoi(os.Getenv(name))
	if err != nil {
		return def
	}
	return v
}
